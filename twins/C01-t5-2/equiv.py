"""
Equivalence program for twin 2 (property C01: SDOF response series, eqsig/sdof.py, eqsig/single.py).

Run with the edit applied and cwd = the worktree:
    cd <worktree> && PYTHONPATH=<worktree> /venv/bin/python out/equiv2.py

It extracts the ORIGINAL package from git (`git archive HEAD eqsig`) into a temporary directory, then runs the very same
deterministic battery of calls / object histories once against the original and once against the edited package, each in
its own subprocess, and compares every recorded observation (returned values bit-for-bit, dtypes, shapes, contiguity,
exceptions, warning categories, state of the arguments after the call, aliasing between outputs and inputs, public
state of AccSignal objects).  Exit status 0 iff everything matches.
"""
import os
import sys
import pickle
import subprocess
import tempfile
import shutil
import io
import tarfile

TWIN = 2

# relative tolerance: 0.0 = bit-for-bit (NaN == NaN, sign of zero is compared)
RTOL = 0.0


# ----------------------------------------------------------------------------------------------------------------------
# worker: runs in a subprocess with sys.path[0] = root of the package version under test
# ----------------------------------------------------------------------------------------------------------------------

def worker(root, out_path):
    import warnings
    sys.path.insert(0, root)
    import numpy as np
    import eqsig
    from eqsig import sdof
    import eqsig.im
    import eqsig.single
    for mod in (eqsig, sdof, eqsig.im, eqsig.single):
        assert os.path.realpath(mod.__file__).startswith(os.path.realpath(root) + os.sep), (mod.__file__, root)

    records = []

    def enc(x, depth=0):
        """Canonical, picklable, exactly comparable encoding of a returned value."""
        if isinstance(x, np.ndarray):
            if x.dtype.kind == 'f':
                y = np.array(x, copy=True)
                y[np.isnan(y)] = np.nan  # canonical NaN
                data = np.ascontiguousarray(y).tobytes()
            elif x.dtype.kind == 'O':
                data = repr(x.tolist())
            else:
                data = np.ascontiguousarray(x).tobytes()
            return ('nd', x.dtype.str, x.shape, bool(x.flags['C_CONTIGUOUS']), bool(x.flags['WRITEABLE']),
                    bool(x.flags['OWNDATA']), data)
        if isinstance(x, (tuple, list)):
            return (type(x).__name__, [enc(v, depth + 1) for v in x])
        if isinstance(x, np.generic):
            return ('npscalar', x.dtype.str, enc(np.array(x))[-1])
        if isinstance(x, float):
            return ('float', 'nan' if x != x else x.hex())
        if isinstance(x, (int, bool, str)) or x is None:
            return (type(x).__name__, x)
        if isinstance(x, (complex, dict, range)):
            return ('other', type(x).__name__, repr(x))
        return ('other', type(x).__name__)

    def snapshot_arg(x):
        """State of an argument (to detect mutation of arguments)."""
        if isinstance(x, np.ndarray):
            return enc(x)[:3] + (enc(x)[-1],)
        if isinstance(x, (list, tuple)):
            return (type(x).__name__, repr(x))
        if hasattr(x, 'response_times') and hasattr(x, 'values'):
            rt = x.response_times
            return ('sig', enc(x.values), repr(x.dt), enc(rt) if isinstance(rt, np.ndarray) else repr(rt))
        if isinstance(x, (int, float, str, bool, complex, np.generic, dict, range)) or x is None:
            return ('val', repr(x))
        return ('obj', type(x).__name__)

    def alias_info(outs, ins):
        res = []
        arrs_out = [o for o in outs if isinstance(o, np.ndarray)]
        arrs_in = [i for i in ins if isinstance(i, np.ndarray)]
        for i, o in enumerate(arrs_out):
            for j, p in enumerate(arrs_out):
                if j > i:
                    res.append(('oo', i, j, bool(np.shares_memory(o, p))))
            for j, p in enumerate(arrs_in):
                res.append(('oi', i, j, bool(np.shares_memory(o, p))))
        return res

    def call(case_id, fn, args, kwargs=None, post=None):
        """Run fn(*args), record the outcome, the warnings, the arguments afterwards and aliasing."""
        kwargs = kwargs or {}
        with warnings.catch_warnings(record=True) as wlist:
            warnings.simplefilter('always')
            try:
                with np.errstate(all='warn'):
                    out = fn(*args, **kwargs)
                outcome = ('ok', enc(out))
            except BaseException as e:  # noqa
                if isinstance(e, (KeyboardInterrupt, SystemExit, MemoryError)):
                    raise
                out = None
                outcome = ('exc', type(e).__name__)
        wcats = sorted(set(w.category.__name__ for w in wlist))
        outs = list(out) if isinstance(out, (tuple, list)) else [out]
        rec = {'id': case_id, 'outcome': outcome, 'warn': wcats,
               'args_after': [snapshot_arg(a) for a in args] + [snapshot_arg(v) for v in kwargs.values()],
               'alias': alias_info(outs, list(args) + list(kwargs.values()))}
        if post is not None:
            rec['post'] = post()
        records.append(rec)
        return out

    rs = np.random.RandomState(20240501 + TWIN)

    # ------------------------------------------------------------------------------------------------ input generators
    def make_record(n, kind):
        t = np.arange(n)
        if kind == 'gauss':
            r = rs.standard_normal(n)
        elif kind == 'sine':
            r = np.sin(rs.uniform(0.01, 3.0) * t + rs.uniform(0, 6)) * rs.uniform(0.1, 10)
        elif kind == 'spike':
            r = np.zeros(n)
            if n:
                r[rs.randint(0, n)] = rs.uniform(-5, 5)
        elif kind == 'firstlast':
            r = np.zeros(n)
            if n:
                r[0] = 1.5
                r[-1] = -2.5
        elif kind == 'step':
            r = np.ones(n) * rs.uniform(-3, 3)
            r[:n // 2] = 0
        elif kind == 'const':
            r = np.ones(n) * rs.uniform(-3, 3)
        elif kind == 'zeros':
            r = np.zeros(n)
        elif kind == 'negzeros':
            r = -np.zeros(n)
        elif kind == 'ints':
            r = rs.randint(-9, 10, size=n)
        elif kind == 'huge':
            r = rs.standard_normal(n) * 10.0 ** rs.uniform(100, 305)
        elif kind == 'tiny':
            r = rs.standard_normal(n) * 10.0 ** rs.uniform(-320, -290)
        elif kind == 'alt':
            r = (-1.0) ** t * rs.uniform(0.1, 4)
        elif kind == 'ramp':
            r = t * rs.uniform(-1, 1)
        else:
            raise ValueError(kind)
        return r

    rec_kinds = ['gauss', 'gauss', 'gauss', 'sine', 'spike', 'firstlast', 'step', 'const', 'zeros', 'negzeros', 'ints',
                 'huge', 'tiny', 'alt', 'ramp']

    def record_form(r, form):
        if form == 'f64':
            return np.array(r, dtype=float)
        if form == 'list':
            return [float(v) if not isinstance(v, (int, np.integer)) else int(v) for v in r]
        if form == 'tuple':
            return tuple(float(v) for v in r)
        if form == 'f32':
            with np.errstate(all='ignore'):
                return np.array(r).astype(np.float32)
        if form == 'int':
            with np.errstate(all='ignore'):
                return np.array(np.clip(np.nan_to_num(np.array(r, dtype=float)), -1e9, 1e9) * 3).astype(np.int64)
        if form == 'strided':
            big = np.zeros(2 * len(r) + 1)
            big[1::2] = r
            return big[1::2]
        if form == 'reversed':
            return np.array(r, dtype=float)[::-1]
        if form == 'readonly':
            a = np.array(r, dtype=float)
            a.setflags(write=False)
            return a
        if form == 'int32':
            with np.errstate(all='ignore'):
                return np.array(np.clip(np.nan_to_num(np.array(r, dtype=float)), -1e6, 1e6)).astype(np.int32)
        raise ValueError(form)

    rec_forms = ['f64', 'f64', 'f64', 'list', 'tuple', 'f32', 'int', 'strided', 'reversed', 'readonly', 'int32']

    def make_periods(dt, npd, lead):
        """periods with 0.2 <= T/dt <= 2e4, optional leading zero."""
        mode = rs.randint(0, 6)
        if mode == 0:
            ratios = 10 ** rs.uniform(np.log10(0.2), np.log10(2e4), size=npd)
        elif mode == 1:
            ratios = np.sort(10 ** rs.uniform(np.log10(0.2), np.log10(2e4), size=npd))
        elif mode == 2:
            ratios = np.array([0.2, 2e4, 1.0, 2.0, 20.0, 6.0, 5.999, 0.5][:npd] + [3.0] * max(0, npd - 8))
        elif mode == 3:
            ratios = np.ones(npd) * 10 ** rs.uniform(np.log10(0.2), np.log10(2e4))  # duplicates
        elif mode == 4:
            ratios = np.logspace(0, 3, npd)
        else:
            ratios = 10 ** rs.uniform(0.5, 2.5, size=npd)
        p = ratios * dt
        p = np.clip(p, 0.2 * dt, 2e4 * dt)
        if lead == 'zero':
            p = np.insert(p, 0, 0.0)
        elif lead == 'negzero':
            p = np.insert(p, 0, -0.0)
        return p

    def periods_form(p, form):
        if form == 'arr':
            return np.array(p, dtype=float)
        if form == 'list':
            return [float(v) for v in p]
        if form == 'tuple':
            return tuple(float(v) for v in p)
        if form == 'strided':
            big = np.ones(2 * len(p))
            big[::2] = p
            return big[::2]
        if form == 'readonly':
            a = np.array(p, dtype=float)
            a.setflags(write=False)
            return a
        if form == 'f32':
            return np.array(p, dtype=np.float32)
        if form == 'listmixed':
            return [0 if v == 0 else float(v) for v in p]
        raise ValueError(form)

    p_forms = ['arr', 'arr', 'list', 'tuple', 'strided', 'readonly', 'f32', 'listmixed']

    def make_xi():
        k = rs.randint(0, 12)
        if k == 0:
            return 0
        if k == 1:
            return 0.0
        if k == 2:
            return 0.05
        if k == 3:
            return np.float64(rs.uniform(0, 1))
        if k == 4:
            return 0.999999
        if k == 5:
            return np.float32(0.05)
        if k == 6:
            return 1e-12
        if k == 7:
            return 0.5
        return float(rs.uniform(0, 0.999))

    def make_dt():
        k = rs.randint(0, 10)
        if k == 0:
            return 1
        if k == 1:
            return np.float64(0.005)
        if k == 2:
            return np.float32(0.01)
        if k == 3:
            return 0.01
        if k == 4:
            return 1e-4
        if k == 5:
            return 2.5
        return float(10 ** rs.uniform(-4, 0.5))

    entry = {'rs': sdof.response_series, 'nj': sdof.nigam_and_jennings_response}

    # --------------------------------------------------------------------------------- A. fuzz of the two entry points
    lengths = [2, 2, 3, 3, 4, 5, 8, 17, 33, 64, 100, 257]
    n_a = 2600
    for k in range(n_a):
        n = lengths[rs.randint(0, len(lengths))] if rs.rand() < 0.8 else int(rs.randint(2, 400))
        kind = rec_kinds[rs.randint(0, len(rec_kinds))]
        form = rec_forms[rs.randint(0, len(rec_forms))]
        dt = make_dt()
        lead = ['none', 'none', 'zero', 'zero', 'negzero'][rs.randint(0, 5)]
        npd = int(rs.randint(1, 13))
        if lead != 'none' and rs.rand() < 0.1:
            npd = 0  # only the T=0 row
        pf = p_forms[rs.randint(0, len(p_forms))]
        per = periods_form(make_periods(float(dt), npd, lead), pf)
        xi = make_xi()
        rec = record_form(make_record(n, kind), form)
        which = 'rs' if rs.rand() < 0.5 else 'nj'
        if rs.rand() < 0.1:
            call(('A', k, which, kind, form, pf, lead, 'kw'), entry[which], (),
                 dict(zip(['motion' if which == 'rs' else 'acc', 'dt', 'periods', 'xi'], [rec, dt, per, xi])))
        else:
            call(('A', k, which, kind, form, pf, lead), entry[which], (rec, dt, per, xi))

    # a few long records / many periods
    for k, (n, npd) in enumerate([(4000, 30), (2500, 60), (1500, 120), (6000, 5), (3000, 1)]):
        dt = [0.01, 0.005, 0.02, 0.001, 0.01][k]
        per = make_periods(dt, npd, ['none', 'zero'][k % 2])
        rec = make_record(n, ['gauss', 'sine', 'gauss', 'alt', 'step'][k])
        call(('A-long', k), entry['rs' if k % 2 else 'nj'], (rec, dt, per, [0.05, 0.0, 0.3, 0.02, 0.9][k]))

    # exhaustive small grid: T/dt corners x xi corners x lengths x leading zero
    kg = 0
    for n in (2, 3, 4, 7):
        base = make_record(n, 'gauss')
        for dt in (0.01, 1, 0.37):
            for ratio in (0.2, 0.25, 1.0, 5.0, 6.0, 20.0, 1000.0, 2e4):
                for xi in (0, 0.0, 0.05, 0.7, 0.99):
                    for lead in (False, True):
                        per = [ratio * dt, 3.3 * ratio * dt if ratio < 6000 else ratio * dt]
                        if lead:
                            per = [0.0] + per
                        call(('A-grid', kg), entry['rs' if kg % 2 else 'nj'], (base, dt, per, xi))
                        kg += 1

    # ------------------------------------------------------------------- B. corners, out-of-domain inputs, exceptions
    class _Sub(np.ndarray):
        pass

    class _HasArray(object):
        def __init__(self, v):
            self.v = v

        def __array__(self, dtype=None, copy=None):
            return np.array(self.v, dtype=dtype)

        def __len__(self):
            return len(self.v)

    r5 = np.array([0.3, -1.2, 0.7, 2.0, -0.4])
    corner_records = [
        ('empty', np.array([])), ('emptylist', []), ('one', np.array([1.5])), ('onelist', [2]), ('two', [1.0, -1.0]),
        ('scalar', 3.0), ('npscalar', np.float64(2.0)), ('zerod', np.array(2.0)), ('none', None),
        ('twod', np.arange(6.0).reshape(2, 3)), ('twod1', np.arange(4.0).reshape(4, 1)), ('twod31', np.ones((3, 1))),
        ('str', 'abc'), ('strlist', ['1.0', '2.0', '3']), ('obj', np.array([1.0, 2, 3], dtype=object)),
        ('complex', np.array([1 + 2j, 3.0, 1j])), ('nan', np.array([0.0, np.nan, 1.0, 2.0])),
        ('inf', np.array([0.0, np.inf, -1.0, 2.0])), ('neginf', [-np.inf, 1, 2]), ('bool', np.array([True, False, True])),
        ('r5', r5), ('ragged', [[1.0, 2.0], [3.0]]), ('dict', {'a': 1}), ('range', range(6)),
        ('gen', (v for v in [1.0, 2.0])),
        ('masked', np.ma.array([0.5, -1.0, 2.0, 0.25], mask=[False, True, False, False])),
        ('subclass', np.array([0.5, -1.0, 2.0, 0.25]).view(_Sub)), ('arrayiface', _HasArray([0.5, -1.0, 2.0])),
        ('bigendian', np.array([0.5, -1.0, 2.0, 0.25], dtype='>f8')), ('f16', np.array([0.5, -1.0, 2.0], dtype=np.float16)),
        ('uint8', np.array([1, 200, 3], dtype=np.uint8)),
        ('memview', memoryview(np.array([0.5, -1.0, 2.0]))), ('fortran2d', np.asfortranarray(np.ones((3, 2)))),
        ('bytes', b'abc'), ('deque', __import__('collections').deque([1.0, 2.0, 3.0])),
    ]
    corner_periods = [
        ('ok', [0.5, 1.0]), ('lead0', [0, 0.5, 1.0]), ('only0', [0]), ('only0f', np.array([0.0])), ('two0', [0, 0, 1.0]),
        ('mid0', [0.5, 0, 1.0]), ('last0', [0.5, 0.0]), ('empty', []), ('emptyarr', np.array([])), ('scalar', 1.0),
        ('zerod', np.array(1.0)), ('none', None), ('twod', np.array([[0.5, 1.0], [2.0, 3.0]])),
        ('twod11', np.array([[0.5]])), ('twod12', np.array([[0.5, 1.0]])), ('twod0', np.zeros((0, 3))),
        ('twod30', np.zeros((3, 0))), ('neg', [-1.0, 0.5]), ('nan', [np.nan, 0.5]), ('nanmid', [0.5, np.nan]),
        ('inf', [np.inf, 0.5]), ('str', 'ab'), ('strlist', ['0.5', '1']), ('int', np.array([1, 2, 3])),
        ('intlead0', np.array([0, 1, 2])), ('bool', [False, True]), ('tiny', [1e-300, 1e-200]), ('huge', [1e300, 1e200]),
        ('single', [0.7]), ('range', range(0, 3)), ('complex', [1j, 2.0]),
        ('masked', np.ma.array([0.0, 0.5, 1.0], mask=[True, False, False])), ('subclass', np.array([0.0, 0.5]).view(_Sub)),
        ('arrayiface', _HasArray([0.5, 1.0])), ('bigendian', np.array([0.0, 0.5, 1.0], dtype='>f8')),
        ('f16', np.array([0.5, 1.0], dtype=np.float16)), ('uint8lead0', np.array([0, 1, 2], dtype=np.uint8)),
        ('gen', None), ('deque', __import__('collections').deque([0.5, 1.0])),
    ]
    corner_dts = [('ok', 0.01), ('zero', 0), ('zerof', 0.0), ('neg', -0.01), ('nan', np.nan), ('inf', np.inf), ('str', '0.01'),
                  ('badstr', 'x'), ('none', None), ('arr1', np.array([0.01])), ('arr2', np.array([0.01, 0.02])),
                  ('list', [0.01]), ('int', 1), ('bool', True), ('complex', 1j), ('tiny', 1e-300), ('huge', 1e300)]
    corner_xis = [('ok', 0.05), ('zero', 0), ('one', 1), ('onef', 1.0), ('big', 1.5), ('neg', -0.1), ('nan', np.nan),
                  ('inf', np.inf), ('str', '0.05'), ('badstr', 'x'), ('none', None), ('arr1', np.array([0.05])),
                  ('arr2', np.array([0.05, 0.1])), ('list', [0.05]), ('bool', False), ('complex', 1j), ('m1', -1)]

    kb = 0
    for which in ('rs', 'nj'):
        for name, rec in corner_records:
            if name == 'gen':
                rec = (v for v in [1.0, 2.0])  # fresh generator for each use
            for pname, per in (('ok', [0.5, 1.0]), ('lead0', [0, 0.5, 1.0]), ('only0', [0]), ('single', [0.7])):
                call(('B-rec', which, name, pname), entry[which], (rec, 0.01, per, 0.05))
                kb += 1
        for pname, per in corner_periods:
            if pname == 'gen':
                per = (v for v in [0.5, 1.0])
            for rname, rec in (('r5', r5), ('two', [1.0, -1.0]), ('one', [1.0]), ('empty', [])):
                call(('B-per', which, pname, rname), entry[which], (rec, 0.01, per, 0.05))
        for dname, dt in corner_dts:
            for pname, per in (('ok', [0.5, 1.0]), ('lead0', [0, 0.5]), ('empty', [])):
                call(('B-dt', which, dname, pname), entry[which], (r5, dt, per, 0.05))
        for xname, xi in corner_xis:
            for pname, per in (('ok', [0.5, 1.0]), ('lead0', [0, 0.5]), ('empty', []), ('only0', [0])):
                call(('B-xi', which, xname, pname), entry[which], (r5, 0.01, per, xi))
        # several bad arguments at once: which exception wins
        call(('B-multi', which, 1), entry[which], (None, 'x', [], None))
        call(('B-multi', which, 2), entry[which], (3.0, 'x', [0.5], None))
        call(('B-multi', which, 3), entry[which], (3.0, 0.01, [0.5], None))
        call(('B-multi', which, 4), entry[which], ('abc', 0.01, [], 0.05))
        call(('B-multi', which, 5), entry[which], (r5, None, None, 0.05))
        call(('B-multi', which, 6), entry[which], (r5, 0.01, 1.0, 'x'))
        call(('B-multi', which, 7), entry[which], (np.float64(1.0), None, [0.5], 0.05))
        call(('B-multi', which, 8), entry[which], (r5, 0.01))
        call(('B-multi', which, 9), entry[which], ())

    # ------------------------------------------------------------------------------------------- C. compute_a_and_b
    kc = 0
    for k in range(400):
        xi = make_xi()
        form = rs.randint(0, 7)
        if form == 0:
            w = float(10 ** rs.uniform(-2, 4))
        elif form == 1:
            w = np.float64(10 ** rs.uniform(-2, 4))
        elif form == 2:
            w = 10 ** rs.uniform(-2, 4, size=int(rs.randint(0, 9)))
        elif form == 3:
            w = 10 ** rs.uniform(-1, 3, size=(2, 3))
        elif form == 4:
            w = int(rs.randint(1, 50))
        elif form == 5:
            w = rs.randint(1, 50, size=4)
        else:
            w = (10 ** rs.uniform(-2, 4, size=5)).astype(np.float32)
        dt = make_dt()
        call(('C', k, form), sdof.compute_a_and_b, (xi, w, dt))
    for xi in (1, 1.0, 1.5, -0.2, np.nan, 'x', None, np.array([0.05, 0.1]), np.array([0.05, 0.1, 0.2])):
        for w in (3.0, np.array([1.0, 20.0]), 0, 0.0, np.array([0.0, 1.0]), None, 'w', [1.0, 2.0], -2.0):
            for dt in (0.01, 0, None, np.array([0.01, 0.1])):
                call(('C-corner', kc), sdof.compute_a_and_b, (xi, w, dt))
                kc += 1

    # ----------------------------------------------------------------- D. the other public functions built on the same code
    for k in range(260):
        n = int(rs.randint(2, 120))
        dt = float(10 ** rs.uniform(-3, -1))
        lead = ['none', 'zero'][rs.randint(0, 2)]
        per = make_periods(dt, int(rs.randint(1, 8)), lead)
        rec = make_record(n, rec_kinds[rs.randint(0, len(rec_kinds))]).astype(float)
        xi = make_xi()
        call(('D-pseudo', k), sdof.pseudo_response_spectra, (rec, dt, per, xi))
        call(('D-true', k), sdof.true_response_spectra, (rec, dt, per, xi))
        if k % 4 == 0:
            asig = eqsig.AccSignal(rec, dt)
            call(('D-uke', k), sdof.calc_resp_uke_spectrum, (asig,), {'periods': per, 'xi': xi})
            call(('D-uke-def', k), sdof.calc_resp_uke_spectrum, (asig,))
            call(('D-ie', k), sdof.calc_input_energy_spectrum, (asig,), {'periods': per, 'xi': xi})
            call(('D-ie-s', k), sdof.calc_input_energy_spectrum, (asig,), {'periods': per, 'xi': xi, 'series': True})
            call(('D-crs', k), eqsig.im.cumulative_response_spectra, (asig, 'arias_intensity'),
                 {'periods': per, 'xi': xi})
            call(('D-crs-bad', k), eqsig.im.cumulative_response_spectra, (asig, 'other'), {'periods': per})
        if k % 40 == 0:
            asig = eqsig.AccSignal(rec, dt)
            call(('D-asi', k), eqsig.im.calc_asi, (asig,))
            call(('D-vsi', k), eqsig.im.calc_vsi, (asig,), {'xi': 0.1, 'periods': np.array([0.2, 0.5, 1.0])})
            call(('D-vsit', k), eqsig.im.calc_vsi_temporal, (asig,), {'periods': np.array([0.2, 0.5, 1.0])})
            call(('D-mvp', k), eqsig.im.calc_max_velocity_period, (asig,))

    # -------------------------------------------------------------------------- E. histories of AccSignal operations
    def sig_state(asig, passed_rt=None):
        def f():
            rt = asig.response_times
            return {'values': enc(asig.values), 'dt': repr(asig.dt), 'npts': asig.npts,
                    'rt': enc(rt) if isinstance(rt, np.ndarray) else repr(rt),
                    'rt_is_passed': (passed_rt is not None and rt is passed_rt),
                    'cached_xi': repr(getattr(asig, '_cached_xi', None)),
                    'cached_rs': repr(getattr(asig, '_cached_response_spectra', None))}
        return f

    for h in range(220):
        n = int(rs.randint(2, 90))
        dt = [0.01, 0.005, 0.02, 1, np.float64(0.1)][rs.randint(0, 5)]
        kind = rec_kinds[rs.randint(0, len(rec_kinds))]
        vals = record_form(make_record(n, kind), ['f64', 'list', 'int', 'f32'][rs.randint(0, 4)])
        ctor = rs.randint(0, 4)
        try:
            if ctor == 0:
                asig = eqsig.AccSignal(vals, dt)
            elif ctor == 1:
                asig = eqsig.AccSignal(vals, dt, response_times=list(make_periods(float(dt), 4, 'zero')))
            elif ctor == 2:
                asig = eqsig.AccSignal(vals, dt, response_period_range=(2 * float(dt), 50 * float(dt)))
            else:
                asig = eqsig.AccSignal(vals, dt, response_times=make_periods(float(dt), 3, 'none'), verbose=0)
        except Exception as e:  # noqa
            records.append({'id': ('E-ctor', h), 'outcome': ('exc', type(e).__name__)})
            continue
        records.append({'id': ('E-ctor', h), 'outcome': ('ok', sig_state(asig)())})
        for step in range(int(rs.randint(2, 9))):
            op = rs.randint(0, 12)
            cid = ('E', h, step, int(op))
            if op == 0:
                call(cid, asig.response_series, (), post=sig_state(asig))
            elif op == 1:
                rt = periods_form(make_periods(float(dt), int(rs.randint(1, 6)), ['none', 'zero'][rs.randint(0, 2)]),
                                  p_forms[rs.randint(0, len(p_forms))])
                call(cid, asig.response_series, (), {'response_times': rt}, post=sig_state(asig, rt))
            elif op == 2:
                call(cid, asig.response_series, (), {'xi': make_xi()}, post=sig_state(asig))
            elif op == 3:
                rt = make_periods(float(dt), int(rs.randint(1, 6)), ['none', 'zero'][rs.randint(0, 2)])
                call(cid, asig.response_series, (rt, make_xi()), post=sig_state(asig, rt))
            elif op == 4:
                call(cid, lambda: (asig.s_a, asig.s_v, asig.s_d), (), post=sig_state(asig))
            elif op == 5:
                call(cid, asig.gen_response_spectrum, (), {'xi': make_xi()}, post=sig_state(asig))
            elif op == 6:
                newv = make_record(int(rs.randint(2, 60)), rec_kinds[rs.randint(0, len(rec_kinds))])
                call(cid, asig.reset_values, (newv,), post=sig_state(asig))
            elif op == 7:
                def mutate():
                    v = asig.values
                    v[rs.randint(0, len(v))] = 3
                    return None
                call(cid, mutate, (), post=sig_state(asig))
            elif op == 8:
                rt = make_periods(float(dt), 3, 'zero')

                def setrt():
                    asig.response_times = rt
                call(cid, setrt, (), post=sig_state(asig, rt))
            elif op == 9:
                out = call(cid, asig.response_series, (), post=sig_state(asig))
                if out is not None:
                    # results are private to the caller: scribbling on them must not change the object or later results
                    for o in out:
                        o[...] = 7.0
                    call(cid + ('again',), asig.response_series, (), post=sig_state(asig))
            elif op == 10:
                call(cid, asig.response_series, (), {'xi': -1}, post=sig_state(asig))
            else:
                call(cid, asig.response_series, (), {'response_times': [], 'xi': 0.05}, post=sig_state(asig))
    # corner histories
    for name, vals in (('empty', []), ('one', [1.0]), ('two', [1.0, 2.0])):
        try:
            asig = eqsig.AccSignal(vals, 0.01)
        except Exception as e:  # noqa
            records.append({'id': ('E-corner-ctor', name), 'outcome': ('exc', type(e).__name__)})
            continue
        call(('E-corner', name, 0), asig.response_series, (), post=sig_state(asig))
        call(('E-corner', name, 1), asig.response_series, ([0, 0.1, 1.0],), post=sig_state(asig))
        call(('E-corner', name, 2), asig.response_series, (), {'xi': None}, post=sig_state(asig))
        call(('E-corner', name, 3), asig.response_series, (), {'xi': np.array([-1, 0.05])}, post=sig_state(asig))
        call(('E-corner', name, 4), asig.response_series, (1.0,), post=sig_state(asig))
        for j, xi_c in enumerate((-1.0, np.float64(-1), np.int64(-1), -0.5, -1.0000001, True, '-1', np.array(-1),
                                  np.array([-1]), 1, 0)):
            call(('E-corner', name, 5, j), asig.response_series, ([0.0, 0.05, 0.3],), {'xi': xi_c}, post=sig_state(asig))
        asig._cached_xi = 0.2  # the damping remembered by the object is what xi=-1 stands for
        call(('E-corner', name, 6), asig.response_series, (), {'xi': -1}, post=sig_state(asig))
        call(('E-corner', name, 7), asig.response_series, ([0.05, 0.3],), post=sig_state(asig))
    asig = eqsig.AccSignal(r5, 0.01, verbose=1)
    saved = sys.stdout
    sys.stdout = buf = io.StringIO()
    try:
        call(('E-verbose', 0), asig.response_series, ([0.1, 0.2],), post=sig_state(asig))
    finally:
        sys.stdout = saved
    records.append({'id': ('E-verbose', 'stdout'), 'outcome': ('ok', buf.getvalue())})

    with open(out_path, 'wb') as f:
        pickle.dump(records, f, protocol=4)


# ----------------------------------------------------------------------------------------------------------------------
# comparison
# ----------------------------------------------------------------------------------------------------------------------

def describe_nd(t):
    import numpy as np
    if isinstance(t, tuple) and t and t[0] == 'nd':
        try:
            return np.frombuffer(t[-1], dtype=np.dtype(t[1])).reshape(t[2])
        except Exception:  # noqa
            return None
    return None


def close_enough(x, y):
    """Structural comparison; arrays bit-for-bit unless RTOL > 0."""
    import numpy as np
    if x == y:
        return True
    if RTOL <= 0:
        return False
    if type(x) != type(y):
        return False
    if isinstance(x, tuple) and x and x[0] == 'nd' and isinstance(y, tuple) and y and y[0] == 'nd':
        if x[:-1] != y[:-1]:
            return False
        a, b = describe_nd(x), describe_nd(y)
        if a is None or b is None or a.dtype.kind != 'f':
            return False
        fin = np.isfinite(a)
        if not np.array_equal(fin, np.isfinite(b)):
            return False
        if not np.array_equal(a[~fin], b[~fin], equal_nan=True):
            return False
        scale = max(np.max(np.abs(a[fin]), initial=0.0), np.max(np.abs(b[fin]), initial=0.0))
        return bool(np.all(np.abs(a[fin] - b[fin]) <= RTOL * scale))
    if isinstance(x, (tuple, list)) and len(x) == len(y):
        return all(close_enough(p, q) for p, q in zip(x, y))
    if isinstance(x, dict) and x.keys() == y.keys():
        return all(close_enough(x[k], y[k]) for k in x)
    return False


def show_diff(x, y, indent='    '):
    import numpy as np
    a, b = describe_nd(x), describe_nd(y)
    if a is not None and b is not None:
        print(indent + 'orig : dtype=%s shape=%s flags=%s' % (x[1], x[2], x[3:6]))
        print(indent + 'twin : dtype=%s shape=%s flags=%s' % (y[1], y[2], y[3:6]))
        if a.shape == b.shape and a.dtype == b.dtype and a.size:
            with np.errstate(all='ignore'):
                d = np.abs(a.astype(float) - b.astype(float))
                print(indent + 'max abs diff %r, scale %r' % (np.nanmax(d), np.nanmax(np.abs(a.astype(float)))))
        return
    if isinstance(x, (tuple, list)) and isinstance(y, (tuple, list)) and len(x) == len(y):
        for i, (p, q) in enumerate(zip(x, y)):
            if p != q:
                print(indent + 'component %d differs' % i)
                show_diff(p, q, indent + '  ')
        return
    if isinstance(x, dict) and isinstance(y, dict):
        for k in x:
            if x.get(k) != y.get(k):
                print(indent + 'key %r differs' % (k,))
                show_diff(x.get(k), y.get(k), indent + '  ')
        return
    sx, sy = repr(x), repr(y)
    print(indent + 'orig: ' + sx[:300])
    print(indent + 'twin: ' + sy[:300])


def main():
    cwd = os.getcwd()
    if not os.path.isdir(os.path.join(cwd, 'eqsig')):
        print('run with cwd = the worktree')
        return 2
    tmp = tempfile.mkdtemp(prefix='eqsig_equiv%d_' % TWIN)
    try:
        orig_root = os.path.join(tmp, 'orig')
        os.makedirs(orig_root)
        data = subprocess.check_output(['git', 'archive', 'HEAD', 'eqsig'], cwd=cwd)
        with tarfile.open(fileobj=io.BytesIO(data)) as tf:
            tf.extractall(orig_root)
        # the edited version is copied too, so that both runs see an identical environment (no stray files, same depth)
        edit_root = os.path.join(tmp, 'edit')
        os.makedirs(edit_root)
        shutil.copytree(os.path.join(cwd, 'eqsig'), os.path.join(edit_root, 'eqsig'),
                        ignore=shutil.ignore_patterns('__pycache__', '*.pyc'))
        outs = {}
        procs = {}
        env = dict(os.environ)
        env.pop('PYTHONPATH', None)
        env['PYTHONDONTWRITEBYTECODE'] = '1'
        env['PYTHONHASHSEED'] = '0'
        for name, root in (('orig', orig_root), ('edit', edit_root)):
            outs[name] = os.path.join(tmp, name + '.pkl')
            procs[name] = subprocess.Popen([sys.executable, os.path.abspath(__file__), '--worker', root, outs[name]],
                                           cwd=tmp, env=env)
        bad = False
        for name, p in procs.items():
            if p.wait() != 0:
                print('worker %s failed with status %s' % (name, p.returncode))
                bad = True
        if bad:
            return 3
        with open(outs['orig'], 'rb') as f:
            ro = pickle.load(f)
        with open(outs['edit'], 'rb') as f:
            re_ = pickle.load(f)
        n_bad = 0
        if len(ro) != len(re_):
            print('different number of records: %d vs %d' % (len(ro), len(re_)))
            n_bad += 1
        n_exc = 0
        n_ok = 0
        for x, y in zip(ro, re_):
            if x['id'] != y['id']:
                print('case sequence diverged: %r vs %r' % (x['id'], y['id']))
                n_bad += 1
                break
            if x['outcome'][0] == 'exc':
                n_exc += 1
            else:
                n_ok += 1
            if not close_enough(x, y):
                n_bad += 1
                if n_bad <= 15:
                    print('MISMATCH in case %r' % (x['id'],))
                    for key in sorted(set(x) | set(y)):
                        if x.get(key) != y.get(key):
                            print('  field %r:' % key)
                            show_diff(x.get(key), y.get(key))
        groups = {}
        for x in ro:
            g = groups.setdefault(str(x['id'][0]), [0, 0])
            g[0 if x['outcome'][0] == 'ok' else 1] += 1
        print('cases per group (returned/raised): ' + ', '.join('%s %d/%d' % (k, v[0], v[1]) for k, v in sorted(groups.items())))
        print('twin %d: %d cases compared (%d returned, %d raised), %d mismatches'
              % (TWIN, min(len(ro), len(re_)), n_ok, n_exc, n_bad))
        return 0 if n_bad == 0 else 1
    finally:
        shutil.rmtree(tmp, ignore_errors=True)


if __name__ == '__main__':
    if len(sys.argv) >= 4 and sys.argv[1] == '--worker':
        worker(sys.argv[2], sys.argv[3])
        sys.exit(0)
    sys.exit(main())

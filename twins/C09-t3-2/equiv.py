"""
Equivalence check: ORIGINAL eqsig (git HEAD) vs EDITED eqsig (working tree with the twin applied).

Run with cwd = the worktree:   /venv/bin/python out/equivK.py
The same set of deterministic cases is evaluated in two subprocesses (one importing the package extracted
from git HEAD, one importing the working tree); every result, raised exception, input array and the full
object state after each call are compared bit-for-bit (dtype, shape, raw bytes). Exit 0 iff all identical.
"""
import os
import pickle
import subprocess
import sys
import tempfile

FOCUS = "_raw_calc_arias_intensity / calc_arias_intensity / calc_cav / calc_isv"  # the function this twin edits; all seven observed measures are compared anyway


# --------------------------------------------------------------------------------------------------------
# worker
# --------------------------------------------------------------------------------------------------------
def enc(obj):
    """Bit-exact, picklable encoding of a result"""
    import numpy as np
    if isinstance(obj, np.ndarray):
        return ('ndarray', type(obj).__name__, str(obj.dtype), obj.shape, obj.tobytes())
    if isinstance(obj, np.generic):
        return ('npscalar', type(obj).__name__, obj.tobytes())
    if isinstance(obj, (list, tuple)):
        return (type(obj).__name__, tuple(enc(o) for o in obj))
    if isinstance(obj, dict):
        return ('dict', tuple((repr(k), enc(v)) for k, v in sorted(obj.items(), key=lambda kv: repr(kv[0]))))
    if isinstance(obj, float):
        import struct
        return ('float', struct.pack('d', obj))
    return (type(obj).__name__, repr(obj))


def state(sig):
    return enc(dict(sig.__dict__))


def make_cases():
    """Returns a list of (name, values, dt) - values may be arrays of several dtypes or lists"""
    import numpy as np
    rng = np.random.RandomState(20240926)
    g = 9.81
    cases = []
    dts = [0.01, 0.005, 0.02, 0.025, 0.1, 0.5, 1.0, 0.004, 0.008, 0.0125, 0.05, 0.2, 0.25, 0.001, 0.002]
    # random records of 2 s .. 12 s with amplitudes around the 0.025 g gate
    for dt in dts:
        pps = int(round(1 / dt))
        for k in range(7):
            n_sec = rng.randint(2, 13)
            extra = rng.randint(0, pps) if k % 2 else 0
            n = n_sec * pps + 1 + extra
            if k == 6:
                n = 2 * pps + 1  # shortest admissible record
            amp = [0.01 * g, 0.03 * g, 0.2 * g, 1.0, 3.0, 0.024 * g, 0.026 * g][k]
            env = np.sin(np.linspace(0, np.pi, n)) ** 2 if k % 3 else np.ones(n)
            vals = amp * env * rng.randn(n)
            cases.append(("rand dt=%r k=%d n=%d" % (dt, k, n), vals, dt))
    # quiet / strong alternating seconds so that only some windows qualify
    for dt in [0.01, 0.02, 0.005, 0.1]:
        pps = int(round(1 / dt))
        n = 8 * pps + 1
        vals = 0.001 * g * rng.randn(n)
        for sec in (1, 2, 5):
            vals[sec * pps + 3: (sec + 1) * pps - 3] += 0.1 * g * rng.randn(pps - 6)
        cases.append(("alternating dt=%r" % dt, vals, dt))
        cases.append(("alternating reversed sign dt=%r" % dt, -vals, dt))
        cases.append(("alternating scaled dt=%r" % dt, 2.5 * vals, dt))
        cases.append(("alternating zero padded dt=%r" % dt, np.concatenate([vals[:-1], np.zeros(3 * pps + 1)]), dt))
        cases.append(("alternating as list dt=%r" % dt, list(vals), dt))
        cases.append(("alternating float32 dt=%r" % dt, vals.astype(np.float32), dt))
        cases.append(("alternating float32 np.float64 dt dt=%r" % dt, vals.astype(np.float32), np.float64(dt)))
        cases.append(("alternating np.float32 dt dt=%r" % dt, vals, np.float32(dt)))
        cases.append(("alternating float16 dt=%r" % dt, vals.astype(np.float16), dt))
    # peaks exactly at / next to the gate, peaks on window boundaries
    for dt in [0.01, 0.02, 0.1]:
        pps = int(round(1 / dt))
        n = 5 * pps + 1
        for level in [0.025 * g, np.nextafter(0.025 * g, 0), np.nextafter(0.025 * g, 1), 0.025, 0.2452, 0.2453]:
            vals = np.zeros(n)
            vals[pps] = level  # on the boundary between window 0 and 1
            vals[3 * pps + 2] = -level
            cases.append(("gate level=%r dt=%r" % (level, dt), vals, dt))
    # integer dtypes, zeros, constants, tiny and huge values, signed zeros
    for dt in [0.01, 0.5, 1.0, 0.1, 1, 2, 0.3, 0.007, 1.5]:
        n = int(4 / dt) + 2 if dt <= 1 else 9
        cases.append(("int64 dt=%r" % dt, rng.randint(-3, 4, size=n), dt))
        cases.append(("int32 dt=%r" % dt, rng.randint(-3, 4, size=n).astype(np.int32), dt))
        cases.append(("int list dt=%r" % dt, [int(v) for v in rng.randint(-2, 3, size=n)], dt))
        cases.append(("zeros dt=%r" % dt, np.zeros(n), dt))
        cases.append(("neg zeros dt=%r" % dt, -np.zeros(n), dt))
        cases.append(("ones dt=%r" % dt, np.ones(n), dt))
        cases.append(("tiny dt=%r" % dt, 1e-310 * rng.randn(n), dt))
        cases.append(("huge dt=%r" % dt, 1e150 * rng.randn(n), dt))
        cases.append(("bool dt=%r" % dt, rng.randint(0, 2, size=n).astype(bool), dt))
    # records that are too short / degenerate (outside the domain: both sides must fail the same way)
    for dt in [0.01, 0.1, 1.0]:
        for n in [0, 1, 2, 3, int(1 / dt), int(1 / dt) + 1, int(1 / dt) + 2, 2 * int(1 / dt)]:
            cases.append(("short n=%d dt=%r" % (n, dt), rng.randn(n), dt))
    # non-finite samples
    vals = rng.randn(401)
    vals[150] = np.nan
    cases.append(("nan sample", vals, 0.01))
    vals = rng.randn(401)
    vals[250] = np.inf
    cases.append(("inf sample", vals, 0.01))
    cases.append(("zero dt", rng.randn(50), 0.0))
    cases.append(("negative dt", rng.randn(301), -0.01))
    return cases


FUNCS = ["calc_arias_intensity", "calc_cav", "calc_cav_dp", "calc_isv", "calc_integral_of_abs_velocity",
         "calc_integral_of_abs_acceleration", "calc_unit_kinetic_energy", "calc_cumulative_abs_displacement"]


def call(fn, *args, **kwargs):
    import warnings
    with warnings.catch_warnings(record=True) as wlist:
        warnings.simplefilter("always")
        try:
            res = ('ok', enc(fn(*args, **kwargs)))
        except Exception as e:  # noqa
            res = ('raised', type(e).__name__, str(e))
    return res, tuple(sorted((w.category.__name__, str(w.message)) for w in wlist))


def worker(path, outfile):
    sys.path.insert(0, path)
    import numpy as np
    import eqsig
    from eqsig import im
    assert os.path.abspath(eqsig.__file__).startswith(os.path.abspath(path) + os.sep), (eqsig.__file__, path)
    out = []

    def rec(tag, value):
        out.append((tag, value))

    for name, values, dt in make_cases():
        before = enc(values)
        # (a) each function on a fresh object (cold caches)
        for fname in FUNCS:
            try:
                sig = eqsig.AccSignal(values, dt)
            except Exception as e:  # noqa
                rec((name, fname, 'ctor'), (type(e).__name__, str(e)))
                continue
            res = call(getattr(im, fname), sig)
            rec((name, fname, 'cold'), res)
            rec((name, fname, 'cold-state'), state(sig))
            # no aliasing of the result with the object's arrays
            try:
                import warnings
                warnings.simplefilter("ignore")
                r = getattr(im, fname)(sig)
                alias = [bool(np.shares_memory(r, sig.__dict__[k])) for k in sorted(sig.__dict__)
                         if isinstance(sig.__dict__[k], np.ndarray)]
                r[...] = 7  # writing into the result must not change the object
                rec((name, fname, 'alias'), (alias, state(sig), enc(getattr(im, fname)(sig))))
            except Exception as e:  # noqa
                rec((name, fname, 'alias'), (type(e).__name__, str(e)))
        rec((name, 'input untouched'), enc(values) == before)
        # (b) a history on one object: every function twice, in two orders, then reset_values and again
        try:
            sig = eqsig.AccSignal(values, dt)
        except Exception as e:  # noqa
            continue
        for rnd, order in enumerate([FUNCS, FUNCS[::-1]]):
            for fname in order:
                rec((name, fname, 'warm', rnd), call(getattr(im, fname), sig))
                rec((name, fname, 'warm-state', rnd), state(sig))
        try:
            new_vals = np.asarray(values)[::-1] * 2
            sig.reset_values(new_vals)
        except Exception as e:  # noqa
            rec((name, 'reset'), (type(e).__name__, str(e)))
        else:
            for fname in FUNCS:
                rec((name, fname, 'after-reset'), call(getattr(im, fname), sig))
                rec((name, fname, 'after-reset-state'), state(sig))
        # (c) raw helper and users of it
        try:
            arr = np.asarray(values)
            rec((name, '_raw'), call(im._raw_calc_arias_intensity, arr, dt))
            rec((name, '_raw untouched'), enc(arr) == enc(np.asarray(values)))
            rec((name, '_raw list'), call(im._raw_calc_arias_intensity, list(arr), dt))
            rec((name, '_raw 2d'), call(im._raw_calc_arias_intensity, np.vstack([arr, 2 * arr]), dt))
            rec((name, '_raw kw'), call(im._raw_calc_arias_intensity, acc=arr, dt=dt))
        except Exception as e:  # noqa
            rec((name, '_raw'), (type(e).__name__, str(e)))
    # (d) a few heavier users of the same functions
    rng = np.random.RandomState(5)
    for dt in [0.01, 0.02]:
        vals = rng.randn(600) * np.hanning(600)
        sig = eqsig.AccSignal(vals, dt)
        rec(('crs', dt), call(im.cumulative_response_spectra, sig, im.calc_arias_intensity, periods=[0.2, 1.0], xi=0.05))
        rec(('crs-state', dt), state(sig))
        rec(('gen_cum', dt), call(sig.generate_cumulative_stats))
        rec(('gen_cum-state', dt), state(sig))
        for meth in ['remove_poly', 'correct_me']:
            getattr(sig, meth)()
            for fname in FUNCS:
                rec((meth, dt, fname), call(getattr(im, fname), sig))
            rec((meth, dt, 'state'), state(sig))
    with open(outfile, 'wb') as f:
        pickle.dump(out, f)


# --------------------------------------------------------------------------------------------------------
# driver
# --------------------------------------------------------------------------------------------------------
def main():
    wt = os.getcwd()
    assert os.path.isdir(os.path.join(wt, 'eqsig')), "run with cwd = the worktree"
    tmp = tempfile.mkdtemp(prefix='equiv_C09_', dir='/tmp')
    subprocess.check_call("git archive HEAD eqsig | tar -x -C %s" % tmp, shell=True, cwd=wt)
    diff = subprocess.run("diff -rq -x __pycache__ %s eqsig" % os.path.join(tmp, 'eqsig'), shell=True, cwd=wt,
                          stdout=subprocess.PIPE).stdout.decode()
    print("files differing from HEAD:\n" + (diff or "  (none - is the twin applied?)\n"))
    outs = {}
    for tag, path in [('orig', tmp), ('edit', wt)]:
        outfile = os.path.join(tmp, tag + '.pkl')
        env = dict(os.environ, PYTHONDONTWRITEBYTECODE='1')
        subprocess.check_call([sys.executable, os.path.abspath(__file__), '--worker', path, outfile], cwd=path, env=env)
        with open(outfile, 'rb') as f:
            outs[tag] = pickle.load(f)
    a, b = outs['orig'], outs['edit']
    assert len(a) == len(b), (len(a), len(b))
    bad = 0
    n_ok_results = 0
    n_raised = 0
    for (ta, va), (tb, vb) in zip(a, b):
        assert ta == tb, (ta, tb)
        if va != vb:
            bad += 1
            if bad <= 20:
                print("MISMATCH at", ta)
                print("   orig:", repr(va)[:300])
                print("   edit:", repr(vb)[:300])
        if isinstance(va, tuple) and va and isinstance(va[0], tuple) and va[0] and va[0][0] == 'ok':
            n_ok_results += 1
        if isinstance(va, tuple) and va and isinstance(va[0], tuple) and va[0] and va[0][0] == 'raised':
            n_raised += 1
    print("%d records compared (%d successful calls, %d calls raising the same exception), %d mismatches; focus: %s"
          % (len(a), n_ok_results, n_raised, bad, FOCUS))
    import shutil
    shutil.rmtree(tmp, ignore_errors=True)
    sys.exit(1 if bad else 0)


if __name__ == '__main__':
    if len(sys.argv) >= 2 and sys.argv[1] == '--worker':
        worker(sys.argv[2], sys.argv[3])
    else:
        main()

"""Equivalence program for the C10 twins (significant / bracketed durations).

Run with the edit applied and cwd = the worktree:
    PYTHONPATH=$PWD /venv/bin/python out/equivK.py

The original package is taken from `git archive HEAD eqsig` into a temporary
directory.  The same deterministic battery of cases is executed in two
subprocesses (one importing the original, one importing the edited tree) and
the canonicalised outcomes (values bit-for-bit, exception type + message,
warnings, object state, argument mutation) are compared one by one.
Exit status 0 iff everything matches.
"""
import io
import json
import os
import subprocess
import sys
import tarfile
import tempfile


# --------------------------------------------------------------------------
# worker
# --------------------------------------------------------------------------

def canon(v, depth=0):
    import numpy as np
    if depth > 6:
        return "deep"
    if v is None or isinstance(v, (bool, str)):
        return [type(v).__name__, repr(v)]
    if isinstance(v, np.ndarray):
        if v.dtype == object:
            return ["ndarray-obj", list(v.shape), [canon(x, depth + 1) for x in v.ravel().tolist()]]
        return ["ndarray", str(v.dtype), list(v.shape), np.ascontiguousarray(v).tobytes().hex()]
    if isinstance(v, np.generic):
        return ["npscalar", type(v).__name__, np.asarray(v).tobytes().hex()]
    if isinstance(v, float):
        return ["float", v.hex() if v == v else "nan"]
    if isinstance(v, int):
        return ["int", repr(v)]
    if isinstance(v, complex):
        return ["complex", repr(v)]
    if isinstance(v, (tuple, list)):
        return [type(v).__name__, [canon(x, depth + 1) for x in v]]
    if isinstance(v, dict):
        return ["dict", [[repr(k), canon(v[k], depth + 1)] for k in sorted(v, key=repr)]]
    return ["obj", type(v).__name__, repr(v)[:200]]


STATE_ATTRS = ["t_b01", "t_b05", "t_b10", "a_rms01", "a_rms05", "a_rms10", "sd_start", "sd_end", "t_595",
               "arias_intensity", "arias_intensity_series", "cav", "cav_series", "npts", "dt", "values"]


def state_of(obj):
    out = []
    for a in STATE_ATTRS:
        try:
            out.append([a, canon(getattr(obj, a))])
        except AttributeError:
            out.append([a, "<missing>"])
    extra = sorted(k for k in vars(obj) if k.startswith(("t_b", "a_rms", "sd_", "t_5")))
    out.append(["names", extra])
    return out


def worker(pkg_root, out_path):
    sys.path.insert(0, pkg_root)
    import warnings
    import numpy as np
    import eqsig
    import eqsig.im as eim
    from eqsig.single import AccSignal, Signal
    assert os.path.realpath(eqsig.__file__).startswith(os.path.realpath(pkg_root)), eqsig.__file__

    results = []

    def run(tag, fn, *args, **kwargs):
        """Executes fn, records the outcome and warnings."""
        with warnings.catch_warnings(record=True) as wlist:
            warnings.simplefilter("always")
            try:
                res = ["ok", canon(fn(*args, **kwargs))]
            except Exception as e:  # noqa
                res = ["exc", type(e).__name__, str(e)]
        wl = [[w.category.__name__, str(w.message)] for w in wlist]
        results.append([tag, res, wl])

    rng = np.random.RandomState(20240610)

    # ---------------- records ------------------------------------------
    def make_record(kind, n):
        if kind == "gauss":
            return rng.randn(n)
        if kind == "quake":
            t = np.arange(n) / max(n, 1)
            return rng.randn(n) * np.exp(-((t - 0.4) / 0.15) ** 2) * rng.choice([0.05, 0.5, 2.0, 9.8])
        if kind == "padded":
            a = rng.randn(n)
            k1 = rng.randint(0, n + 1)
            k2 = rng.randint(0, n + 1)
            a[:min(k1, k2)] = 0
            a[max(k1, k2):] = 0
            return a
        if kind == "zeros":
            return np.zeros(n)
        if kind == "const":
            return np.ones(n) * rng.choice([-3.0, 0.2, 1.0])
        if kind == "int":
            return rng.randint(-5, 6, size=n)
        if kind == "intsmall":
            return rng.randint(-1, 2, size=n).astype(np.int8)
        if kind == "f32":
            return rng.randn(n).astype(np.float32)
        if kind == "spike":
            a = np.zeros(n)
            if n:
                a[rng.randint(0, n)] = rng.choice([-1.0, 0.3, 5.0])
            return a
        if kind == "twospike":
            a = np.zeros(n)
            if n:
                a[rng.randint(0, n)] = 1.5
                a[rng.randint(0, n)] = -0.7
            return a
        if kind == "nan":
            a = rng.randn(n)
            if n:
                a[rng.randint(0, n)] = np.nan
            return a
        if kind == "inf":
            a = rng.randn(n)
            if n:
                a[rng.randint(0, n)] = np.inf
            return a
        if kind == "ties":
            return np.round(rng.randn(n) * 2) / 2
        raise ValueError(kind)

    kinds = ["gauss", "quake", "padded", "zeros", "const", "int", "intsmall", "f32", "spike", "twospike", "nan",
             "inf", "ties"]
    lengths = [0, 1, 2, 3, 4, 5, 7, 10, 16, 33, 64, 100, 257]
    dts = [0.01, 0.005, 0.02, 1, 2, 1.0, np.float64(0.025), np.float32(0.01), 0.1, 1e-3, 0.0, -0.01]
    frac_pairs = [(0.05, 0.95), (0.05, 0.75), (0.0, 1.0), (0.01, 0.99), (0.25, 0.5), (0.5, 0.5), (0.9, 0.1),
                  (-0.1, 1.1), (0.2, 0.8), (0.45, 0.55), (1e-9, 1 - 1e-9), (0, 1), (0.3, 2), (np.float32(0.05), 0.95)]
    se_vals = [False, True, 0, 1, None, "yes", "", [], [0], np.bool_(True), np.bool_(False), np.array([1, 2]), np.array([])]

    records = []
    for kind in kinds:
        for n in lengths:
            records.append((kind, n, make_record(kind, n)))
    for _ in range(60):
        kind = kinds[rng.randint(len(kinds))]
        n = int(rng.randint(1, 400))
        records.append((kind, n, make_record(kind, n)))

    # ---------------- A. calc_sig_dur_vals -------------------------------
    ci = 0
    for kind, n, rec in records:
        for rep in range(6):
            dt = dts[(ci + rep) % len(dts)]
            st, en = frac_pairs[(ci * 3 + rep) % len(frac_pairs)]
            se = se_vals[(ci + 2 * rep) % len(se_vals)]
            arg = rec.copy()
            tag = "A:%s:%d:%d" % (kind, n, rep)
            if rep == 0:
                run(tag + ":def", eim.calc_sig_dur_vals, arg, dt)
            elif rep == 1:
                run(tag + ":pos", eim.calc_sig_dur_vals, arg, dt, st, en, se)
            elif rep == 2:
                run(tag + ":se", eim.calc_sig_dur_vals, arg, dt, se=se)
            else:
                run(tag + ":kw", eim.calc_sig_dur_vals, arg, dt, start=st, end=en, se=se)
            results.append([tag + ":argmut", canon(arg), canon(rec)])
            ci += 1
        run("A:dep:%s:%d" % (kind, n), eim.calc_significant_duration, rec.copy(), 0.01)
        run("A:dep2:%s:%d" % (kind, n), eim.calc_significant_duration, rec.copy(), 0.02, 0.1, end=0.6)

    # odd forms of motion
    odd = [("list", [0.1, -0.5, 2.0, 0.3, -0.1]), ("tuple", (0.1, -0.5, 2.0)), ("scalar", 3.0), ("npscalar", np.float64(2.0)),
           ("int", 4), ("none", None), ("str", "abc"), ("2d", rng.randn(4, 5)), ("2dcol", rng.randn(7, 1)),
           ("0d", np.array(1.5)), ("complex", rng.randn(9) + 1j * rng.randn(9)), ("bool", np.array([True, False, True, True])),
           ("obj", np.array([1.0, 2.0, -3.0, 0.5], dtype=object)), ("uint8", np.array([1, 2, 200, 3, 1], dtype=np.uint8)),
           ("bigint", np.array([2 ** 31, -2 ** 31, 5, 2 ** 32], dtype=np.int64)), ("3d", rng.randn(2, 3, 4))]
    for name, m in odd:
        for se in (False, True):
            for st, en in ((0.05, 0.95), (0.0, 1.0), (0.3, 0.6)):
                run("A:odd:%s:%s:%s" % (name, se, st), eim.calc_sig_dur_vals, m, 0.01, st, en, se)
    for dt in (None, "a", [0.1, 0.2], np.array([0.1, 0.2]), 1j, np.array(0.01)):
        run("A:odddt:%r" % (dt,), eim.calc_sig_dur_vals, rng.randn(20), dt)
        run("A:odddt-se:%r" % (dt,), eim.calc_sig_dur_vals, rng.randn(20), dt, se=True)
    for st, en in ((None, 0.9), (0.1, None), ("a", 0.9), (np.array([0.1, 0.2]), 0.9), (0.1, [0.9])):
        run("A:oddfrac:%r" % ((st, en),), eim.calc_sig_dur_vals, rng.randn(20), 0.01, st, en)
    run("A:noargs", eim.calc_sig_dur_vals)
    run("A:badkw", eim.calc_sig_dur_vals, rng.randn(5), 0.1, im=None)

    # ---------------- B. calc_sig_dur -----------------------------------
    def im_cumsq(asig):
        return np.cumsum(asig.values ** 2)

    def im_cumabs(asig):
        return np.cumsum(np.abs(asig.values))

    def im_list(asig):
        return list(np.cumsum(asig.values ** 2))

    def im_2d(asig):
        return np.cumsum(asig.values ** 2).reshape(1, -1)

    def im_2d_col(asig):
        return np.cumsum(asig.values ** 2).reshape(-1, 1)

    def im_0d(asig):
        return np.array(1.0)

    def im_raises(asig):
        raise RuntimeError("boom")

    def im_nonmono(asig):
        return np.asarray(asig.values, dtype=float)

    def im_mutating(asig):
        asig.values[0:1] *= 2
        return np.cumsum(asig.values ** 2)

    ims = [None, eim.calc_cav, im_cumsq, im_cumabs, eim.calc_arias_intensity, im_list, im_2d, im_2d_col, im_0d, im_raises,
           im_nonmono, im_mutating, 5, "x"]
    ci = 0
    for kind, n, rec in records:
        for rep in range(5):
            dt = dts[(ci + rep) % len(dts)]
            st, en = frac_pairs[(ci * 5 + rep) % len(frac_pairs)]
            se = se_vals[(ci + 3 * rep) % len(se_vals)]
            imf = ims[(ci * 2 + rep) % len(ims)] if rep else None
            tag = "B:%s:%d:%d:%s" % (kind, n, rep, getattr(imf, "__name__", repr(imf)))
            try:
                asig = AccSignal(rec.copy(), dt)
            except Exception as e:  # noqa
                results.append([tag + ":ctor", type(e).__name__, str(e)])
                ci += 1
                continue
            if rep == 0:
                run(tag + ":def", eim.calc_sig_dur, asig)
            elif rep == 1:
                run(tag + ":pos", eim.calc_sig_dur, asig, st, en, imf, se)
            else:
                run(tag + ":kw", eim.calc_sig_dur, asig, start=st, end=en, im=imf, se=se)
            results.append([tag + ":state", state_of(asig)])
            ci += 1

    class Duck(object):
        def __init__(self, values, dt, npts=None):
            self.values = values
            self.dt = dt
            if npts is not None:
                self.npts = npts

    class NoDt(object):
        def __init__(self, values):
            self.values = values
            self.npts = len(values)

    for k in range(40):
        v = rng.randn(int(rng.randint(1, 50)))
        d = Duck(v, 0.01, len(v))
        run("B:duck:%d" % k, eim.calc_sig_dur, d, se=bool(k % 2))
        run("B:duck-brac:%d" % k, eim.calc_brac_dur, d, 0.5, bool(k % 2))
        run("B:duck-brac-long:%d" % k, eim.calc_brac_dur, Duck(v, 0.01, len(v) + 3), 0.5, bool(k % 2))
        run("B:duck-brac-short:%d" % k, eim.calc_brac_dur, Duck(v, 0.01, max(len(v) - 3, 0)), 0.5, bool(k % 2))
        run("B:duck-brac-short-hi:%d" % k, eim.calc_brac_dur, Duck(v, 0.01, max(len(v) - 3, 0)), 50., bool(k % 2))
        run("B:duck-nonpts:%d" % k, eim.calc_brac_dur, Duck(v, 0.01), 0.5)
        run("B:nodt:%d" % k, eim.calc_sig_dur, NoDt(v), im=im_cumsq)
        run("B:nodt-empty:%d" % k, eim.calc_sig_dur, NoDt(v * 0), im=im_cumsq)
        run("B:nodt-brac:%d" % k, eim.calc_brac_dur, NoDt(v), 0.5)
        run("B:nodt-brac-hi:%d" % k, eim.calc_brac_dur, NoDt(v), 50.0, True)
        run("B:ducklist:%d" % k, eim.calc_brac_dur, Duck(list(v), 0.01, len(v)), 0.5)
        run("B:duck2d:%d" % k, eim.calc_brac_dur, Duck(rng.randn(3, 4), 0.01, 3), 0.5, bool(k % 2))
        run("B:duck2d-12:%d" % k, eim.calc_brac_dur, Duck(rng.randn(3, 4), 0.01, 12), 0.5, bool(k % 2))
    run("B:none", eim.calc_sig_dur, None)
    run("B:array", eim.calc_sig_dur, rng.randn(10))
    run("B:sig", eim.calc_sig_dur, Signal(rng.randn(50), 0.01))
    run("B:sig-im", eim.calc_sig_dur, Signal(rng.randn(50), 0.01), im=im_cumsq, se=True)

    # ---------------- C. calc_brac_dur ----------------------------------
    ci = 0
    for kind, n, rec in records:
        try:
            asig = AccSignal(rec.copy(), dts[ci % len(dts)])
        except Exception as e:  # noqa
            results.append(["C:ctor:%s:%d" % (kind, n), type(e).__name__, str(e)])
            ci += 1
            continue
        absr = np.abs(rec.astype(float)) if n else np.array([1.0])
        finite = absr[np.isfinite(absr)]
        if not len(finite):
            finite = np.array([1.0])
        ths = [0, 0.0, float(finite.max()), float(finite.max()) * 1.5, float(finite.min()), float(np.median(finite)),
               float(np.sort(finite)[len(finite) // 3]), -1.0, np.nan, np.inf, 1, np.float32(0.3), 0.01 * 9.8,
               float(finite[rng.randint(len(finite))])]
        for j, th in enumerate(ths):
            se = se_vals[(ci + j) % len(se_vals)]
            tag = "C:%s:%d:%d" % (kind, n, j)
            if j % 3 == 0:
                run(tag + ":def", eim.calc_brac_dur, asig, th)
            elif j % 3 == 1:
                run(tag + ":pos", eim.calc_brac_dur, asig, th, se)
            else:
                run(tag + ":kw", eim.calc_brac_dur, asig, threshold=th, se=se)
            run(tag + ":T", eim.calc_brac_dur, asig, th, True)
        run("C:dep:%s:%d" % (kind, n), eim.calc_bracketed_duration, asig, ths[5])
        run("C:arrth:%s:%d" % (kind, n), eim.calc_brac_dur, asig, absr * 0.5 if n else np.array([]))
        run("C:badth:%s:%d" % (kind, n), eim.calc_brac_dur, asig, "x")
        run("C:noneth:%s:%d" % (kind, n), eim.calc_brac_dur, asig, None, True)
        results.append(["C:state:%s:%d" % (kind, n), state_of(asig)])
        ci += 1
    run("C:noargs", eim.calc_brac_dur)
    run("C:onearg", eim.calc_brac_dur, AccSignal(rng.randn(5), 0.1))

    # ---------------- D. deprecated object statistics, histories ---------
    scales = [0.0, 0.05, 0.098, 0.0981, 0.3, 0.49, 0.5, 0.98, 1.0, 3.0, 9.8, 30.0]
    ci = 0
    for kind, n, rec in records:
        for rep in range(3):
            sc = scales[(ci + rep * 5) % len(scales)]
            dt = dts[(ci + rep) % len(dts)]
            tag = "D:%s:%d:%d" % (kind, n, rep)
            try:
                with np.errstate(all="ignore"):
                    vals = rec * sc
                asig = AccSignal(vals, dt)
            except Exception as e:  # noqa
                results.append([tag + ":ctor", type(e).__name__, str(e)])
                ci += 1
                continue
            results.append([tag + ":s0", state_of(asig)])
            run(tag + ":gds", asig.generate_duration_stats)
            results.append([tag + ":s1", state_of(asig)])
            run(tag + ":rms", eim.calc_acc_rms, asig, 0.01 * 9.8)
            if rep == 0:
                run(tag + ":gams", asig.generate_all_motion_stats)
                results.append([tag + ":s2", state_of(asig)])
                run(tag + ":sir", eim.calc_sir, asig)
            elif rep == 1:
                run(tag + ":reset", asig.reset_all_motion_stats)
                results.append([tag + ":s2", state_of(asig)])
                run(tag + ":rv", asig.reset_values, make_record("quake", max(n, 1) + 3) * 9.8)
                results.append([tag + ":s3", state_of(asig)])
                run(tag + ":gds2", asig.generate_duration_stats)
                results.append([tag + ":s4", state_of(asig)])
                run(tag + ":brac", eim.calc_brac_dur, asig, 0.05 * 9.8, True)
                run(tag + ":sd", eim.calc_sig_dur, asig, se=True)
            else:
                run(tag + ":gds-a", asig.generate_duration_stats)
                run(tag + ":rv0", asig.reset_values, np.zeros(4))
                run(tag + ":gds-b", asig.generate_duration_stats)
                results.append([tag + ":s2", state_of(asig)])
                run(tag + ":rv1", asig.reset_values, [0.0, 0.2, 0.0, -0.6, 1.2, 0.0])
                run(tag + ":gds-c", asig.generate_duration_stats)
                results.append([tag + ":s3", state_of(asig)])
            results.append([tag + ":vals", canon(asig.values), canon(vals)])
            ci += 1

    # records sitting exactly on / next to the 0.01g, 0.05g and 0.10g levels
    g_exact = []
    for lev in (0.01, 0.05, 0.1):
        for base in (lev * 9.8, 9.8 * lev, lev * 9.81):
            g_exact += [base, np.nextafter(base, 0), np.nextafter(base, 10), -base]
    g_exact = [v for v in g_exact] + [0.0, 0.0, 0.0]
    for k in range(200):
        n = int(rng.randint(1, 25))
        a = np.array([g_exact[i] for i in rng.randint(0, len(g_exact), size=n)])
        asig = AccSignal(a, dts[k % 3])
        run("D2:%d:gds" % k, asig.generate_duration_stats)
        results.append(["D2:%d:state" % k, state_of(asig)])
        for lev in (0.01, 0.05, 0.1):
            run("D2:%d:bd:%s" % (k, lev), eim.calc_brac_dur, asig, lev * 9.8, True)
            run("D2:%d:rms:%s" % (k, lev), eim.calc_acc_rms, asig, lev * 9.8)

    # floating point errors turned into exceptions: partial state must agree
    for k in range(60):
        n = int(rng.randint(1, 30))
        a = make_record(["spike", "twospike", "quake", "zeros", "padded"][k % 5], n) * scales[k % len(scales)]
        asig = AccSignal(a, dts[k % 4])
        with np.errstate(all="raise"):
            run("D:errstate:%d" % k, asig.generate_duration_stats)
            run("D:errstate-sd:%d" % k, eim.calc_sig_dur, asig, 0.0, 1.0, None, True)
            run("D:errstate-bd:%d" % k, eim.calc_brac_dur, asig, 0.1)
        results.append(["D:errstate-state:%d" % k, state_of(asig)])

    # warnings turned into errors (deprecation warning is raised first)
    for k in range(10):
        asig = AccSignal(rng.randn(20) * 3, 0.01)
        with warnings.catch_warnings():
            warnings.simplefilter("error")
            try:
                asig.generate_duration_stats()
                results.append(["D:werr:%d" % k, "ok"])
            except Exception as e:  # noqa
                results.append(["D:werr:%d" % k, type(e).__name__, str(e)])
        results.append(["D:werr-state:%d" % k, state_of(asig)])

    # ---------------- E. relations in the property, as plain calls -------
    for k in range(300):
        n = int(rng.randint(2, 200))
        a = make_record(["gauss", "quake", "padded", "ties", "int"][k % 5], n)
        dt = [0.01, 0.02, 0.005, 1][k % 4]
        kz = int(rng.randint(0, 10))
        sc = float(rng.choice([0.5, 2.0, -3.0, 10.0]))
        lo, hi = sorted(rng.uniform(0.01, 0.99, size=2).tolist())
        th = float(np.abs(a).max() * rng.uniform(0, 1.1))
        for name, arr in (("base", a), ("scaled", a * sc), ("padded", np.concatenate([np.zeros(kz, dtype=a.dtype), a]))):
            asig = AccSignal(arr.copy(), dt)
            run("E:%d:%s:sdv" % (k, name), eim.calc_sig_dur_vals, arr.copy(), dt, lo, hi, True)
            run("E:%d:%s:sdv-wide" % (k, name), eim.calc_sig_dur_vals, arr.copy(), dt, lo / 2, (1 + hi) / 2, False)
            run("E:%d:%s:sd" % (k, name), eim.calc_sig_dur, asig, lo, hi, None, True)
            run("E:%d:%s:sd-cav" % (k, name), eim.calc_sig_dur, asig, lo, hi, eim.calc_cav, False)
            run("E:%d:%s:bd" % (k, name), eim.calc_brac_dur, asig, th * (abs(sc) if name == "scaled" else 1), True)
            run("E:%d:%s:bd2" % (k, name), eim.calc_brac_dur, asig, th * 0.5)
            run("E:%d:%s:gds" % (k, name), asig.generate_duration_stats)
            results.append(["E:%d:%s:state" % (k, name), state_of(asig)])

    # ---------------- F. module surface ---------------------------------
    import inspect
    for fn in (eim.calc_sig_dur_vals, eim.calc_sig_dur, eim.calc_brac_dur, eim.calc_significant_duration,
               eim.calc_bracketed_duration, AccSignal.generate_duration_stats):
        results.append(["F:sig:%s" % fn.__name__, str(inspect.signature(fn)), fn.__doc__])
    results.append(["F:public-im", sorted(n for n in dir(eim) if not n.startswith("_"))])
    results.append(["F:public-acc", sorted(n for n in dir(AccSignal) if not n.startswith("_"))])

    with open(out_path, "w") as f:
        json.dump(results, f)


# --------------------------------------------------------------------------
# driver
# --------------------------------------------------------------------------

def main():
    cwd = os.getcwd()
    here = os.path.abspath(__file__)
    with tempfile.TemporaryDirectory() as tmp:
        orig_root = os.path.join(tmp, "orig")
        os.makedirs(orig_root)
        blob = subprocess.check_output(["git", "archive", "HEAD", "eqsig"], cwd=cwd)
        with tarfile.open(fileobj=io.BytesIO(blob)) as tf:
            tf.extractall(orig_root)
        outs = []
        procs = []
        for name, root in (("orig", orig_root), ("edit", cwd)):
            out = os.path.join(tmp, name + ".json")
            env = dict(os.environ)
            env["PYTHONPATH"] = root
            env["PYTHONHASHSEED"] = "0"
            env["PYTHONDONTWRITEBYTECODE"] = "1"
            procs.append(subprocess.Popen([sys.executable, here, "--worker", root, out], cwd=tmp, env=env))
            outs.append(out)
        for p in procs:
            if p.wait() != 0:
                print("worker failed")
                return 2
        with open(outs[0]) as f:
            r_orig = json.load(f)
        with open(outs[1]) as f:
            r_edit = json.load(f)
    n_bad = 0
    if len(r_orig) != len(r_edit):
        print("different number of results: %d vs %d" % (len(r_orig), len(r_edit)))
        n_bad += 1
    for a, b in zip(r_orig, r_edit):
        if a != b:
            n_bad += 1
            if n_bad <= 15:
                print("MISMATCH %s\n   orig: %s\n   edit: %s" % (a[0], json.dumps(a[1:])[:400], json.dumps(b[1:])[:400]))
    n_exc = sum(1 for r in r_orig if len(r) > 1 and isinstance(r[1], list) and r[1] and r[1][0] == "exc")
    n_ok = sum(1 for r in r_orig if len(r) > 1 and isinstance(r[1], list) and r[1] and r[1][0] == "ok")
    print("%d records compared (%d calls returned, %d calls raised); mismatches: %d" % (len(r_orig), n_ok, n_exc, n_bad))
    return 0 if n_bad == 0 else 1


if __name__ == "__main__":
    if len(sys.argv) > 1 and sys.argv[1] == "--worker":
        worker(sys.argv[2], sys.argv[3])
        sys.exit(0)
    sys.exit(main())

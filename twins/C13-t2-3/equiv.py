"""
Equivalence check for twin3 (C13): calc_cyc_amp_array_w_power_law evaluates the power-law increments at the peaks
only and scatters them into a preallocated (len(values), n_b) zero matrix before the cumulative sum, instead of
scattering the peaks into a zero series and raising the whole series to the power.

Run with twin3 applied, cwd = the worktree:   /venv/bin/python out/equiv3.py

The ORIGINAL package is taken from git (git archive HEAD eqsig) into a temporary directory under /tmp.
Both versions are executed in separate subprocesses (the package uses absolute `import eqsig`, so the two
copies cannot live in one interpreter) on the same deterministic corpus of inputs; every outcome (returned
value incl. dtype/shape/bytes, exception type+message, state of the arguments after the call) is compared
bit-for-bit.  Exit status 0 iff everything matches.
"""
import os
import pickle
import subprocess
import sys
import tempfile

TWIN = 3
HERE = os.getcwd()


# --------------------------------------------------------------------------------------------------------------
# worker: runs inside a subprocess with sys.path[0] = root of the package copy to be exercised
# --------------------------------------------------------------------------------------------------------------

def norm(x):
    import numpy as np
    if isinstance(x, np.ndarray):
        return ('nd', x.dtype.str, x.shape, x.tobytes())
    if isinstance(x, np.generic):
        return ('ng', x.dtype.str, x.tobytes())
    if isinstance(x, (list, tuple)):
        return (type(x).__name__, [norm(v) for v in x])
    return ('py', type(x).__name__, repr(x))


def series_corpus():
    """Series from the property's quantifier: real, integer, plateaus, offsets, short, lists, edge cases"""
    import numpy as np
    rng = np.random.RandomState(1313)
    out = []

    def add(name, v):
        out.append((name, v))

    # hand-made edge cases
    add('doc', np.array([0, 2, 1, 2, 0, 1, 0, -1, 0, 1, 0]))
    add('doc_f', np.array([0, 2, 1, 2, 0.3, 1, 0.3, -1, 0.4, 1, 0]))
    add('doc_list', [0, 2, 1, 2, 0, 1, 0, -1, 0, 1, 0])
    add('doc_list_f', [0., 2., 1., 2., 0.3, 1., 0.3, -1., 0.4, 1., 0.])
    add('two_up', np.array([0., 1.]))
    add('two_down', np.array([3., -1.]))
    add('two_int', np.array([5, 2]))
    add('two_list', [1, 4])
    add('three_peak', np.array([0., 1., 0.]))
    add('three_mono', np.array([0., 1., 2.]))
    add('mono_down', np.array([5., 4., 2., -1., -7.]))
    add('lead_plateau', np.array([2., 2., 2., 3., 1., 1., 4.]))
    add('lead_plateau_down', np.array([2., 2., 1., 3., 3., 3., 0.]))
    add('trail_plateau', np.array([0., 1., -1., 2., 2., 2.]))
    add('all_plateaus', np.array([1, 1, 3, 3, 2, 2, 2, 5, 5, 0, 0]))
    add('offset_big', np.array([0., 2., 1., 2., 0.3, 1., 0.3, -1., 0.4, 1., 0.]) + 1.0e6)
    add('offset_neg', np.array([0., 2., 1., 2., 0.3, 1., 0.3, -1., 0.4, 1., 0.]) - 37.5)
    add('zeros_inside', np.array([0., 0., 1., 0., 0., -1., 0., 0., 2., 0.]))
    add('first_largest', np.array([9., 1., -2., 3., -1., 0.5]))
    add('first_largest_neg', np.array([-9., 1., -2., 3., -1., 0.5]))
    add('int32', np.array([0, 3, -2, 5, 5, -7, 1], dtype=np.int32))
    add('int64_offset', np.array([100, 103, 98, 105, 105, 93, 101], dtype=np.int64))
    add('float32', np.array([0, 0.5, -0.25, 0.75, 0.75, -1.5, 0.1], dtype=np.float32))
    add('tiny', np.array([0., 1e-16, -2e-16, 3e-16, -1e-17, 0.]))
    add('huge', np.array([0., 1e150, -2e150, 3e150, -1e149, 0.]))
    add('constant', np.array([1., 1., 1., 1.]))  # outside the domain: exception parity only
    add('constant_list', [2, 2, 2])  # outside the domain: exception parity only
    tri = np.array([0, 1, 0, -1] * 10 + [0], dtype=float)
    add('triangle', tri)
    add('triangle_scaled_int', (3 * tri).astype(int))
    t = np.arange(0, 6.0, 0.01)
    add('sine', np.sin(2 * np.pi * t))
    add('sine_decay', np.sin(2 * np.pi * 1.3 * t + 0.3) * np.exp(-0.4 * t))
    add('sine_offset', 0.7 + np.sin(2 * np.pi * 0.8 * t + 1.0))
    add('sine_two', np.sin(2 * np.pi * t) + 0.45 * np.sin(2 * np.pi * 7.1 * t + 0.2))
    # random ones
    for k in range(40):
        n = int(rng.randint(2, 400))
        add('randn_%i' % k, rng.randn(n))
    for k in range(25):
        n = int(rng.randint(2, 300))
        add('walk_%i' % k, np.cumsum(rng.randn(n)) + rng.uniform(-5, 5))
    for k in range(25):
        n = int(rng.randint(3, 200))
        v = rng.randint(-4, 5, size=n)
        if np.all(v == v[0]):
            v[-1] += 1
        add('randint_%i' % k, v)  # many plateaus
    for k in range(15):
        n = int(rng.randint(3, 120))
        v = np.repeat(rng.randn(n), rng.randint(1, 4, size=n))
        add('plateau_f_%i' % k, v + rng.uniform(-3, 3))
    for k in range(10):
        n = int(rng.randint(2, 60))
        add('list_f_%i' % k, list(rng.randn(n)))
    for k in range(10):
        n = int(rng.randint(3, 60))
        v = rng.randint(-9, 10, size=n)
        if np.all(v == v[0]):
            v[-1] += 1
        add('list_i_%i' % k, [int(x) for x in v])
    return out


def copy_arg(v):
    import copy
    return copy.deepcopy(v)


def call(fn, *args, **kwargs):
    """Returns (outcome, state of arguments after the call)"""
    args = [copy_arg(a) for a in args]
    kwargs = dict((k, copy_arg(v)) for k, v in kwargs.items())
    try:
        res = ('ok', norm(fn(*args, **kwargs)))
    except Exception as e:  # noqa
        res = ('exc', type(e).__name__, str(e))
    return res, [norm(a) for a in args], sorted((k, norm(v)) for k, v in kwargs.items())


def worker(root, outfile):
    import warnings
    warnings.simplefilter('ignore')
    sys.path.insert(0, root)
    import numpy as np
    import eqsig
    assert os.path.realpath(eqsig.__file__).startswith(os.path.realpath(root) + os.sep), (eqsig.__file__, root)
    import eqsig.fns.peaks_and_crossings as pc
    from eqsig import im
    np.seterr(all='ignore')

    results = []
    corpus = series_corpus()
    b_opts = [0.051, 0.1, 0.2, 0.34, 0.5, 0.75, 1, 1.0, np.float64(0.3),
              np.array([0.34]), np.array([0.1, 0.3, 1.0]), np.array([0.051, 0.2, 0.5, 0.9, 1.0])]
    cut_offs = [0.0, 0.01, 0.05, 0.1]
    a_refs = [1.0, 0.65, 3, 1.0e-3]
    n_cycs = [15, 1, 0.5, 7.3]

    for name, v in corpus:
        # --- peak-only series (public observation points)
        results.append((name, 'delta', call(pc.determine_peaks_only_delta_series, v)))
        results.append((name, 'pseudo', call(pc.determine_pseudo_cyclic_peak_only_series, v)))
        # --- the helpers for cleaned data: feed them cleaned data (array and list form) and the raw series
        try:
            vv = np.array(v)
            vv = vv - vv[0]
            cleaned, inds = pc.clean_out_non_changing(vv)
            cleaned = cleaned * np.sign(cleaned[1])
        except Exception:  # constant series
            cleaned = None
        if cleaned is not None:
            results.append((name, 'delta4c', call(pc.determine_peak_only_delta_series_4_cleaned_data, cleaned)))
            results.append((name, 'pseudo4c', call(pc._determine_peak_only_series_4_cleaned_data, cleaned)))
            results.append((name, 'delta4c_list',
                            call(pc.determine_peak_only_delta_series_4_cleaned_data, cleaned.tolist())))
            results.append((name, 'pseudo4c_list',
                            call(pc._determine_peak_only_series_4_cleaned_data, cleaned.tolist())))
        results.append((name, 'delta4c_raw', call(pc.determine_peak_only_delta_series_4_cleaned_data, v)))
        results.append((name, 'pseudo4c_raw', call(pc._determine_peak_only_series_4_cleaned_data, v)))

    # --- power-law measures
    k = 0
    for i, (name, v) in enumerate(corpus):
        for j, b in enumerate(b_opts):
            k += 1
            cut_off = cut_offs[k % len(cut_offs)]
            a_ref = a_refs[(k // 2) % len(a_refs)]
            n_cyc = n_cycs[(k // 3) % len(n_cycs)]
            tag = '%s|b%i' % (name, j)
            results.append((tag, 'n_cyc', call(im.calc_n_cyc_array_w_power_law, v, a_ref, b, cut_off=cut_off)))
            results.append((tag, 'n_cyc_pos', call(im.calc_n_cyc_array_w_power_law, v, a_ref, b, cut_off)))
            results.append((tag, 'amp', call(im.calc_cyc_amp_array_w_power_law, v, n_cyc, b)))
            results.append((tag, 'amp_kw', call(im.calc_cyc_amp_array_w_power_law, v, n_cyc=n_cyc, b=b)))
            # second component: same record (property), reversed-sign record and another record of the same length
            other = corpus[(i * 7 + j) % len(corpus)][1]
            if len(other) >= len(v):
                w = other[:len(v)]
            else:
                w = v[::-1]
            results.append((tag, 'gm_same', call(im.calc_cyc_amp_gm_arrays_w_power_law, v, v, n_cyc, b)))
            results.append((tag, 'gm_other', call(im.calc_cyc_amp_gm_arrays_w_power_law, v, w, n_cyc, b)))
            results.append((tag, 'comb_same', call(im.calc_cyc_amp_combined_arrays_w_power_law, v, v, n_cyc, b)))
            results.append((tag, 'comb_other', call(im.calc_cyc_amp_combined_arrays_w_power_law, v, w, n_cyc, b)))
        # default cut_off
        results.append((name, 'n_cyc_default', call(im.calc_n_cyc_array_w_power_law, v, 1.0, 0.34)))
        # inverse relation chain: amplitude computed for N = cycles(a_ref)
        try:
            n_end = im.calc_n_cyc_array_w_power_law(v, 0.8, 0.25, cut_off=0.0)[-1][0]
            results.append((name, 'inverse', call(im.calc_cyc_amp_array_w_power_law, v, n_end, 0.25)))
        except Exception as e:  # noqa
            results.append((name, 'inverse', ('exc', type(e).__name__, str(e))))

    results.extend(extra_cases(eqsig, np))
    with open(outfile, 'wb') as f:
        pickle.dump(results, f)


def extra_cases(eqsig, np):
    """Twin specific: exhaustive sweep of short series through calc_cyc_amp_array_w_power_law and the geometric-mean
    wrapper with every dtype / container form of the record, of n_cyc and of b; underflow / overflow magnitudes"""
    import itertools
    from eqsig import im
    res = []
    b_forms = [0.34, 1, 0.051, np.float64(0.5), np.float32(0.25), np.array([0.2, 0.7]), np.array([0.5]),
               np.array([0.051, 1.0, 0.3], dtype=np.float32)]
    n_forms = [15, 7.3, np.float64(2.5), np.float32(4.0), np.int64(3), 1, 0.5]
    k = 0
    for n in range(2, 6):
        for combo in itertools.product([-2, -1, 0, 1, 2], repeat=n):
            k += 1
            b = b_forms[k % len(b_forms)]
            n_cyc = n_forms[k % len(n_forms)]
            form = k % 6
            if form == 0:
                v = np.array(combo)
            elif form == 1:
                v = list(combo)
            elif form == 2:
                v = np.array(combo, dtype=float) * 0.37 + 0.11
            elif form == 3:
                v = np.array(combo, dtype=np.float32) * np.float32(1.7)
            elif form == 4:
                v = np.array(combo, dtype=np.int32)
            else:
                v = [float(x) * 0.5 for x in combo]
            res.append(('sweep_%i_%s' % (form, combo), 'amp', call(im.calc_cyc_amp_array_w_power_law, v, n_cyc, b)))
            if k % 4 == 0:
                w = v[::-1]
                res.append(('sweep_%i_%s' % (form, combo), 'gm',
                            call(im.calc_cyc_amp_gm_arrays_w_power_law, v, w, n_cyc, b)))
    # extreme magnitudes: the power underflows to subnormals / zero or overflows to inf
    rng = np.random.RandomState(77)
    for c in range(60):
        n = int(rng.randint(2, 50))
        scale = [1e-16, 1e-12, 1e-5, 1e5, 1e20, 1e150][c % 6]
        v = rng.randn(n) * scale
        if c % 3 == 0:
            v += 3 * scale  # offset: few zero crossings
        b = b_forms[c % len(b_forms)]
        n_cyc = n_forms[c % len(n_forms)]
        res.append(('extreme_%i' % c, 'amp', call(im.calc_cyc_amp_array_w_power_law, v, n_cyc, b)))
        res.append(('extreme_%i' % c, 'gm', call(im.calc_cyc_amp_gm_arrays_w_power_law, v, 2 * v, n_cyc, b)))
    # the result is a fresh array: writing into it must not disturb a later call or the record
    for c in range(20):
        v = rng.randn(int(rng.randint(2, 80)))
        b = np.array([0.1, 0.4, 1.0]) if c % 2 else 0.4
        v0 = v.copy()
        try:
            out = im.calc_cyc_amp_array_w_power_law(v, 15, b)
            writeable = out.flags.writeable
            out[...] = -1.0
            out2 = im.calc_cyc_amp_array_w_power_law(v, 15, b)
            res.append(('fresh_%i' % c, 'amp', (norm(out2), norm(v), bool(np.array_equal(v, v0)), writeable)))
        except Exception as e:  # noqa
            res.append(('fresh_%i' % c, 'amp', ('exc', type(e).__name__, str(e))))
    return res


# --------------------------------------------------------------------------------------------------------------
# driver
# --------------------------------------------------------------------------------------------------------------

def run_worker(root, outfile):
    env = dict(os.environ)
    env.pop('PYTHONPATH', None)
    subprocess.check_call([sys.executable, os.path.abspath(__file__), '--worker', root, outfile], cwd=root, env=env)
    with open(outfile, 'rb') as f:
        return pickle.load(f)


def main():
    assert os.path.isdir(os.path.join(HERE, 'eqsig')), 'run with cwd = the worktree'
    tmp = tempfile.mkdtemp(prefix='c13_equiv%i_' % TWIN, dir='/tmp')
    orig_root = os.path.join(tmp, 'orig')
    os.mkdir(orig_root)
    subprocess.check_call('git archive HEAD eqsig | tar -x -C "%s"' % orig_root, shell=True, cwd=HERE)
    # make sure that the edit is really applied (the two trees differ)
    differs = subprocess.call(['diff', '-rq', '-x', '__pycache__', os.path.join(orig_root, 'eqsig'),
                               os.path.join(HERE, 'eqsig')], stdout=subprocess.DEVNULL)
    if differs == 0:
        print('FAIL: worktree is identical to HEAD - apply twin%i.diff first' % TWIN)
        return 2
    r_orig = run_worker(orig_root, os.path.join(tmp, 'orig.pkl'))
    r_edit = run_worker(HERE, os.path.join(tmp, 'edit.pkl'))
    if len(r_orig) != len(r_edit):
        print('FAIL: different number of cases', len(r_orig), len(r_edit))
        return 1
    n_bad = 0
    n_ok_val = 0
    n_exc = 0
    for a, b in zip(r_orig, r_edit):
        assert a[:2] == b[:2]
        if a[2] != b[2]:
            n_bad += 1
            if n_bad <= 10:
                print('MISMATCH', a[0], a[1])
                print('   orig:', repr(a[2])[:400])
                print('   edit:', repr(b[2])[:400])
        else:
            out = a[2][0] if isinstance(a[2], tuple) else None
            if isinstance(out, tuple) and out and out[0] == 'exc':
                n_exc += 1
            else:
                n_ok_val += 1
    print('twin%i: %i cases compared, %i identical values, %i identical exceptions, %i mismatches'
          % (TWIN, len(r_orig), n_ok_val, n_exc, n_bad))
    import shutil
    shutil.rmtree(tmp, ignore_errors=True)
    return 1 if n_bad else 0


if __name__ == '__main__':
    if len(sys.argv) == 4 and sys.argv[1] == '--worker':
        if sys.path and os.path.realpath(sys.path[0]) == os.path.realpath(os.path.dirname(os.path.abspath(__file__))):
            sys.path.pop(0)  # do not let out/ shadow anything
        worker(sys.argv[2], sys.argv[3])
        sys.exit(0)
    sys.exit(main())

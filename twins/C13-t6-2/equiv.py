"""
Equivalence program for twin 2 (property C13: peak-only series / equivalent-cycle measures).

Run with the edit applied and cwd = the worktree:

    cd <worktree> && PYTHONPATH=<worktree> <python> out/equiv2.py

The ORIGINAL package source is obtained with `git archive HEAD eqsig` into a temporary directory.
Original and edited versions are exercised in two separate subprocesses (this same file in --worker mode,
with the respective tree first on sys.path) on an identical, deterministic list of cases; each worker
pickles, for every case, the outcome (returned value with dtype/shape/bytes, or the exception type),
the state of every argument after the call (to detect mutation of arguments) and the set of warnings.
The parent compares the two lists case by case.  Exit status 0 iff everything matches.
"""
import io
import os
import pickle
import subprocess
import sys
import tarfile
import tempfile

TWIN = 2
RTOL = 1.0e-12


# ----------------------------------------------------------------------------------------------------------------
# worker
# ----------------------------------------------------------------------------------------------------------------

def canon(obj):
    """Canonical, picklable, exactly comparable form of a returned value / argument"""
    import numpy as np
    if isinstance(obj, np.ndarray):
        if obj.dtype == object:
            return ('ndarray-object', obj.shape, repr(obj.tolist()))
        if obj.dtype.kind in 'fc' and obj.dtype.itemsize > 8 * (2 if obj.dtype.kind == 'c' else 1):
            # extended precision: the padding bytes are arbitrary, compare the shortest round-trip text instead
            return ('ndarray-ext', obj.dtype.str, obj.shape, tuple(repr(v) for v in obj.ravel().tolist()))
        return ('ndarray', obj.dtype.str, obj.shape, np.ascontiguousarray(obj).tobytes())
    if isinstance(obj, np.generic) and obj.dtype.kind in 'fc' and obj.dtype.itemsize > 8 * (2 if obj.dtype.kind == 'c' else 1):
        return ('npscalar-ext', obj.dtype.str, repr(obj))
    if isinstance(obj, np.generic):
        return ('npscalar', obj.dtype.str, obj.tobytes())
    if isinstance(obj, tuple):
        return ('tuple', tuple(canon(o) for o in obj))
    if isinstance(obj, list):
        return ('list', tuple(canon(o) for o in obj))
    if isinstance(obj, (int, float, bool, str, type(None))):
        return (type(obj).__name__, repr(obj))
    if hasattr(obj, 'values') and hasattr(obj, 'dt'):
        return ('signal', type(obj).__name__, canon(np.asarray(obj.values)), repr(obj.dt), repr(obj.label))
    return ('other', type(obj).__name__, repr(obj))


def series_corpus():
    """Deterministic corpus of (label, series) covering the property's domain and its corners"""
    import numpy as np
    rng = np.random.RandomState(20260928 + 13)
    out = []

    def add(label, s):
        out.append((label, s))

    # --- hand-made corners ---
    hand = [
        [0, 2, 1, 2, 0, 1, 0, -1, 0, 1, 0],
        [0, 2, 1, 2, 0.3, 1, 0.3, -1, 0.4, 1, 0],
        [0, 2, 1, 2, -1, 1, 1, 0.3, -1, 0.2, 1, 0.2],
        [0, 2, 1, 2, -1, 1, 0, 0, 1, 0.3, 0, -1, 0.2, 1, 0.2],
        [1, 2, 1, -1],
        [0, 1, 2, 1, -1],
        [0., 1.],
        [1., 0.],
        [0, 1],
        [3, 3, 3, 4],
        [3, 3, 3, 2],
        [4, 3, 3, 3],
        [5., 5., 7., 7., 7., 2., 2., 9., 9.],
        [-5., -5., -7., -7., -7., -2., -2., -9., -9.],
        [1., 2., 3., 4., 5.],
        [5., 4., 3., 2., 1.],
        [1., 2., 2., 3., 3., 3., 4.],
        [0., 0., 0., 1., 0., 0., 0.],
        [0., 0., 0., -1., 0., 0., 0.],
        [0., 1., 0., 1., 0., 1., 0.],
        [0., -1., 0., -1., 0., -1., 0.],
        [0., 1., -1., 1., -1., 1., -1.],
        [2., 1., -1., 1., -1., 1., -1., 3.],
        [10., 11., 10., 11., 10.],
        [-10., -11., -10., -11., -10.],
        [1.0e-300, 2.0e-300, 1.0e-300, -3.0e-300],
        [1.0e300, -1.0e300, 1.0e300, 0.5e300],
        [1.0e-8, 1.0, 1.0e-8, -1.0, 1.0e-9, 0.5],
        [0.0, -0.0, 1.0, -0.0, 0.0, -1.0, -0.0],
        [-0.0, 1.0, -1.0],
        # constant / degenerate (outside "non-constant" but the outcome must still agree)
        [0.], [1.], [0, 0], [1, 1], [2.5, 2.5, 2.5], [0., 0., 0., 0.], [],
        # non-finite (outside the domain; outcome must still agree)
        [0., float('nan'), 1., -1.], [1., 2., float('nan')], [float('nan'), 1., 2., 1.],
        [0., float('inf'), 1., -1.], [0., 1., -float('inf'), 2.], [float('inf'), 1., 2., 1.],
    ]
    for k, h in enumerate(hand):
        add('hand%d-list' % k, list(h))
        add('hand%d-tuple' % k, tuple(h))
        add('hand%d-arr' % k, np.array(h))
        add('hand%d-f8' % k, np.array(h, dtype=float))
    # integer typed hand-made
    for k, h in enumerate(hand):
        if len(h) and all(float(v) == int(v) for v in h if v == v and abs(v) < 1e18) and all(v == v and abs(v) < 1e18 for v in h):
            for dt in ('i8', 'i4', 'i2', 'i1'):
                add('hand%d-%s' % (k, dt), np.array([int(v) for v in h], dtype=dt))
    # --- random families ---
    lengths = [2, 3, 4, 5, 6, 7, 8, 9, 10, 11, 13, 16, 17, 25, 31, 32, 33, 50, 64, 100, 101, 150, 257, 400]
    for n in lengths:
        for rep in range(3):
            x = rng.standard_normal(n)
            add('normal-n%d-%d' % (n, rep), x)
            add('walk-n%d-%d' % (n, rep), np.cumsum(x))
            add('offset-n%d-%d' % (n, rep), x + rng.uniform(-50, 50))
            # plateaus: repeat samples a random number of times
            reps = rng.randint(1, 4, size=n)
            add('plateau-n%d-%d' % (n, rep), np.repeat(np.round(x, 1), reps))
            # coarse values => many ties / zeros
            add('coarse-n%d-%d' % (n, rep), np.round(x * 2) / 2)
            # integers
            xi = rng.randint(-5, 6, size=n)
            add('int-n%d-%d' % (n, rep), xi.astype('i8'))
            add('int32-n%d-%d' % (n, rep), (xi * 1000 + 7).astype('i4'))
            add('intlist-n%d-%d' % (n, rep), [int(v) for v in xi])
            add('int-offset-n%d-%d' % (n, rep), (xi + 100).astype('i8'))
            add('posint-n%d-%d' % (n, rep), rng.randint(0, 3, size=n).astype('i8'))
        x = rng.standard_normal(n)
        add('float32-n%d' % n, x.astype('f4'))
        add('float16-n%d' % n, x.astype('f2'))
        add('floatlist-n%d' % n, [float(v) for v in x])
        add('tuple-n%d' % n, tuple(float(v) for v in x))
        add('mixedlist-n%d' % n, [int(v) if k % 3 == 0 else float(v) for k, v in enumerate(np.round(x * 3))])
        add('positive-n%d' % n, np.abs(x) + 0.1)
        add('negative-n%d' % n, -np.abs(x) - 0.1)
        add('mono-up-n%d' % n, np.cumsum(np.abs(x)))
        add('mono-down-n%d' % n, -np.cumsum(np.abs(x)))
        add('mono-up-plateau-n%d' % n, np.cumsum(np.round(np.abs(x))))
        t = np.arange(n)
        add('sine-n%d' % n, np.sin(0.37 * t))
        add('sine-off-n%d' % n, 3.0 + np.sin(0.37 * t + 1.0))
        add('tri-n%d' % n, (t % 7 - 3).astype(float))
        add('tri-int-n%d' % n, (t % 7 - 3).astype('i8'))
        add('decay-n%d' % n, np.exp(-0.01 * t) * np.cos(0.9 * t))
        add('noncontig-n%d' % n, rng.standard_normal(2 * n)[::2])
        add('reversed-n%d' % n, rng.standard_normal(n)[::-1])
        lead = np.concatenate((np.zeros(3), x, np.zeros(2)))
        add('padded-n%d' % n, lead)
        add('start-plateau-n%d' % n, np.concatenate((np.full(4, x[0]), x)))
        add('end-plateau-n%d' % n, np.concatenate((x, np.full(4, x[-1]))))
    # out-of-domain typed / shaped things (the outcome, usually an exception, must agree)
    add('bool', np.array([True, False, True, True, False]))
    add('uint8', np.array([1, 5, 2, 7, 3], dtype='u1'))
    add('uint64', np.array([1, 5, 2, 7, 3], dtype='u8'))
    add('2d', np.arange(12.).reshape(3, 4) * np.array([1, -1, 1, -1]))
    add('2d-col', rng.standard_normal((6, 1)))
    add('2d-row', rng.standard_normal((1, 6)))
    add('0d', np.array(3.0))
    add('scalar', 3.0)
    add('none', None)
    add('str', 'abc')
    add('strlist', ['1.5', '2.5', '0.5', '3.5'])
    add('complex', np.array([0, 1 + 1j, -1, 2j]))
    add('bigint', np.array([0, 2 ** 62, -2 ** 62, 2 ** 61, -3], dtype='i8'))
    add('intmin', np.array([0, -2 ** 63, 5, -2 ** 63], dtype='i8'))
    add('int8-wrap', np.array([100, -100, 100, -100, 5], dtype='i1'))
    add('object', np.array([0, 1, -1, 2, 0.5], dtype=object))
    add('longdouble', np.array([0, 1, -1, 2, 0.5], dtype=np.longdouble))
    # long records
    add('long-normal', rng.standard_normal(6000))
    add('long-walk-plateau', np.repeat(np.round(np.cumsum(rng.standard_normal(3000)), 1), 2))
    try:
        rec = np.loadtxt(os.path.join(os.getcwd(), 'tests', 'unit_test_data', 'test_motion_dt0p01.txt'), skiprows=2)
        add('record', rec)
        add('record-x1000-int', np.round(rec * 1000).astype('i8'))
        add('record-short', rec[2000:4000] + 0.05)
    except OSError:
        pass
    return out


def copy_arg(a):
    import copy
    return copy.deepcopy(a)


def worker(out_path):
    import warnings
    import numpy as np
    import eqsig
    import eqsig.im as im
    import eqsig.fns.peaks_and_crossings as pc

    results = []

    def call(label, fn, *args, **kwargs):
        """call fn on private copies of the arguments; record outcome, arguments afterwards and warnings"""
        args = [copy_arg(a) for a in args]
        kwargs = dict((k, copy_arg(v)) for k, v in kwargs.items())
        with warnings.catch_warnings(record=True) as wlist:
            warnings.simplefilter('always')
            try:
                res = fn(*args, **kwargs)
                outcome = ('ok', canon(res))
            except Exception as e:  # noqa
                res = None
                outcome = ('exc', type(e).__name__)
        wset = tuple(sorted(set((w.category.__name__, str(w.message)) for w in wlist
                                if not issubclass(w.category, DeprecationWarning))))
        after = (tuple(canon(a) for a in args), tuple((k, canon(kwargs[k])) for k in sorted(kwargs)))
        results.append((label, outcome, after, wset))
        return res

    corpus = series_corpus()
    rng = np.random.RandomState(777)

    b_scalars = [0.051, 0.1, 0.2, 0.3, 0.34, 0.5, 0.75, 1.0, 1, np.float64(0.3), np.float32(0.25)]
    b_arrays = [np.array([0.3]), np.array([0.1, 0.34, 1.0]), np.linspace(0.06, 1.0, 5), np.array([1, 1]),
                np.array(0.3), [0.3, 0.5], (0.2,), np.array([[0.2, 0.4], [0.6, 0.8]]), np.array([])]
    cut_offs = [0.0, 0.01, 0.025, 0.05, 0.1, 0]
    a_refs = [1.0, 0.65, 1.0e-3, 37.5, 2, np.float64(0.4)]
    n_cycs = [15, 1, 0.5, 7.3, 100, np.float64(12.0)]

    for ci, (label, s) in enumerate(corpus):
        is_long = np.size(s) > 1000 if isinstance(s, np.ndarray) else False
        # ---- peaks_and_crossings: anchored functions and the helpers they use ----
        call(label + '|delta', pc.determine_peaks_only_delta_series, s)
        call(label + '|pseudo', pc.determine_pseudo_cyclic_peak_only_series, s)
        call(label + '|delta4clean-raw', pc.determine_peak_only_delta_series_4_cleaned_data, s)
        call(label + '|peak4clean-raw', pc._determine_peak_only_series_4_cleaned_data, s)
        call(label + '|ind4clean-raw', pc.determine_indices_of_peaks_for_cleaned_array, s)
        call(label + '|ind4clean-dep', pc.determine_indices_of_peaks_for_cleaned, s)
        cl = call(label + '|clean', pc.clean_out_non_changing, s)
        if cl is not None:
            cleaned = cl[0]
            call(label + '|delta4clean', pc.determine_peak_only_delta_series_4_cleaned_data, cleaned)
            call(label + '|peak4clean', pc._determine_peak_only_series_4_cleaned_data, cleaned)
            call(label + '|ind4clean', pc.determine_indices_of_peaks_for_cleaned_array, cleaned)
            call(label + '|delta4clean-list', pc.determine_peak_only_delta_series_4_cleaned_data, cleaned.tolist())
            call(label + '|peak4clean-list', pc._determine_peak_only_series_4_cleaned_data, cleaned.tolist())
        for ptype in ('all', 'min', 'max'):
            call(label + '|peaks-' + ptype, pc.get_peak_array_indices, s, ptype=ptype)
        call(label + '|switched', pc.get_switched_peak_array_indices, s)
        if not is_long:
            call(label + '|switched-tol', pc.get_switched_peak_array_indices, s, tol=0.3)
            call(label + '|zc', pc.get_zero_crossings_array_indices, s)
            call(label + '|zp', pc.get_zero_and_peak_array_indices, s)
            call(label + '|ncyc-all', pc.get_n_cyc_array, s)
            call(label + '|ncyc-sw', pc.get_n_cyc_array, s, opt='switched', start='peak')
        # shifted series (independence of a constant shift relies on the rebasing step)
        if isinstance(s, np.ndarray) and s.ndim == 1 and s.dtype.kind in 'fi' and len(s):
            sh = s + s.dtype.type(3)
            call(label + '|delta-shift', pc.determine_peaks_only_delta_series, sh)
            call(label + '|pseudo-shift', pc.determine_pseudo_cyclic_peak_only_series, sh)
            call(label + '|delta-neg', pc.determine_peaks_only_delta_series, -s)
            call(label + '|pseudo-neg', pc.determine_pseudo_cyclic_peak_only_series, -s)

        # ---- im: equivalent number of cycles / equivalent amplitude ----
        # a rotating choice of configurations for every series plus a denser sweep on every 7th one
        k = ci
        combos = [(a_refs[k % len(a_refs)], b_scalars[k % len(b_scalars)], cut_offs[k % len(cut_offs)],
                   n_cycs[k % len(n_cycs)]),
                  (a_refs[(k + 3) % len(a_refs)], b_scalars[(3 * k + 1) % len(b_scalars)],
                   cut_offs[(k + 2) % len(cut_offs)], n_cycs[(k + 1) % len(n_cycs)])]
        if ci % 7 == 0 and not is_long:
            for b in b_scalars:
                combos.append((a_refs[(k + 1) % len(a_refs)], b, cut_offs[(k + 1) % len(cut_offs)],
                               n_cycs[(k + 2) % len(n_cycs)]))
            for co in cut_offs:
                combos.append((float(rng.uniform(0.05, 3.0)), float(rng.uniform(0.05, 1.0)), co,
                               float(rng.uniform(0.1, 40.0))))
        barr = b_arrays[k % len(b_arrays)]
        for (a_ref, b, co, n_cyc) in combos:
            tag = '|a%r-b%r-c%r-n%r' % (a_ref, b, co, n_cyc)
            nser = call(label + '|n_cyc' + tag, im.calc_n_cyc_array_w_power_law, s, a_ref, b, cut_off=co)
            call(label + '|amp' + tag, im.calc_cyc_amp_array_w_power_law, s, n_cyc, b)
            call(label + '|gm' + tag, im.calc_cyc_amp_gm_arrays_w_power_law, s, s, n_cyc, b)
            call(label + '|comb' + tag, im.calc_cyc_amp_combined_arrays_w_power_law, s, s, n_cyc, b)
            if isinstance(nser, np.ndarray) and nser.dtype.kind == 'f' and nser.size and np.all(np.isfinite(nser[-1])) \
                    and np.all(nser[-1] > 0):
                # inverse relation: a history of two public calls
                call(label + '|inv' + tag, im.calc_cyc_amp_array_w_power_law, s, n_cyc=float(np.ravel(nser[-1])[0]), b=b)
            else:
                results.append((label + '|inv' + tag, ('ok', ('skipped',)), (), ()))
        call(label + '|n_cyc-default', im.calc_n_cyc_array_w_power_law, s, 0.8, 0.3)
        b2d = '2d' if np.ndim(barr) > 1 else ''
        call(label + '|n_cyc-barr' + b2d, im.calc_n_cyc_array_w_power_law, s, 0.7, barr, cut_off=0.02)
        call(label + '|n_cyc-barr' + b2d + '-kw', im.calc_n_cyc_array_w_power_law, values=s, a_ref=1.3, b=barr)
        call(label + '|amp-barr', im.calc_cyc_amp_array_w_power_law, s, 15, barr)
        call(label + '|gm-barr', im.calc_cyc_amp_gm_arrays_w_power_law, s, s, 12.5, barr)
        call(label + '|comb-barr', im.calc_cyc_amp_combined_arrays_w_power_law, s, s, 12.5, barr)
        # two different components (second one: previous series of the corpus; lengths usually differ -> exception)
        other = corpus[ci - 1][1]
        call(label + '|gm-other', im.calc_cyc_amp_gm_arrays_w_power_law, s, other, 15, 0.34)
        call(label + '|comb-other', im.calc_cyc_amp_combined_arrays_w_power_law, s, other, 15, 0.34)
        if isinstance(s, np.ndarray) and s.ndim == 1 and s.dtype.kind in 'fi' and len(s) > 1:
            perm = s[::-1].copy()
            scaled = s * s.dtype.type(2)
            call(label + '|gm-rev', im.calc_cyc_amp_gm_arrays_w_power_law, s, perm, 15, 0.34)
            call(label + '|comb-rev', im.calc_cyc_amp_combined_arrays_w_power_law, s, perm, n_cyc=10, b=0.25)
            call(label + '|comb-rev-list', im.calc_cyc_amp_combined_arrays_w_power_law, s.tolist(), perm, 10, 0.25)
            call(label + '|comb-scaled', im.calc_cyc_amp_combined_arrays_w_power_law, values0=scaled, values1=s, n_cyc=3, b=1.0)
            call(label + '|comb-blen', im.calc_cyc_amp_combined_arrays_w_power_law, s, perm, 10, np.linspace(0.1, 1.0, len(s)))
            call(label + '|n_cyc-scaled', im.calc_n_cyc_array_w_power_law, scaled, 2 * 0.8, 0.3)
            call(label + '|amp-scaled', im.calc_cyc_amp_array_w_power_law, scaled, 15, 0.3)
        # odd option values (outside the domain; outcome must still agree)
        if ci % 5 == 0:
            call(label + '|n_cyc-b0', im.calc_n_cyc_array_w_power_law, s, 1.0, 0)
            call(label + '|n_cyc-aref0', im.calc_n_cyc_array_w_power_law, s, 0.0, 0.3)
            call(label + '|n_cyc-arefneg', im.calc_n_cyc_array_w_power_law, s, -1.0, 0.3)
            call(label + '|n_cyc-cut1', im.calc_n_cyc_array_w_power_law, s, 1.0, 0.3, cut_off=1.5)
            call(label + '|n_cyc-cutneg', im.calc_n_cyc_array_w_power_law, s, 1.0, 0.3, cut_off=-0.1)
            call(label + '|n_cyc-arefarr', im.calc_n_cyc_array_w_power_law, s, np.array([1.0, 2.0]), 0.3)
            call(label + '|amp-n0', im.calc_cyc_amp_array_w_power_law, s, 0, 0.3)
            call(label + '|amp-nneg', im.calc_cyc_amp_array_w_power_law, s, -2.0, 0.3)
            call(label + '|amp-b0', im.calc_cyc_amp_array_w_power_law, s, 15, 0.0)
            call(label + '|amp-narr', im.calc_cyc_amp_array_w_power_law, s, np.array([15., 10.]), 0.3)
            call(label + '|comb-n0', im.calc_cyc_amp_combined_arrays_w_power_law, s, s, 0, 0.3)
            call(label + '|amp-bstr', im.calc_cyc_amp_array_w_power_law, s, 15, 'x')
            call(label + '|n_cyc-bnone', im.calc_n_cyc_array_w_power_law, s, 1.0, None)

    # ---- histories on signal objects: the im functions applied to successive states of one AccSignal ----
    try:
        rec = np.loadtxt(os.path.join(os.getcwd(), 'tests', 'unit_test_data', 'test_motion_dt0p01.txt'), skiprows=2)
    except OSError:
        rec = np.random.RandomState(5).standard_normal(4000)
    asig = eqsig.AccSignal(rec[1500:4500], 0.01)

    def obs(tag):
        call(tag + '|obj-ncyc', im.calc_n_cyc_array_w_power_law, asig.values, asig.pga * 0.65, 0.3, cut_off=0.01)
        call(tag + '|obj-amp', im.calc_cyc_amp_array_w_power_law, asig.values, 15, 0.34)
        call(tag + '|obj-comb', im.calc_cyc_amp_combined_arrays_w_power_law, asig.values, asig.velocity, 15, 0.34)
        call(tag + '|obj-gm', im.calc_cyc_amp_gm_arrays_w_power_law, asig.values, asig.displacement, 15, 0.34)
        call(tag + '|obj-delta', pc.determine_peaks_only_delta_series, asig.values)
        call(tag + '|obj-pseudo', pc.determine_pseudo_cyclic_peak_only_series, asig.velocity)
        call(tag + '|obj-peaks', pc.get_peak_indices, asig)
        call(tag + '|obj-switched', pc.get_switched_peak_indices, asig)

    obs('h0')
    asig.butter_pass([0.2, 20.0])
    obs('h1-butter')
    asig.remove_poly(poly_fit=1)
    obs('h2-poly')
    asig.add_constant(0.07)
    obs('h3-const')
    asig.reset_values(asig.values[::2] * 3.0)
    obs('h4-reset')

    with open(out_path, 'wb') as f:
        pickle.dump(results, f, protocol=pickle.HIGHEST_PROTOCOL)


# ----------------------------------------------------------------------------------------------------------------
# parent
# ----------------------------------------------------------------------------------------------------------------

def close_enough(ca, cb):
    """Exact match, else (for float arrays of equal dtype and shape) agreement to RTOL"""
    import numpy as np
    if ca == cb:
        return True, False
    if isinstance(ca, tuple) and isinstance(cb, tuple) and len(ca) == len(cb) and len(ca) and ca[0] == cb[0]:
        if ca[0] == 'ndarray' and ca[1] == cb[1] and ca[2] == cb[2] and np.dtype(ca[1]).kind == 'f':
            a = np.frombuffer(ca[3], dtype=ca[1])
            b = np.frombuffer(cb[3], dtype=cb[1])
            with np.errstate(all='ignore'):
                ok = bool(np.allclose(a, b, rtol=RTOL, atol=0.0, equal_nan=True)) and \
                    bool(np.array_equal(np.signbit(a[a == 0]), np.signbit(b[a == 0])))
            return ok, True
        if ca[0] in ('tuple', 'list'):
            oks = [close_enough(x, y) for x, y in zip(ca[1], cb[1])]
            return all(o[0] for o in oks) and len(ca[1]) == len(cb[1]), any(o[1] for o in oks)
    return False, False


def main():
    cwd = os.getcwd()
    if not os.path.isdir(os.path.join(cwd, 'eqsig')):
        print('run from the worktree root')
        return 2
    me = os.path.abspath(__file__)
    with tempfile.TemporaryDirectory(prefix='equiv%d_' % TWIN) as tmp:
        orig_root = os.path.join(tmp, 'orig')
        os.makedirs(orig_root)
        blob = subprocess.run(['git', 'archive', 'HEAD', 'eqsig'], cwd=cwd, check=True, stdout=subprocess.PIPE).stdout
        with tarfile.open(fileobj=io.BytesIO(blob)) as tf:
            tf.extractall(orig_root)
        outs = {}
        procs = {}
        for name, root in (('orig', orig_root), ('edit', cwd)):
            outs[name] = os.path.join(tmp, name + '.pkl')
            env = dict(os.environ)
            env['PYTHONPATH'] = root
            env['PYTHONHASHSEED'] = '0'
            env['EQUIV_ROOT'] = root
            procs[name] = subprocess.Popen([sys.executable, me, '--worker', outs[name]], cwd=cwd, env=env)
        for name in procs:
            rc = procs[name].wait()
            if rc != 0:
                print('worker %s failed with exit status %d' % (name, rc))
                return 2
        with open(outs['orig'], 'rb') as f:
            ro = pickle.load(f)
        with open(outs['edit'], 'rb') as f:
            re_ = pickle.load(f)

    if len(ro) != len(re_):
        print('MISMATCH: number of cases differs: %d vs %d' % (len(ro), len(re_)))
        return 1
    n_bad = 0
    n_inexact = 0
    n_exc = 0
    for (la, oa, aa, wa), (lb, ob, ab, wb) in zip(ro, re_):
        if la != lb:
            print('MISMATCH: case order differs: %s vs %s' % (la, lb))
            return 1
        bad = None
        if oa[0] != ob[0]:
            bad = 'outcome kind %r vs %r' % (oa[:2] if oa[0] == 'exc' else oa[0], ob[:2] if ob[0] == 'exc' else ob[0])
        elif oa[0] == 'exc':
            n_exc += 1
            if oa[1] != ob[1]:
                bad = 'exception %s vs %s' % (oa[1], ob[1])
        else:
            ok, inexact = close_enough(oa[1], ob[1])
            if not ok:
                bad = 'returned value differs'
            elif inexact:
                n_inexact += 1
        if bad is None and aa != ab:
            bad = 'arguments after the call differ'
        if bad is None and wa != wb:
            bad = 'warnings differ: %r vs %r' % (wa, wb)
        if bad is not None:
            n_bad += 1
            if n_bad <= 25:
                print('MISMATCH [%s]: %s' % (la, bad))
    print('twin %d: %d cases compared (%d raising the same exception, %d equal only to rtol %g), %d mismatches'
          % (TWIN, len(ro), n_exc, n_inexact, RTOL, n_bad))
    return 0 if n_bad == 0 else 1


if __name__ == '__main__':
    if len(sys.argv) == 3 and sys.argv[1] == '--worker':
        root = os.environ.get('EQUIV_ROOT')
        if root:
            # make sure the intended tree wins over cwd / script directory
            sys.path[:] = [root] + [p for p in sys.path if p not in ('', root, os.getcwd(), os.path.dirname(os.path.abspath(__file__)))]
        import eqsig as _e
        assert os.path.abspath(os.path.dirname(os.path.dirname(_e.__file__))) == os.path.abspath(root), _e.__file__
        worker(sys.argv[2])
        sys.exit(0)
    sys.exit(main())

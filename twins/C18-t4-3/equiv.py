"""
Equivalence check for twin3 (same_start delegating to a module-level helper; get_section_average / time_indices restructured).

Run with twin3 applied, cwd = the worktree:
    /venv/bin/python out/equiv3.py

The ORIGINAL package is extracted from git (HEAD) into a temporary directory; the same
scenario script is then executed in two subprocesses (original vs. edited package), each of
which records a normalised trace of every result / exception / object state / stdout.
The two traces must be identical (bit-for-bit for arrays, incl. dtype and shape).
"""
import io
import os
import pickle
import shutil
import subprocess
import sys
import tempfile

WORKTREE = os.path.dirname(os.path.dirname(os.path.abspath(__file__)))


# --------------------------------------------------------------------------------------
# child side
# --------------------------------------------------------------------------------------

def norm(obj, depth=0):
    """Normalises a python object into something picklable and exactly comparable"""
    import numpy as np
    if depth > 6:
        return ('deep', repr(type(obj)))
    if isinstance(obj, np.ndarray):
        if obj.dtype == object:
            return ('ndarray-object', obj.shape, [norm(o, depth + 1) for o in obj.ravel().tolist()])
        return ('ndarray', str(obj.dtype), obj.shape, np.ascontiguousarray(obj).tobytes())
    if isinstance(obj, np.generic):
        return ('npscalar', type(obj).__name__, np.asarray(obj).tobytes())
    if isinstance(obj, (bool, int, float, complex, str, bytes, type(None))):
        return (type(obj).__name__, repr(obj))
    if isinstance(obj, (list, tuple)):
        return (type(obj).__name__, [norm(o, depth + 1) for o in obj])
    if isinstance(obj, dict):
        return (type(obj).__name__, [(norm(k, depth + 1), norm(v, depth + 1)) for k, v in obj.items()])
    if isinstance(obj, BaseException):
        return ('exception', type(obj).__name__, str(obj))
    if hasattr(obj, '__dict__'):
        return ('object', type(obj).__name__, [(k, norm(v, depth + 1)) for k, v in sorted(vars(obj).items())])
    return ('other', type(obj).__name__, repr(obj))


def child(pkg_root, out_file):
    sys.path.insert(0, pkg_root)
    os.chdir(pkg_root)
    import contextlib
    import warnings
    import numpy as np
    import eqsig
    import eqsig.multiple
    assert os.path.abspath(eqsig.__file__).startswith(os.path.abspath(pkg_root) + os.sep), (eqsig.__file__, pkg_root)
    assert os.path.abspath(eqsig.multiple.__file__).startswith(os.path.abspath(pkg_root) + os.sep)
    warnings.simplefilter('ignore')

    trace = []

    def record(label, fn):
        """Runs fn, records its (normalised) result or exception plus whatever it printed"""
        buf = io.StringIO()
        try:
            with contextlib.redirect_stdout(buf):
                res = fn()
            trace.append((label, 'ok', norm(res), buf.getvalue()))
        except Exception as e:  # noqa
            trace.append((label, 'exc', norm(e), buf.getvalue()))

    import collections
    import eqsig.fns.average
    import eqsig.fns.time_shift
    rng = np.random.RandomState(1803)

    # ---- time_indices ------------------------------------------------------------------------
    npts_list = [0, 1, 5, 100, 101, 1000]
    dt_list = [0.01, 0.005, 0.1, 1, 2.0, 0.3, np.float64(0.02), 0, 0.0]
    start_list = [0, 0.0, 0.5, 3, -1, -0.2, np.float64(0.25), np.int64(2), None, 1e9]
    end_list = [-1, -1.0, np.float64(-1), np.int64(-1), 1, 0.99, 1.0, 5, 50, 1e9, -2, -0.5, 0, None, True,
                np.float64(0.7), float('nan'), float('inf')]
    index_list = [False, True, 0, 1, None, np.False_, np.True_, 'x']
    for npts in npts_list:
        for dt in dt_list:
            for start in start_list:
                for end in end_list:
                    for index in index_list:
                        record('ti/%r/%r/%r/%r/%r' % (npts, dt, start, end, index),
                               lambda npts=npts, dt=dt, start=start, end=end, index=index:
                               eqsig.fns.time_shift.time_indices(npts, dt, start, end, index))
    record('ti/kw', lambda: eqsig.time_indices(npts=50, dt=0.1, start=1.0, end=3.0, index=False))
    record('ti/array-end', lambda: eqsig.time_indices(50, 0.1, 0, np.array([1.0, 2.0]), False))
    record('ti/missing', lambda: eqsig.time_indices(50, 0.1, 0, 1))

    # ---- get_section_average (function and method) ------------------------------------------------
    Duck = collections.namedtuple('Duck', ['values', 'dt', 'npts'])

    class Logged(object):
        # records the order in which the attributes of the series are read
        def __init__(self, values, dt):
            self._v = values
            self._dt = dt
            self.log = []

        @property
        def values(self):
            self.log.append('values')
            return self._v

        @property
        def dt(self):
            self.log.append('dt')
            return self._dt

        @property
        def npts(self):
            self.log.append('npts')
            return len(self._v)

    def series_set(n, dt):
        f = np.cumsum(rng.randn(n))
        i = rng.randint(-30, 30, n)
        return [('sig', eqsig.Signal(f, dt)), ('acc', eqsig.AccSignal(f * 0.1, dt)),
                ('intsig', eqsig.Signal(i, dt)), ('listsig', eqsig.Signal(list(f), dt)),
                ('f32', eqsig.Signal(f.astype(np.float32), dt)), ('zeros', eqsig.AccSignal(np.zeros(n), dt)),
                ('duck', Duck(list(f), dt, n)), ('duckint', Duck([int(x) for x in i], dt, n)),
                ('logged', Logged(f, dt))]

    windows = [(), (0,), (0, -1), (0, 1), (0.0, 1.0), (0.2, 0.7), (0.5, 0.5), (0.7, 0.2), (0, 0.3), (1.0, 2.0),
               (-0.1, 0.4), (0, 1e6), (0, -1.0), (0.3, -1), (0, 0), (5, 20, True), (0, -1, True), (0, 10 ** 6, True),
               (-5, -1, True), (3, 3, True), (2, 40, 1), (0, 7, None), (0.25, 0.75, False), (0, None), (None, 1)]
    for n in (1, 2, 10, 101, 250):
        for dt in (0.01, 0.005, 0.1, 1.0):
            for sname, series in series_set(n, dt):
                for wi, w in enumerate(windows):
                    record('gsa/fn/%i/%r/%s/%i' % (n, dt, sname, wi),
                           lambda series=series, w=w: (eqsig.fns.average.get_section_average(series, *w), series))
                    if len(w) >= 2:
                        kw = dict(zip(['start', 'end', 'index'], w))
                        record('gsa/fnkw/%i/%r/%s/%i' % (n, dt, sname, wi),
                               lambda series=series, kw=kw: (eqsig.get_section_average(series, **kw), series))
                    if hasattr(series, 'get_section_average'):
                        record('gsa/method/%i/%r/%s/%i' % (n, dt, sname, wi),
                               lambda series=series, w=w: (series.get_section_average(*w), series))
    record('gsa/no-series', lambda: eqsig.get_section_average(None))
    record('gsa/array-series', lambda: eqsig.get_section_average(np.arange(5.0)))

    # ---- Cluster.same_start ----------------------------------------------------------------------
    def base_series(kind, n, dt):
        t = np.arange(n) * dt
        if kind == 'walk':
            return np.cumsum(rng.randn(n)) + rng.uniform(-5, 5)
        if kind == 'sine':
            return np.sin(2.3 * t + rng.uniform(0, 3)) + rng.uniform(-1, 1)
        if kind == 'int':
            return rng.randint(-20, 20, n)
        if kind == 'list':
            return list(rng.randn(n) + rng.uniform(-2, 2))
        if kind == 'intlist':
            return [int(x) for x in rng.randint(-5, 50, n)]
        if kind == 'zeros':
            return np.zeros(n)
        if kind == 'float32':
            return (np.cumsum(rng.randn(n)) + 3).astype(np.float32)
        if kind == 'big':
            return rng.randn(n) * 1e-3 + 1e12
        if kind == 'tiny':
            return rng.randn(n) * 1e-300
        raise ValueError(kind)

    kinds = ['walk', 'sine', 'int', 'list', 'intlist', 'zeros', 'float32', 'big', 'tiny']

    def warm(c):
        for i in range(c.n_signals):
            s = c.signal_by_index(i)
            _ = s.fa_spectrum
            _ = s.smooth_fa_spectrum
            if isinstance(s, eqsig.AccSignal):
                s.generate_displacement_and_velocity_series()
                _ = s.pga
                s.generate_response_spectrum(response_times=np.array([0.2, 0.5, 1.0]))

    def run_ss(values, dt, master=0, stypes='custom', pre=None, calls=({},), names=None, tweak_master=None):
        c = eqsig.Cluster(values, dt, names=names, master_index=master, stypes=stypes)
        if pre is not None:
            pre(c)
        if tweak_master is not None:
            c.master_index = tweak_master
        outs = []
        for kw in calls:
            try:
                if isinstance(kw, tuple) and kw[0] == 'time_match':
                    r = c.time_match(**kw[1])
                else:
                    r = c.same_start(**kw)
                outs.append(('ret', type(r).__name__, r))
            except Exception as e:  # noqa
                outs.append(e)
            outs.append(norm(c))
            m = c.signal_by_index(0)
            # the chosen section average of every signal after the call (default window)
            for i in range(c.n_signals):
                try:
                    outs.append(c.signal_by_index(i).get_section_average(start=kw.get('start', 0) if isinstance(kw, dict) else 0,
                                                                         end=kw.get('end', 1) if isinstance(kw, dict) else 1))
                except Exception as e:  # noqa
                    outs.append(e)
        return outs, values

    ss_windows = [{}, {'start': 0, 'end': 0.5}, {'start': 0.2, 'end': 0.7}, {'end': -1}, {'start': 1.0, 'end': 2.0},
                  {'start': 0.5, 'end': 0.2}, {'start': -0.3, 'end': 0.9}, {'end': 1e6}, {'start': 0.1},
                  {'end': 0}, {'end': 0.0}, {'start': 0.31, 'end': 0.31}, {'end': np.float64(0.8)}, {'end': 2},
                  {'base': 1}, {'base': 1, 'start': 0.05, 'end': 0.95, 'verbose': 1}, {'verbose': 1},
                  {'verbose': 2, 'end': 0.4}, {'unknown': 7}, {'index': True, 'start': 2, 'end': 20}]
    case = 0
    for kind in kinds:
        for n_sig in (2, 3, 4):
            for master in range(n_sig):
                for dt in (0.01, 0.005, 0.02, 0.1):
                    for rep in range(2):
                        n = int(rng.choice([1, 3, 20, 99, 100, 101, 102, 150, 201, 260]))
                        kw = ss_windows[case % len(ss_windows)]
                        case += 1
                        values = [base_series(kind, n, dt) for _ in range(n_sig)]
                        record('ss/%s/%i/%i/%r/%i/%i' % (kind, n_sig, master, dt, n, case),
                               lambda values=values, dt=dt, master=master, kw=kw:
                               run_ss(values, dt, master, calls=(kw,)))
    # every window on one cluster shape, acc / mixed signal types
    for wi, kw in enumerate(ss_windows):
        for si, stypes in enumerate(['custom', 'acc', ['acc', 'custom', 'acc']]):
            for master in (0, 1, 2):
                values = [base_series('sine', 300, 0.01) for _ in range(3)]
                record('ssw/%i/%i/%i' % (wi, si, master),
                       lambda values=values, master=master, kw=kw, stypes=stypes:
                       run_ss(values, 0.01, master, stypes=stypes, calls=(kw,)))
    # unequal lengths (later signals too short for the window -> exception after partial update)
    for li, lengths in enumerate([(200, 150), (150, 200), (200, 200, 50), (200, 50, 200), (50, 200, 200),
                                  (300, 101, 100, 250), (300, 250, 101, 100), (100, 300, 250, 101)]):
        for master in range(len(lengths)):
            values = [base_series('walk', ln, 0.01) for ln in lengths]
            record('ssu/%i/%i' % (li, master),
                   lambda values=values, master=master: run_ss(values, 0.01, master, calls=({}, {'end': 0.4})))
    # multi-step histories with warm caches
    for hi, calls in enumerate([({}, {}), ({'end': 0.5}, {'start': 0.5, 'end': 1.5}, {}),
                                (('time_match', {}), {}), ({}, ('time_match', {'steps': 5}), {'verbose': 1}),
                                ({'end': 1e6}, {}), ({'verbose': 1}, {'verbose': 1})]):
        for stypes in ('custom', 'acc'):
            for master in (0, 3):
                x = np.sin(0.07 * np.arange(400))
                values = [x[10:310] + 0.2, x[13:313] - 0.4, x[6:306] + 1.0, x[10:310] * 1.0]
                record('ssh/%i/%s/%i' % (hi, stypes, master),
                       lambda values=values, calls=calls, stypes=stypes, master=master:
                       run_ss(values, 0.01, master, stypes=stypes, pre=warm, calls=calls, names=['a', 'b']))
    # unusual clusters
    record('ss/one-signal', lambda: run_ss([base_series('walk', 150, 0.01)], 0.01, 0))
    record('ss/five', lambda: run_ss([base_series('walk', 150, 0.01) for _ in range(5)], 0.01, 4))
    record('ss/tweak/-1', lambda: run_ss([base_series('walk', 150, 0.01) for _ in range(3)], 0.01, 0, tweak_master=-1))
    record('ss/tweak/-2', lambda: run_ss([base_series('walk', 150, 0.01) for _ in range(3)], 0.01, 0, tweak_master=-2))
    record('ss/tweak/9', lambda: run_ss([base_series('walk', 150, 0.01) for _ in range(3)], 0.01, 0, tweak_master=9))
    record('ss/tweak/1.0', lambda: run_ss([base_series('walk', 150, 0.01) for _ in range(3)], 0.01, 0, tweak_master=1.0))
    record('ss/tweak/np1', lambda: run_ss([base_series('walk', 150, 0.01) for _ in range(3)], 0.01, 0,
                                          tweak_master=np.int64(1)))
    record('ss/tweak/True', lambda: run_ss([base_series('walk', 150, 0.01) for _ in range(3)], 0.01, 0, tweak_master=True))
    record('ss/2d-input', lambda: run_ss(np.array([base_series('walk', 150, 0.01) for _ in range(3)]), 0.01, 1))
    v = [base_series('walk', 150, 0.01) for _ in range(3)]
    v[1][3] = np.nan
    record('ss/nan', lambda: run_ss(v, 0.01, 0))
    record('ss/nan-master', lambda: run_ss(v, 0.01, 1))
    record('ss/positional', lambda: eqsig.Cluster(v, 0.01).same_start(0))
    record('ss/dt0', lambda: run_ss([base_series('walk', 150, 0.01) for _ in range(2)], 0, 0))

    with open(out_file, 'wb') as f:
        pickle.dump(trace, f)


# --------------------------------------------------------------------------------------
# parent side
# --------------------------------------------------------------------------------------

def main():
    tmp = tempfile.mkdtemp(prefix='c18_equiv3_', dir='/tmp')
    try:
        orig_root = os.path.join(tmp, 'orig')
        os.makedirs(orig_root)
        subprocess.check_call('git archive HEAD eqsig | tar -x -C "%s"' % orig_root, shell=True, cwd=WORKTREE)
        traces = []
        for root in (orig_root, WORKTREE):
            out_file = os.path.join(tmp, 'trace_%i.pkl' % len(traces))
            env = dict(os.environ)
            env.pop('PYTHONPATH', None)
            subprocess.check_call([sys.executable, os.path.abspath(__file__), '--child', root, out_file],
                                  cwd=root, env=env)
            with open(out_file, 'rb') as f:
                traces.append(pickle.load(f))
        t_orig, t_new = traces
        assert len(t_orig) == len(t_new), (len(t_orig), len(t_new))
        bad = 0
        n_exc = 0
        for a, b in zip(t_orig, t_new):
            assert a[0] == b[0]
            if a[1] == 'exc':
                n_exc += 1
            if a != b:
                bad += 1
                if bad < 10:
                    print('MISMATCH in scenario', a[0])
                    print('   original:', repr(a[1:])[:600])
                    print('   edited  :', repr(b[1:])[:600])
        print('%i scenarios compared (%i raising in the original), %i mismatches' % (len(t_orig), n_exc, bad))
        return 1 if bad else 0
    finally:
        shutil.rmtree(tmp, ignore_errors=True)


if __name__ == '__main__':
    if len(sys.argv) == 4 and sys.argv[1] == '--child':
        child(sys.argv[2], sys.argv[3])
    else:
        sys.exit(main())

"""
Equivalence check for twin1 (private _KonnoOhmachiWindow class in eqsig/fns/frequency.py).

Run with twin1 applied and cwd = the worktree.  Loads the ORIGINAL package from git (HEAD)
and the EDITED package from the working tree, then compares them on many inputs.
Exit status 0 iff everything matches.
"""
import importlib
import os
import subprocess
import sys
import tempfile
import warnings

import numpy as np

HERE = os.getcwd()


def _load(root):
    for name in [m for m in sys.modules if m == 'eqsig' or m.startswith('eqsig.')]:
        del sys.modules[name]
    sys.path.insert(0, root)
    try:
        pkg = importlib.import_module('eqsig')
        importlib.import_module('eqsig.fns.frequency')
        importlib.import_module('eqsig.im')
        importlib.import_module('eqsig.single')
    finally:
        sys.path.remove(root)
    assert os.path.abspath(pkg.__file__).startswith(os.path.abspath(root)), pkg.__file__
    mods = {k: v for k, v in sys.modules.items() if k == 'eqsig' or k.startswith('eqsig.')}
    for name in mods:
        del sys.modules[name]
    return mods


tmp = tempfile.mkdtemp(prefix='twin3_C07_eq1_', dir='/tmp')
subprocess.check_call('git archive HEAD eqsig | tar -x -C %s' % tmp, shell=True, cwd=HERE)
ORG = _load(tmp)
NEW = _load(HERE)
assert ORG['eqsig'].__file__ != NEW['eqsig'].__file__
assert hasattr(NEW['eqsig.fns.frequency'], '_KonnoOhmachiWindow'), "twin1 is not applied"
assert not hasattr(ORG['eqsig.fns.frequency'], '_KonnoOhmachiWindow')

n_checks = 0


def same(a, b, where):
    global n_checks
    n_checks += 1
    if isinstance(a, tuple):
        assert isinstance(b, tuple) and len(a) == len(b), where
        for x, y in zip(a, b):
            same(x, y, where)
        return
    assert type(a) is type(b), (where, type(a), type(b))
    if isinstance(a, np.ndarray):
        assert a.dtype == b.dtype and a.shape == b.shape, (where, a.dtype, b.dtype, a.shape, b.shape)
        assert np.array_equal(a, b, equal_nan=(a.dtype.kind in 'fc')), (where, a, b)
        assert a.tobytes() == b.tobytes() or np.isnan(a).any(), where
    elif isinstance(a, (float, np.floating)):
        assert (a == b) or (np.isnan(a) and np.isnan(b)), (where, a, b)
    else:
        assert a == b, (where, a, b)


def run(fn, args, kwargs):
    """returns (outcome, warnings, args after the call)"""
    args = [a.copy() if isinstance(a, np.ndarray) else (list(a) if isinstance(a, list) else a) for a in args]
    kwargs = {k: (v.copy() if isinstance(v, np.ndarray) else v) for k, v in kwargs.items()}
    with warnings.catch_warnings(record=True) as wlist:
        warnings.simplefilter('always')
        try:
            out = ('ok', fn(*args, **kwargs))
        except Exception as e:  # noqa
            out = ('exc', type(e))
    ws = sorted(set((w.category.__name__, str(w.message)) for w in wlist))
    return out, ws, args, kwargs


def compare_call(fname, args, kwargs=None, where=''):
    kwargs = kwargs or {}
    fo = getattr(ORG['eqsig.fns.frequency'], fname)
    fn = getattr(NEW['eqsig.fns.frequency'], fname)
    oo, wo, ao, ko = run(fo, args, kwargs)
    on, wn, an, kn = run(fn, args, kwargs)
    where = '%s %s' % (fname, where)
    assert oo[0] == on[0], (where, oo, on)
    if oo[0] == 'ok':
        same(oo[1], on[1], where)
    else:
        assert oo[1] is on[1], (where, oo, on)
    assert wo == wn, (where, wo, wn)
    # argument mutation
    for x, y, z in zip(ao, an, args):
        if isinstance(x, np.ndarray):
            same(x, y, where + ' arg')
            same(x, z, where + ' arg untouched')
    for k in ko:
        if isinstance(ko[k], np.ndarray):
            same(ko[k], kn[k], where + ' kwarg')
            same(ko[k], kwargs[k], where + ' kwarg untouched')
    return oo


rng = np.random.RandomState(7)

bands = [5, 5.0, 12.5, 20, 40, 40.0, 73, 100, np.float64(33.3), np.int64(40)]


def freq_grid(n, dt, zero):
    f = np.arange(n) / (2 * n * dt)
    return f if zero else f[1:]


def spectra(n):
    yield 'complex', rng.randn(n) + 1j * rng.randn(n)
    yield 'real', rng.randn(n)
    yield 'pos', np.abs(rng.randn(n)) + 0.1
    yield 'int', rng.randint(-50, 50, size=n)
    yield 'zeros', np.zeros(n)
    yield 'const', np.full(n, 3.25)
    yield 'f32', rng.randn(n).astype(np.float32)
    yield 'c64', (rng.randn(n) + 1j * rng.randn(n)).astype(np.complex64)


def targets(f):
    fnz = f[f > 0]
    yield 'none', None
    yield 'on_grid', fnz[::max(1, len(fnz) // 7)].copy()
    yield 'grid_all', fnz.copy()
    yield 'inside', np.logspace(np.log10(fnz[0] * 1.01), np.log10(fnz[-1] * 0.99), 13)
    yield 'outside', np.array([fnz[0] / 50, fnz[0] / 2, fnz[-1] * 2, fnz[-1] * 40])
    yield 'mixed', np.array([fnz[0] / 3, fnz[0], fnz[len(fnz) // 2], fnz[-1], fnz[-1] * 3, 1.2345])
    yield 'single', np.array([fnz[len(fnz) // 2]])
    yield 'int_targets', np.arange(1, 6)
    pm = rng.permutation(fnz)[:5]
    yield 'unsorted', pm * np.array([1, 1.5, 1, 0.3, 1])[:len(pm)]
    yield 'f32_targets', fnz[:4].astype(np.float32)


for n, dt in [(2, 0.1), (3, 0.01), (5, 0.02), (16, 0.01), (64, 0.005), (257, 0.01), (512, 0.02)]:
    for zero in (True, False):
        f = freq_grid(n, dt, zero)
        if len(f) == 0:
            continue
        for sname, sp in spectra(len(f)):
            for tname, tg in targets(f if len(f[f > 0]) else np.array([1.0])):
                band = bands[rng.randint(len(bands))]
                w = 'n=%d zero=%s sp=%s tg=%s band=%r' % (n, zero, sname, tname, band)
                compare_call('calc_smooth_fa_spectrum', [f, sp, tg], {'band': band}, w)
                compare_call('calc_smooth_fa_spectrum', [f, sp], {'smooth_fa_frequencies': tg, 'band': band}, w)
                if tg is not None:
                    compare_call('generate_smooth_fa_spectrum', [tg, f, sp], {'band': band}, w)
                    compare_call('generate_smooth_fa_spectrum', [tg, f, sp], {}, w)
                compare_call('calc_smoothing_matrix_konno_1998', [f, tg], {'band': band}, w)
                compare_call('calc_smoothing_matrix_konno_1998', [f], {'smooth_fa_frequencies': tg}, w)
        # all bands for one configuration
        sp = rng.randn(len(f)) + 1j * rng.randn(len(f))
        for band in bands:
            for tname, tg in targets(f):
                compare_call('calc_smooth_fa_spectrum', [f, sp, tg, band], {}, 'allbands')
                compare_call('calc_smoothing_matrix_konno_1998', [f, tg, band], {}, 'allbands')

# default band, positional only
f = freq_grid(128, 0.01, True)
sp = rng.randn(128)
compare_call('calc_smooth_fa_spectrum', [f, sp])
compare_call('calc_smoothing_matrix_konno_1998', [f])
# integer frequency grid (with and without zero), non-uniform grid, non-contiguous views
compare_call('calc_smooth_fa_spectrum', [np.arange(0, 20), rng.randn(20), np.array([1., 2.5, 19, 40])])
compare_call('calc_smooth_fa_spectrum', [np.arange(1, 20), rng.randn(19), None, 20])
compare_call('calc_smoothing_matrix_konno_1998', [np.arange(0, 20), np.array([1, 3, 7])])
nu = np.sort(rng.uniform(0.05, 40, 50))
compare_call('calc_smooth_fa_spectrum', [nu, rng.randn(50), nu[::3]])
big_f = freq_grid(256, 0.01, True)
big_s = rng.randn(256) + 1j * rng.randn(256)
compare_call('calc_smooth_fa_spectrum', [big_f[::2], big_s[::2], big_f[1::5]])
compare_call('calc_smoothing_matrix_konno_1998', [big_f[::2], big_f[1::5]])
# only the zero-frequency bin
compare_call('calc_smooth_fa_spectrum', [np.array([0.0]), np.array([1.0]), np.array([1.0, 2.0])])
compare_call('calc_smoothing_matrix_konno_1998', [np.array([0.0]), np.array([1.0, 2.0])])
compare_call('calc_smooth_fa_spectrum', [np.array([0.0]), np.array([1.0])])
# invalid inputs: same exception types
compare_call('calc_smooth_fa_spectrum', [[0.0, 1.0, 2.0], [1.0, 2.0, 3.0], [1.0, 2.0]])
compare_call('calc_smooth_fa_spectrum', [[1.0, 2.0], np.array([2.0, 3.0]), np.array([1.0, 2.0])])
compare_call('calc_smooth_fa_spectrum', [np.array([1.0, 2.0]), [2.0, 3.0], np.array([1.0, 2.0])])
compare_call('calc_smooth_fa_spectrum', [np.array([1.0, 2.0]), np.array([2.0, 3.0]), [1.0, 2.0]])
compare_call('calc_smooth_fa_spectrum', [np.array([]), np.array([]), np.array([1.0])])
compare_call('calc_smooth_fa_spectrum', [np.array([0., 1.0, 2.0]), np.array([2.0, 3.0]), np.array([1.0, 2.0])])
compare_call('calc_smoothing_matrix_konno_1998', [[0.0, 1.0, 2.0], [1.0, 2.0]])
compare_call('calc_smoothing_matrix_konno_1998', [np.array([])])

# the returned matrix is a fresh array (not aliased to inputs), in both versions
for mods in (ORG, NEW):
    ff = freq_grid(32, 0.01, True)
    with warnings.catch_warnings():
        warnings.simplefilter('ignore')
        m = mods['eqsig.fns.frequency'].calc_smoothing_matrix_konno_1998(ff)
    assert m.flags.owndata and m.flags.writeable and m.flags.c_contiguous
    assert not np.shares_memory(m, ff)

# ---- Signal level: smooth_fa_spectrum, custom matrix, bandwidth, multi-step histories
STATE = ['_smooth_fa_freqs', '_smooth_fa_spectrum', '_cached_smooth_fa', '_cached_fa', '_fa_spectrum', '_fa_freqs',
         '_smooth_freq_range', '_npts', '_values']


def state(sig):
    return {k: getattr(sig, k) for k in STATE}


def same_state(a, b, where):
    sa, sb = state(a), state(b)
    for k in STATE:
        if sa[k] is None or sb[k] is None:
            assert sa[k] is None and sb[k] is None, (where, k)
        elif isinstance(sa[k], (bool, int)):
            assert sa[k] == sb[k] and type(sa[k]) is type(sb[k]), (where, k)
        else:
            same(sa[k], sb[k], where + ' ' + k)
    assert sorted(vars(a)) == sorted(vars(b)), where


def both(method, *args, **kwargs):
    res = []
    for sig in (so, sn):
        with warnings.catch_warnings(record=True) as wl:
            warnings.simplefilter('always')
            try:
                r = ('ok', method(sig, *args, **kwargs))
            except Exception as e:  # noqa
                r = ('exc', type(e))
        res.append((r, sorted(set((w.category.__name__, str(w.message)) for w in wl))))
    (ro, wo), (rn, wn) = res
    assert ro[0] == rn[0], (method, ro, rn)
    if ro[0] == 'ok':
        if ro[1] is not None:
            same(ro[1], rn[1], str(method))
        else:
            assert rn[1] is None
    else:
        assert ro[1] is rn[1]
    assert wo == wn, (wo, wn)
    same_state(so, sn, str(method))


for trial in range(12):
    npts = [7, 16, 33, 100, 256, 1000, 1025, 64, 50, 2048, 5, 300][trial]
    dt = [0.01, 0.02, 0.005, 0.1, 0.01, 0.01, 0.02, 0.5, 0.01, 0.005, 0.01, 0.01][trial]
    vals = rng.randn(npts) * np.hanning(npts)
    if trial == 3:
        vals = list(vals)
    if trial == 4:
        vals = rng.randint(-5, 5, npts)
    kw = {}
    if trial % 3 == 1:
        kw['smooth_freq_range'] = (0.5, 20)
    if trial % 3 == 2:
        kw['smooth_fa_freqs'] = [0.5, 1, 2, 4.0, 8]
    cls = 'AccSignal' if trial % 2 else 'Signal'
    so = getattr(ORG['eqsig.single'], cls)(vals, dt, **kw)
    sn = getattr(NEW['eqsig.single'], cls)(vals, dt, **kw)
    same_state(so, sn, 'init')
    both(lambda s: s.smooth_fa_spectrum)
    both(lambda s: s.smooth_fa_spectrum)
    for mname in ('eqsig.im',):
        both(lambda s: (ORG if s is so else NEW)[mname].calc_bandwidth_freqs(s))
        both(lambda s: (ORG if s is so else NEW)[mname].calc_bandwidth_f_min(s, ratio=0.5))
        both(lambda s: (ORG if s is so else NEW)[mname].calc_bandwidth_f_max(s, ratio=0.9))
    both(lambda s: (ORG if s is so else NEW)['eqsig.fns.frequency'].get_sig_freq_range(s))
    both(lambda s: s.gen_smooth_fa_spectrum(band=20))
    both(lambda s: s.generate_smooth_fa_spectrum(band=100))
    both(lambda s: s.gen_smooth_fa_spectrum(smooth_fa_freqs=s.fa_freqs[1:], band=int(5 + trial * 8)))
    both(lambda s: s.smooth_fa_spectrum)
    # matrix form on the signal
    both(lambda s: (ORG if s is so else NEW)['eqsig.fns.frequency'].calc_smooth_fa_spectrum_w_custom_matrix(
        s, (ORG if s is so else NEW)['eqsig.fns.frequency'].calc_smoothing_matrix_konno_1998(s.fa_freqs, band=30)))
    both(lambda s: (ORG if s is so else NEW)['eqsig.fns.frequency'].calc_smooth_fa_spectrum_w_custom_matrix(
        s, (ORG if s is so else NEW)['eqsig.fns.frequency'].calc_smoothing_matrix_konno_1998(
            s.fa_freqs, smooth_fa_frequencies=np.array([0.7, 1.0, 3.0]), band=30)))
    both(lambda s: setattr(s, 'smooth_fa_freqs', [0.3, 0.9, 2.7, 8.1]))
    both(lambda s: s.smooth_fa_spectrum)
    both(lambda s: setattr(s, 'smooth_fa_frequencies', s.fa_freqs[1::3]))
    both(lambda s: s.smooth_fa_spectrum)
    both(lambda s: s.set_smooth_fa_frequecies_by_range((0.2, 10), 17))
    both(lambda s: s.smooth_fa_spectrum)
    both(lambda s: s.gen_fa_spectrum(p2_plus=1))
    both(lambda s: s.clear_cache())
    both(lambda s: s.smooth_fa_spectrum)
    both(lambda s: s.reset_values(np.asarray(s.values)[::-1] * 2))
    both(lambda s: s.smooth_fa_spectrum)
    both(lambda s: (ORG if s is so else NEW)['eqsig.im'].calc_bandwidth_freqs(s, ratio=0.3))

print('equiv1: all %d comparisons identical' % n_checks)

"""
Equivalence check for twin3 (C11): original (git HEAD) vs edited eqsig/fns/peaks_and_crossings.py.

Run with the twin applied, cwd = the worktree:
    /venv/bin/python out/equiv3.py
Exit status 0 iff every comparison matches.
"""
import copy
import itertools
import os
import subprocess
import sys
import types
import warnings

import numpy as np

ROOT = os.getcwd()
sys.path.insert(0, ROOT)
warnings.simplefilter("ignore")

MOD_PATH = "eqsig/fns/peaks_and_crossings.py"

import eqsig  # noqa: E402
assert os.path.abspath(eqsig.__file__).startswith(ROOT), (eqsig.__file__, ROOT)
import eqsig.fns.peaks_and_crossings as new  # noqa: E402
assert os.path.abspath(new.__file__).startswith(ROOT), new.__file__

# ---- original module from git -------------------------------------------------------------------
src = subprocess.check_output(["git", "show", "HEAD:" + MOD_PATH], cwd=ROOT).decode()
old = types.ModuleType("eqsig.fns._orig_peaks_and_crossings")
old.__package__ = "eqsig.fns"
old.__file__ = "<git HEAD:%s>" % MOD_PATH
exec(compile(src, old.__file__, "exec"), old.__dict__)

with open(os.path.join(ROOT, MOD_PATH)) as f:
    if f.read() == src:
        print("WARNING: working-tree module is identical to HEAD (twin not applied?)")

N_CMP = 0


class Mismatch(AssertionError):
    pass


def same_obj(a, b, rtol=0.0):
    """Strict structural equality of results (types, dtypes, shapes, values, view-ness)."""
    if isinstance(a, FakeSig) or isinstance(b, FakeSig):
        return type(a) is type(b) and list(vars(a)) == list(vars(b)) and same_obj(a.values, b.values, rtol)
    if isinstance(a, tuple) or isinstance(b, tuple):
        return (type(a) is type(b) and len(a) == len(b)
                and all(same_obj(x, y, rtol) for x, y in zip(a, b)))
    if isinstance(a, list) or isinstance(b, list):
        return (type(a) is type(b) and len(a) == len(b)
                and all(same_obj(x, y, rtol) for x, y in zip(a, b)))
    if isinstance(a, np.ndarray) or isinstance(b, np.ndarray):
        if type(a) is not type(b):
            return False
        if a.dtype != b.dtype or a.shape != b.shape:
            return False
        if (a.base is None) != (b.base is None):
            return False
        if a.flags.writeable != b.flags.writeable:
            return False
        if a.dtype.kind in "fc":
            if rtol:
                return bool(np.allclose(a, b, rtol=rtol, atol=0.0, equal_nan=True))
            return bool(np.array_equal(a, b, equal_nan=True)
                        and np.array_equal(np.signbit(a), np.signbit(b)))
        return bool(np.array_equal(a, b))
    if type(a) is not type(b):
        return False
    if isinstance(a, float) and a != a and b != b:
        return True
    return a == b


def call(fn, args, kwargs):
    args = copy.deepcopy(args)
    kwargs = copy.deepcopy(kwargs)
    try:
        res = ("ok", fn(*args, **kwargs))
    except Exception as e:  # noqa
        res = ("exc", type(e), str(e))
    return res, args, kwargs


def compare(name, *args, **kwargs):
    global N_CMP
    N_CMP += 1
    r_old, a_old, k_old = call(getattr(old, name), args, kwargs)
    r_new, a_new, k_new = call(getattr(new, name), args, kwargs)
    if r_old[0] != r_new[0]:
        raise Mismatch("%s%r %r: outcome differs: %r vs %r" % (name, args, kwargs, r_old, r_new))
    if r_old[0] == "exc":
        if r_old[1:] != r_new[1:]:
            raise Mismatch("%s%r %r: exception differs: %r vs %r" % (name, args, kwargs, r_old, r_new))
    elif not same_obj(r_old[1], r_new[1]):
        raise Mismatch("%s%r %r: result differs:\n old=%r\n new=%r" % (name, args, kwargs, r_old[1], r_new[1]))
    # argument mutation: both must leave the arguments in the same state ...
    if not same_obj(tuple(a_old), tuple(a_new)) or not same_obj(tuple(k_old.values()), tuple(k_new.values())):
        raise Mismatch("%s%r: argument state differs after call" % (name, args))
    # ... and that state is the untouched one (none of these functions mutate their inputs)
    if not same_obj(tuple(a_new), tuple(copy.deepcopy(args))):
        raise Mismatch("%s%r: arguments were mutated" % (name, args))
    return r_new


class FakeSig(object):
    def __init__(self, values):
        self.values = values


def check_all_functions(values):
    """Every function of the module that depends on the anchored ones."""
    compare("clean_out_non_changing", values)
    compare("determine_indices_of_peaks_for_cleaned_array", values)
    compare("determine_indices_of_peaks_for_cleaned", values)
    r = compare("clean_out_non_changing", values)
    if r[0] == "ok":
        compare("determine_indices_of_peaks_for_cleaned_array", r[1][0])
        compare("_determine_peak_only_series_4_cleaned_data", r[1][0])
        compare("determine_peak_only_delta_series_4_cleaned_data", r[1][0])
    compare("get_peak_array_indices", values)
    for ptype in ("all", "max", "min", "other", None):
        compare("get_peak_array_indices", values, ptype)
        compare("get_peak_array_indices", values, ptype=ptype)
    compare("get_peak_indices", FakeSig(values))
    compare("get_n_cyc_array", values)
    for opt in ("all", "switched", "bad"):
        for start in ("origin", "peak", "bad"):
            compare("get_n_cyc_array", values, opt, start)
            compare("get_n_cyc_array", values, opt=opt, start=start)
    compare("get_switched_peak_array_indices", values)
    compare("get_switched_peak_indices", FakeSig(values))
    compare("determine_peaks_only_delta_series", values)
    compare("determine_pseudo_cyclic_peak_only_series", values)
    compare("get_zero_and_peak_array_indices", values)


def check_property_observables(values):
    """The observation points of the property only (cheap; used for the big exhaustive sweep)."""
    for ptype in ("all", "max", "min"):
        compare("get_peak_array_indices", values, ptype)
    compare("get_n_cyc_array", values)
    compare("get_n_cyc_array", values, "all", "peak")
    compare("clean_out_non_changing", values)


def forms(seq):
    """The same series as list of ints, list of floats, int array, float array, tuple."""
    seq = list(seq)
    yield seq
    yield [float(v) for v in seq]
    yield np.array(seq, dtype=int)
    yield np.array(seq, dtype=float)
    yield tuple(seq)


def main():
    rng = np.random.RandomState(20240611)
    alphabet = (-2, -1, 0, 1, 2)

    # 1. exhaustive over the 5-level alphabet, lengths 0..5: every function, every input form
    for n in range(0, 6):
        for seq in itertools.product(alphabet, repeat=n):
            for v in forms(seq):
                check_all_functions(v)
    print("exhaustive len<=5, all functions/forms: ok (%d comparisons so far)" % N_CMP)

    # 2. exhaustive lengths 6..7, and a big random sample of length 8: property observables
    for n in (6, 7):
        for seq in itertools.product(alphabet, repeat=n):
            check_property_observables(np.array(seq, dtype=float))
    for seq in rng.randint(-2, 3, size=(40000, 8)):
        check_property_observables(seq.astype(float))
        check_property_observables(seq)  # integer dtype
    print("exhaustive len 6-7 + sampled len 8: ok (%d comparisons so far)" % N_CMP)

    # 3. other alphabets: all-positive / all-negative levels (first value non-zero => index 0 is doubled
    #    inside clean_out_non_changing), half-integers
    for alpha in ((1, 2, 3), (-3, -2, -1), (0.5, 1.5, -0.5), (0, 1)):
        for n in range(1, 8):
            for seq in itertools.product(alpha, repeat=n):
                check_property_observables(np.array(seq, dtype=float))
                check_property_observables(list(seq))
    print("other alphabets: ok (%d comparisons so far)" % N_CMP)

    # 4. random real-valued and plateau-rich series
    lengths = [2, 3, 4, 5, 7, 10, 31, 100, 257, 1000, 5000]
    for n in lengths:
        for rep in range(6):
            x = rng.randn(n)
            check_all_functions(x)
            check_all_functions(list(x))
            # random walk
            check_all_functions(np.cumsum(rng.randn(n)))
            # plateau rich: coarse rounding and repeats
            check_all_functions(np.round(rng.randn(n) * 1.5))
            check_all_functions(np.repeat(rng.randn(n // 3 + 1), 3)[:n])
            check_all_functions(np.repeat(rng.randint(-3, 4, size=n // 4 + 1), 4)[:n])
            check_all_functions(np.round(np.cumsum(rng.randn(n)) * 0.7).astype(int))
            # flat start / flat end
            y = np.round(rng.randn(n) * 2)
            k = rng.randint(1, n + 1)
            y[:k] = y[0]
            check_all_functions(y)
            y = np.round(rng.randn(n) * 2)
            y[-k:] = y[-1]
            check_all_functions(y)
            # float32, strictly positive, strictly negative, offset
            check_all_functions(rng.randn(n).astype(np.float32))
            check_all_functions(np.abs(rng.randn(n)) + 1.0)
            check_all_functions(-np.abs(rng.randn(n)) - 1.0)
    print("random series: ok (%d comparisons so far)" % N_CMP)

    # 5. awkward values: tiny steps whose product underflows, huge values, inf / nan, constant, empty,
    #    scalars, 2-D input, read-only and non-contiguous arrays, bool dtype
    tiny = np.array([0.0, 1e-200, 0.0, 1e-200, -1e-200, 5e-324, 0.0, -5e-324, 1e-300])
    huge = np.array([0.0, 1e300, -1e300, 1e308, -1e308, 1e308, 0.0])
    specials = [
        tiny, huge, tiny[::-1], huge[::-1],
        np.array([0.0, np.inf, 1.0, -np.inf, 2.0]),
        np.array([np.nan, 1.0, 0.0, 2.0]),
        np.array([1.0, np.nan, 0.0, 2.0, np.nan]),
        np.array([0.0, 1.0, np.nan]),
        np.array([-0.0, 0.0, -0.0, 1.0, -0.0]),
        np.zeros(5), np.ones(5), np.array([3.0]), np.array([]), [], [1], [0], [0, 0], [2, 2, 2],
        np.array([True, False, True, True, False]),
        np.array([[0.0, 1.0, 0.0], [2.0, 2.0, -1.0]]),
        np.arange(10.0)[::2], np.arange(10.0)[::-1], np.arange(10),
        np.array([0, 2, 1, 2, -1, 1, 1, 0.3, -1, 0.2, 1, 0.2]),
        np.array([0, 2, 1, 2, -1, 1, 1, 0.3, -1, 0.2, 1, 0.2, 0.2]),
        np.array([1, 1, 1, 2, 1, 1, 0, 0, 3, 3]),
        np.array([5, 5, 4, 4, 6, 6, 6]),
        np.array([1, 2 ** 62, -2 ** 62, 2 ** 62], dtype=np.int64),
        np.array([3, 1, 2, 0, 5], dtype=np.uint8),
        np.array([3, 1, 2, 0, 5], dtype=np.int8),
        3.0, 0, None, "abc",
    ]
    ro = np.round(rng.randn(50))
    ro.setflags(write=False)
    specials.append(ro)
    specials.append(np.round(rng.randn(100) * 2)[::3])
    for v in specials:
        check_all_functions(v)
    print("special values: ok (%d comparisons so far)" % N_CMP)

    # 6. results are fresh w.r.t. the input: modifying the result must not touch the input, in both
    for name in ("get_peak_array_indices", "clean_out_non_changing", "determine_indices_of_peaks_for_cleaned_array"):
        for mod in (old, new):
            v = np.round(rng.randn(40) * 2)
            keep = v.copy()
            out = getattr(mod, name)(v)
            outs = out if isinstance(out, tuple) else (out,)
            for o in outs:
                assert not np.shares_memory(o, v), (name, mod)
                o[...] = 0
            assert np.array_equal(v, keep), (name, mod)
    print("aliasing: ok")
    print("ALL EQUIVALENT (%d comparisons)" % N_CMP)


if __name__ == "__main__":
    try:
        main()
    except Mismatch as e:
        print("MISMATCH:", e)
        sys.exit(1)
    sys.exit(0)

"""
Equivalence program for twin 1 (property C12: zero crossings and switched peaks).

Run with the edit applied and cwd = the worktree:

    cd <worktree> && PYTHONPATH=<worktree> /venv/bin/python out/equiv1.py

The ORIGINAL package is obtained with `git archive HEAD eqsig` into a temporary
directory.  The same deterministic battery of cases is then executed twice, in two
separate sub-processes (one importing the original package, one importing the edited
package of the working tree), and the two result streams are compared item by item:
returned values (dtype, shape and bytes), exception types, and the state of every
argument after the call (mutation of arguments).

Exit status 0 iff everything matches.
"""
import io
import itertools
import os
import pickle
import subprocess
import sys
import tarfile
import tempfile
import time

LABEL = "twin1"


# ----------------------------------------------------------------------------------
# encoding of results
# ----------------------------------------------------------------------------------
def enc(obj):
    """Exact, picklable, comparable encoding of a returned object / argument."""
    import numpy as np
    if isinstance(obj, np.ndarray):
        if obj.dtype == object:
            return ('ndobj', obj.shape, tuple(enc(o) for o in obj.ravel().tolist()))
        return ('nd', obj.dtype.str, obj.shape, np.ascontiguousarray(obj).tobytes())
    if isinstance(obj, np.generic):
        return ('npscalar', obj.dtype.str, obj.tobytes())
    if isinstance(obj, (list, tuple)):
        return (type(obj).__name__, tuple(enc(o) for o in obj))
    if isinstance(obj, (int, float, bool, str, type(None))):
        return (type(obj).__name__, repr(obj))
    if hasattr(obj, 'values') and hasattr(obj, '_is_fake_signal'):
        return ('fakesig', enc(obj.values))
    return ('other', type(obj).__name__, repr(obj))


class FakeSignal(object):
    """Minimal stand-in for an object carrying a `.values` series."""
    _is_fake_signal = True

    def __init__(self, values):
        self.values = values


# ----------------------------------------------------------------------------------
# corpus of series
# ----------------------------------------------------------------------------------
def excursion_series(rng, n_target, levels, p_zero_gap, tie_prob, small_prob, as_int=False):
    """
    Series built from excursions (runs of one strict sign) with several distinct levels
    per excursion, optional zero gaps between / inside, ties of the largest magnitude and
    tiny excursions (to exercise the tolerance).
    """
    import numpy as np
    out = []
    sign = 1 if rng.random() < 0.5 else -1
    if rng.random() < 0.4:
        out.extend([0.0] * int(rng.integers(1, 4)))
    while len(out) < n_target:
        length = int(rng.integers(1, 9))
        if as_int:
            mags = rng.integers(1, levels + 1, size=length).astype(float)
        else:
            mags = np.round(rng.random(length) * levels, int(rng.integers(1, 4))) + 0.001
        if rng.random() < small_prob:
            mags = mags * 0.004 if not as_int else np.ones(length)
        if rng.random() < tie_prob and length > 1:
            j, k = rng.integers(0, length, size=2)
            mags[j] = mags.max()
            mags[k] = mags.max()
        out.extend((sign * mags).tolist())
        r = rng.random()
        if r < p_zero_gap:
            out.extend([0.0] * int(rng.integers(1, 4)))
            if rng.random() < 0.5:
                sign = -sign  # otherwise: touches zero and returns with the same sign
        else:
            sign = -sign
    arr = np.array(out[:max(1, n_target)])
    if as_int:
        arr = arr.astype(int)
    return arr


def build_corpus():
    import numpy as np
    small = []     # (tag, series)  exhaustive small alphabets
    for n in range(1, 7):
        for tup in itertools.product((-2, -1, 0, 1, 2), repeat=n):
            small.append(tup)
    for n in range(1, 5):
        for tup in itertools.product((-3, -2, -1, 0, 1, 2, 3), repeat=n):
            small.append(tup)
    rng = np.random.default_rng(20260928)
    sampled = []
    for n, lo, hi, cnt in ((7, -2, 2, 1500), (8, -2, 2, 1500), (5, -3, 3, 1500), (6, -3, 3, 1500),
                           (9, -1, 1, 700), (12, -1, 1, 400), (7, -3, 3, 400)):
        block = rng.integers(lo, hi + 1, size=(cnt, n))
        sampled.extend(tuple(int(v) for v in row) for row in block)
    rand = []
    for i in range(1800):
        n = int(rng.integers(1, 70))
        rand.append(excursion_series(rng, n, levels=int(rng.integers(1, 6)), p_zero_gap=0.3,
                                     tie_prob=0.4, small_prob=0.3, as_int=(i % 3 == 0)))
    for i in range(80):
        n = int(rng.integers(100, 1200))
        rand.append(excursion_series(rng, n, levels=4, p_zero_gap=0.2, tie_prob=0.3, small_prob=0.3,
                                     as_int=(i % 4 == 0)))
    for i in range(4):
        rand.append(excursion_series(rng, 5000 - i, levels=5, p_zero_gap=0.15, tie_prob=0.3, small_prob=0.25,
                                     as_int=(i == 3)))
    # plain noise, random walks, sines (with exact zeros sprinkled in)
    for i in range(500):
        n = int(rng.integers(1, 200))
        kind = i % 4
        if kind == 0:
            a = rng.standard_normal(n)
        elif kind == 1:
            a = np.cumsum(rng.standard_normal(n))
        elif kind == 2:
            a = np.sin(np.linspace(0, rng.random() * 40, n)) * rng.random() * 3
        else:
            a = np.round(rng.standard_normal(n), 1)
        if rng.random() < 0.5 and n > 2:
            a[rng.integers(0, n, size=max(1, n // 10))] = 0.0
        if rng.random() < 0.2:
            a = a - a[0]
        rand.append(a)
    # hand-written corners
    hand = [
        [0, 2, 1, 2, -1, 1, 0, 0, 1, 0.3, 0, -1, 0.2, 1, 0.2],
        [0, 2, 1, 2, -1, 0.02, -0.02, 0, 1, 0.3, 0, -0.009, 0.2, 1, 0.2],
        [0, 2, 1, 2, -0.01, 1, 1, 0.3, -0.009, 0.2, 1.5, 0.2],
        [0, 2, 1, 2, -0.01, 1, 1, 0.3, -0.009, 0.001, -0.009, 0.2, 1.5, 0.2],
        [0, 2, 1, 2, -0.01, 1, 1, 0.3, -0.009, 0.001, -0.01, 0.2, 1.5, 0.2],
        [1, 2, 1, 2, -1, 1, 1, 1, 1, 0.3, 1, -1, 0.2, 1, 0.2],
        [-1, -2, 1, 2, -1, 1, 1, 1, 1, 0.3, 1, -1, 0.2, 1, 0.2],
        [5.0], [0.0], [-5.0], [0, 0], [0, 0, 0, 0], [3, 3, 3], [-3, -3, -3], [1, -1], [-1, 1],
        [1, -1, 1, -1, 1, -1, 1], [2, 1, 3, -1, -4, -2, 5, 5, 1], [-0.0, 1.0, -0.0, -1.0],
        [1e-200, -1e-200, 1e-200], [1e-320, -1e-320, 5e-324, -5e-324], [1e300, -1e300, 1e300],
        [1e-3, -1e-3, 1e-3, -1e-3, 1e-3], [0.004, -0.004, 0.004, -0.004, 0.004, -0.004],
        [0.004, -0.004, 0.004, -0.004, 0.004, -0.004, 0.5], [0.5, 0.004, -0.004, 0.004, -0.004, 0.004],
        [0.009, -0.01, 0.0099999, -0.011, 0.01], [3, 2, 1, 0, -1, -2, -3], [3, 1, 2, 1, 3, -1, -3, -2, -3],
        [float('nan'), 1.0, -1.0], [1.0, float('nan'), -1.0, 2.0, -0.001, float('nan'), 0.001, -3],
        [0.001, float('nan'), 0.001, -0.002, 1.0], [float('nan')] * 3,
        [float('inf'), -1.0, 0.0, float('-inf'), 2.0], [0.0, float('inf'), 0.0, float('-inf')],
        [True, False, True], [1, 0, -1, 0, 1, 0, 0, -1, 0, 0, 0, 1],
        [2 ** 62, -2 ** 62, 2 ** 62], [10, -20, 30, -40], [1.5, -2, 3, 0, 0, -4.5],
    ]
    return small, sampled, rand, hand


TOLS_ZC = (0.0, 0, 0.5, 1.0, 1.5, 2.5)
TOLS_SMALLFLOAT = (0.0, 0.005, 1.0)


# ----------------------------------------------------------------------------------
# the worker: runs the battery against whichever eqsig is first on sys.path
# ----------------------------------------------------------------------------------
def run_call(fn, args, kwargs, capture_warnings=True):
    """Returns (outcome, state of the arguments after the call)."""
    import warnings
    try:
        if capture_warnings:
            with warnings.catch_warnings(record=True) as wlist:
                warnings.simplefilter('always')
                res = fn(*args, **kwargs)
            out = ('ok', enc(res), tuple(sorted(set(w.category.__name__ for w in wlist))))
        else:
            out = ('ok', enc(fn(*args, **kwargs)))
    except BaseException as exc:  # noqa
        if isinstance(exc, (KeyboardInterrupt, SystemExit, MemoryError)):
            raise
        out = ('exc', type(exc).__name__)
    after = (tuple(enc(a) for a in args), tuple((k, enc(v)) for k, v in sorted(kwargs.items())))
    return out, after


def worker(pkg_root, out_path):
    sys.path.insert(0, pkg_root)
    import numpy as np
    import eqsig
    import eqsig.im
    import eqsig.fns.peaks_and_crossings as pc
    assert os.path.realpath(os.path.dirname(os.path.dirname(eqsig.__file__))) == os.path.realpath(pkg_root), \
        (eqsig.__file__, pkg_root)
    small, sampled, rand, hand = build_corpus()
    detail = []     # kept verbatim for the non-bulk part (to report the first mismatch precisely)
    counts = {'calls': 0}

    def record(tag, fn, *args, **kwargs):
        counts['calls'] += 1
        res = run_call(fn, args, kwargs)
        detail.append((tag, res))

    bulk_blocks = []

    def record_bulk(block, tag, fn, *args, **kwargs):
        counts['calls'] += 1
        res = run_call(fn, args, kwargs, capture_warnings=False)
        block.append((tag, res))

    zc = pc.get_zero_crossings_array_indices
    sw = pc.get_switched_peak_array_indices

    # 1. exhaustive + sampled small alphabets: every option combination, several container forms
    for name, corpus in (('small', small), ('sampled', sampled)):
        block = []
        for ci, tup in enumerate(corpus):
            form = ci % 4
            tol_pos = (1.5, 1.0, 2.5, 0.5)[(ci // 4) % 4]
            tol_zero = (0.0, 0)[(ci // 16) % 2]

            def make(kind):
                if form == 0:
                    return np.array(tup, dtype=float)
                if form == 1:
                    return np.array(tup, dtype=int)
                if form == 2:
                    return list(tup)
                if kind == 'zc':
                    return tuple(float(v) for v in tup)
                return np.array(tup, dtype=float) * 0.5

            adj_zeros = any(a == 0 and b == 0 for a, b in zip(tup[:-1], tup[1:]))
            for keep, tol in ((False, tol_zero), (True, tol_zero), (bool(ci % 2), tol_pos)):
                if keep and tol == 0 and not adj_zeros and ci % 3:
                    continue  # without adjacent zeros the option is only sampled
                record_bulk(block, (name, ci, 'zc', keep, tol), zc, make('zc'), keep_adj_zeros=keep, tol=tol)
            if ci % 5 == 0:
                record_bulk(block, (name, ci, 'zc', not ci % 2, tol_pos), zc, make('zc'), keep_adj_zeros=not ci % 2,
                            tol=tol_pos)
            for tol in (0.0, tol_pos):
                record_bulk(block, (name, ci, 'sw', tol), sw, make('sw'), tol=tol)
            if ci % 7 == 0:
                record_bulk(block, (name, ci, 'zc-default'), zc, np.array(tup, dtype=float))
                record_bulk(block, (name, ci, 'zc-positional'), zc, list(tup), True, 0.5)
                record_bulk(block, (name, ci, 'sw-default'), sw, np.array(tup, dtype=float))
                record_bulk(block, (name, ci, 'sw-positional'), sw, np.array(tup), 1)
        bulk_blocks.append((name, block))

    # 2. random excursion series / noise, floats and ints, long series
    block = []
    for ci, arr in enumerate(rand):
        n = len(arr)
        tols = TOLS_SMALLFLOAT if n <= 1500 else (0.0, 0.005)
        for keep in (False, True):
            for tol in tols:
                record_bulk(block, ('rand', ci, 'zc', keep, tol), zc, arr.copy(), keep_adj_zeros=keep, tol=tol)
        for tol in tols + (0.0045,):
            record_bulk(block, ('rand', ci, 'sw', tol), sw, arr.copy(), tol=tol)
        if ci % 5 == 0:
            record_bulk(block, ('rand', ci, 'zc-list'), zc, arr.tolist(), keep_adj_zeros=bool(ci % 2), tol=0.005)
            record_bulk(block, ('rand', ci, 'sw-list'), sw, arr.tolist(), tol=0.005)
            record_bulk(block, ('rand', ci, 'sw-f32'), sw, arr.astype(np.float32), tol=0.005)
            record_bulk(block, ('rand', ci, 'zc-f32'), zc, arr.astype(np.float32), tol=0.005)
            record_bulk(block, ('rand', ci, 'zc-strided'), zc, np.repeat(arr, 2)[::2], tol=0.005)
            record_bulk(block, ('rand', ci, 'sw-reversed'), sw, arr[::-1], tol=0.005)
            record_bulk(block, ('rand', ci, 'zc-reversed'), zc, arr[::-1], keep_adj_zeros=True)
    bulk_blocks.append(('rand', block))

    # 3. hand-written corners, every option, several forms (kept verbatim)
    for ci, lst in enumerate(hand):
        for keep in (False, True):
            for tol in (0.0, 0, 0.005, 0.01, 0.0100001, 1, 1.0, 3.5, 1e-300, float('inf'), np.float64(0.01),
                        np.float32(0.01), True):
                record(('hand', ci, 'zc-list', keep, repr(tol)), zc, list(lst), keep_adj_zeros=keep, tol=tol)
                try:
                    arr = np.array(lst)
                except Exception:
                    continue
                record(('hand', ci, 'zc-arr', keep, repr(tol)), zc, arr, keep_adj_zeros=keep, tol=tol)
        for tol in (0.0, 0, 0.005, 0.01, 0.0100001, 1, 1.0, 3.5, 1e-300, float('inf'), np.float64(0.01), -0.005,
                    -1, float('nan')):
            record(('hand', ci, 'sw-list', repr(tol)), sw, list(lst), tol=tol)
            record(('hand', ci, 'sw-arr', repr(tol)), sw, np.array(lst), tol=tol)
            record(('hand', ci, 'sw-tuple', repr(tol)), sw, tuple(lst), tol=tol)
        for keep in (0, 1, None, 'yes', ''):
            record(('hand', ci, 'zc-keepform', repr(keep)), zc, list(lst), keep)

    # 4. exceptions and out-of-contract arguments
    for tol in (-1.0, -1e-9, -1, float('-inf'), None, 'a', [0.1], np.array([0.0]), np.array([0.5]),
                np.array([0.1, 0.2]), float('nan'), 1j):
        for series in ([1.0, -1.0, 0.0, 2.0], np.array([0.0, 1.0, -2.0]), [], [0.001, -0.001, 1.0]):
            record(('bad-tol', repr(tol), repr(series), 'zc'), zc, series, tol=tol)
            record(('bad-tol', repr(tol), repr(series), 'sw'), sw, series, tol=tol)
    for si, series in enumerate(([], (), np.array([]), np.array([], dtype=int), None, 'abc', ['a', 'b'], [1, 'a'],
                                 [[1, 2], [3]], [None, 1.0], {1: 2}, [1 + 2j, -1j], np.array(['1', '-1', '0']),
                                 FakeSignal([1.0, -1.0]), 5.0, 0, -2, np.float64(0.0), np.array(3.0), True)):
        for tol in (0.0, 0.5):
            record(('bad-series', si, tol, 'zc'), zc, series, tol=tol)
            record(('bad-series', si, tol, 'zc-keep'), zc, series, keep_adj_zeros=True, tol=tol)
            record(('bad-series', si, tol, 'sw'), sw, series, tol=tol)
    record(('bad-call', 'zc-noargs'), zc)
    record(('bad-call', 'sw-noargs'), sw)
    record(('bad-call', 'zc-kw'), zc, [1.0, -1.0], nope=1)
    record(('bad-call', 'sw-kw'), sw, [1.0, -1.0], keep_adj_zeros=True)
    record(('bad-call', 'zc-4args'), zc, [1.0, -1.0], True, 0.0, 1)
    record(('bad-call', 'sw-3args'), sw, [1.0, -1.0], 0.0, 1)
    record(('kw-names', 'zc'), zc, values=[1.0, -1.0, 0.0, 0.0, 3.0], keep_adj_zeros=True, tol=0.1)
    record(('kw-names', 'sw'), sw, values=[1.0, -1.0, 0.0, 0.0, 3.0], tol=0.1)

    # 5. the public functions built on the two (same module and eqsig.im), and sequences of calls
    rng = np.random.default_rng(7)
    seqs = [np.array(h, dtype=float) for h in hand if len(h) > 3 and not isinstance(h[0], bool)]
    seqs = [s for s in seqs if np.all(np.isfinite(s))]
    for i in range(300):
        seqs.append(excursion_series(rng, int(rng.integers(4, 120)), levels=4, p_zero_gap=0.3, tie_prob=0.3,
                                     small_prob=0.2))
    for ci, arr in enumerate(seqs):
        record(('wrap', ci, 'switched_peak_indices-sig'), pc.get_switched_peak_indices, FakeSignal(arr.copy()))
        record(('wrap', ci, 'switched_peak_indices-raw'), pc.get_switched_peak_indices, arr.copy())
        record(('wrap', ci, 'switched_peak_indices-list'), pc.get_switched_peak_indices, arr.tolist())
        record(('wrap', ci, 'zero_crossings_indices'), pc.get_zero_crossings_indices, FakeSignal(arr.copy()))
        record(('wrap', ci, 'zero_crossings_indices-list'), pc.get_zero_crossings_indices,
               FakeSignal(arr.tolist()))
        record(('wrap', ci, 'toplevel-zc'), eqsig.fns.get_zero_crossings_array_indices, arr.copy(), True, 0.01)
        record(('wrap', ci, 'toplevel-sw'), eqsig.fns.get_switched_peak_array_indices, arr.copy(), 0.01)
        for min_step in (0, 1, 3):
            record(('wrap', ci, 'zero_and_peak', min_step), pc.get_zero_and_peak_array_indices, arr.copy(),
                   min_step=min_step)
        record(('wrap', ci, 'zero_and_peak-zvals'), pc.get_zero_and_peak_array_indices, arr.copy(),
               zvals=np.roll(arr, 1))
        for opt in ('all', 'switched', 'other'):
            for start in ('origin', 'peak', 'other'):
                record(('wrap', ci, 'n_cyc', opt, start), pc.get_n_cyc_array, arr.copy(), opt=opt, start=start)
        if ci % 3 == 0:
            record(('wrap', ci, 'im-cyc_amp'), eqsig.im.calc_cyc_amp_array_w_power_law, arr.copy(), n_cyc=15, b=0.34)
            record(('wrap', ci, 'im-cyc_amp-b-array'), eqsig.im.calc_cyc_amp_array_w_power_law, arr.copy(),
                   n_cyc=15, b=np.array([0.2, 0.34]))
            record(('wrap', ci, 'im-n_cyc'), eqsig.im.calc_n_cyc_array_w_power_law, arr.copy(), a_ref=1.0, b=0.34)
            record(('wrap', ci, 'im-gm'), eqsig.im.calc_cyc_amp_gm_arrays_w_power_law, arr.copy(), arr[::-1].copy(),
                   n_cyc=10, b=0.3)
            record(('wrap', ci, 'im-comb'), eqsig.im.calc_cyc_amp_combined_arrays_w_power_law, arr.copy(),
                   arr[::-1].copy(), n_cyc=10, b=0.3)
    # histories: the same array object fed through a sequence of public operations (no hidden state, no mutation)
    for ci in range(150):
        arr = excursion_series(rng, int(rng.integers(1, 80)), levels=3, p_zero_gap=0.4, tie_prob=0.5, small_prob=0.3,
                               as_int=bool(ci % 2))
        lst = arr.tolist()
        order = rng.permutation(6)
        for step, op in enumerate(order):
            tol = (0.0, 0.005, 1.0)[int(rng.integers(0, 3))]
            keep = bool(rng.integers(0, 2))
            if op == 0:
                record(('hist', ci, step, 'zc', keep, tol), zc, arr, keep_adj_zeros=keep, tol=tol)
            elif op == 1:
                record(('hist', ci, step, 'sw', tol), sw, arr, tol=tol)
            elif op == 2:
                record(('hist', ci, step, 'zc-list', keep, tol), zc, lst, keep_adj_zeros=keep, tol=tol)
            elif op == 3:
                record(('hist', ci, step, 'sw-list', tol), sw, lst, tol=tol)
            elif op == 4:
                record(('hist', ci, step, 'n_cyc'), pc.get_n_cyc_array, arr, opt='switched')
            else:
                record(('hist', ci, step, 'zap'), pc.get_zero_and_peak_array_indices, arr)
        # results must be fresh arrays: writing into one result must not influence a later call
        try:
            r1 = zc(arr, tol=0.005)
            r1[...] = -7
            r2 = sw(arr, tol=0.005)
            r2[...] = -9
        except Exception:
            pass
        record(('hist', ci, 'after-write', 'zc'), zc, arr, tol=0.005)
        record(('hist', ci, 'after-write', 'sw'), sw, arr, tol=0.005)

    # module surface
    names = sorted(n for n in dir(pc) if not n.startswith('_'))
    public = []
    import inspect
    for n in names:
        obj = getattr(pc, n)
        if inspect.isfunction(obj) and obj.__module__ == pc.__name__:
            public.append((n, str(inspect.signature(obj))))
    detail.append((('surface',), public))

    with open(out_path, 'wb') as f:
        pickle.dump({'detail': detail, 'blocks': bulk_blocks, 'calls': counts['calls']}, f, protocol=4)


# ----------------------------------------------------------------------------------
# driver
# ----------------------------------------------------------------------------------
def show(item):
    """Readable form of an encoded result (only used when reporting a mismatch)."""
    import numpy as np
    if isinstance(item, tuple) and len(item) == 4 and item[0] == 'nd':
        arr = np.frombuffer(item[3], dtype=np.dtype(item[1])).reshape(item[2])
        return 'array(%s, dtype=%s)' % (arr.tolist() if arr.size <= 40 else str(arr.tolist()[:40]) + '...', arr.dtype)
    if isinstance(item, tuple):
        return '(' + ', '.join(show(i) for i in item) + ')'
    return repr(item)


def main():
    t0 = time.time()
    cwd = os.getcwd()
    if not os.path.isdir(os.path.join(cwd, 'eqsig')):
        print('run from the worktree root (cwd must contain eqsig/)')
        return 2
    with tempfile.TemporaryDirectory(prefix='equiv_' + LABEL + '_') as tmp:
        orig_root = os.path.join(tmp, 'orig')
        os.makedirs(orig_root)
        data = subprocess.run(['git', 'archive', 'HEAD', 'eqsig'], cwd=cwd, check=True,
                              stdout=subprocess.PIPE).stdout
        with tarfile.open(fileobj=io.BytesIO(data)) as tf:
            tf.extractall(orig_root)
        env = dict(os.environ)
        env.pop('PYTHONPATH', None)
        env['PYTHONDONTWRITEBYTECODE'] = '1'
        env['PYTHONHASHSEED'] = '0'
        procs = []
        for name, root in (('orig', orig_root), ('edit', cwd)):
            out_path = os.path.join(tmp, name + '.pkl')
            p = subprocess.Popen([sys.executable, os.path.abspath(__file__), '--worker', root, out_path],
                                 cwd=tmp, env=env)
            procs.append((name, p, out_path))
        results = {}
        for name, p, out_path in procs:
            rc = p.wait()
            if rc != 0:
                print('worker %s failed with exit status %s' % (name, rc))
                return 3
            with open(out_path, 'rb') as f:
                results[name] = pickle.load(f)
    o, e = results['orig'], results['edit']
    n_bad = 0
    if o['calls'] != e['calls']:
        print('number of calls differs', o['calls'], e['calls'])
        n_bad += 1
    if len(o['detail']) != len(e['detail']):
        print('number of detailed records differs')
        n_bad += 1
    for (tag_o, res_o), (tag_e, res_e) in zip(o['detail'], e['detail']):
        if tag_o != tag_e or res_o != res_e:
            n_bad += 1
            if n_bad <= 10:
                print('MISMATCH', tag_o, '\n   orig:', show(res_o)[:600], '\n   edit:', show(res_e)[:600])
    for (name_o, raw_o), (name_e, raw_e) in zip(o['blocks'], e['blocks']):
        if name_o != name_e or len(raw_o) != len(raw_e):
            print('block structure differs', name_o, name_e, len(raw_o), len(raw_e))
            n_bad += 1
        for (tag_o, res_o), (tag_e, res_e) in zip(raw_o, raw_e):
            if tag_o != tag_e or res_o != res_e:
                n_bad += 1
                if n_bad <= 10:
                    print('MISMATCH', tag_o, '\n   orig:', show(res_o)[:600], '\n   edit:', show(res_e)[:600])
    n_exc = sum(1 for tag, res in o['detail'] if tag != ('surface',) and res[0][0] == 'exc')
    print('%s: %d calls per version compared (%d detailed, %d of them raising), %d mismatches, %.1f s'
          % (LABEL, o['calls'], len(o['detail']), n_exc, n_bad, time.time() - t0))
    return 0 if n_bad == 0 else 1


if __name__ == '__main__':
    if len(sys.argv) == 4 and sys.argv[1] == '--worker':
        worker(sys.argv[2], sys.argv[3])
        sys.exit(0)
    sys.exit(main())

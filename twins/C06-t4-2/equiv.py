"""
Equivalence check for twin2 (fas2values / fas2signal share the private worker _fas2dft).

Run with twin2 applied, cwd = worktree:   /venv/bin/python out/equiv2.py
The same scenario script is executed in two subprocesses, one importing the ORIGINAL package
(extracted from git HEAD into a temp dir) and one importing the edited worktree; the pickled
results are compared bit-for-bit (dtype, shape, bytes), including object state and argument mutation.
"""
import os
import pickle
import shutil
import subprocess
import sys
import tempfile
import warnings

import numpy as np

WORKTREE = os.path.dirname(os.path.dirname(os.path.abspath(__file__)))


# ----------------------------------------------------------------------------- worker side
def snap(x):
    """Make a picklable, exactly comparable snapshot of a value"""
    if isinstance(x, np.ndarray):
        return ('nd', str(x.dtype), x.shape, x.tobytes())
    if isinstance(x, np.generic):
        return ('npscalar', type(x).__name__, np.asarray(x).tobytes())
    if isinstance(x, (list, tuple)):
        return (type(x).__name__, [snap(v) for v in x])
    if isinstance(x, (bool, int, float, complex, str, type(None))):
        return (type(x).__name__, repr(x))
    return ('obj', type(x).__name__)


def state(sig):
    return {k: snap(getattr(sig, k)) for k in ('_cached_fa', '_fa_spectrum', '_fa_freqs', '_npts', '_dt', '_values',
                                               '_cached_smooth_fa')}


def call(fn, *args, **kwargs):
    with warnings.catch_warnings(record=True) as ws:
        warnings.simplefilter('always')
        try:
            out = ('ok', snap(fn(*args, **kwargs)))
        except Exception as e:  # noqa
            out = ('exc', type(e).__name__, str(e))
    return out, sorted((w.category.__name__, str(w.message)) for w in ws)


def spectra():
    """(name, fas, dt) triples: spectra produced by the library and arbitrary positive parts"""
    import eqsig
    from eqsig.fns import frequency as fq
    rng = np.random.RandomState(6062)
    out = []
    dts = [0.01, 0.005, 1.0, 0.02, 1. / 3, 2, 1e-4, np.float32(0.01), np.float64(0.25)]
    k = 0
    for npts in [2, 3, 4, 5, 6, 7, 8, 9, 14, 15, 16, 17, 28, 31, 32, 33, 100, 127, 128, 129, 255, 256, 257, 1000, 1024,
                 1025, 4684]:
        for cls in (eqsig.Signal, eqsig.AccSignal):
            k += 1
            dt = dts[k % len(dts)]
            vals = rng.randn(npts)
            sig = cls(vals, dt)
            out.append(('gen_pad_%d' % npts, fq.generate_fa_spectrum(sig)[0], dt))
            out.append(('gen_nopad_%d' % npts, fq.generate_fa_spectrum(sig, n_pad=False)[0], dt))
            out.append(('calc_p2_%d' % npts, fq.calc_fa_spectrum(sig, p2_plus=k % 4)[0], dt))
            out.append(('calc_n_%d' % npts, fq.calc_fa_spectrum(sig, n=npts + (k % 5))[0], dt))
            out.append(('obj_%d' % npts, sig.fa_spectrum, dt))
            sig.gen_fa_spectrum(p2_plus=(k + 1) % 4)
            out.append(('obj_p2_%d' % npts, sig.fa_spectrum, dt))
            sig.gen_fa_spectrum(n=2 * npts + 1)
            out.append(('obj_n_%d' % npts, sig.fa_spectrum, dt))
    for m in list(range(0, 20)) + [31, 32, 33, 64, 100, 257, 512]:
        k += 1
        dt = dts[k % len(dts)]
        z = rng.randn(m) + 1j * rng.randn(m)
        out.append(('cplx_%d' % m, z, dt))
        out.append(('list_%d' % m, list(z), dt))
        out.append(('tuple_%d' % m, tuple(z), dt))
        out.append(('real_%d' % m, rng.randn(m), dt))
        out.append(('reallist_%d' % m, [float(v) for v in rng.randn(m)], dt))
        out.append(('int_%d' % m, rng.randint(-9, 10, size=m), dt))
        out.append(('intlist_%d' % m, [int(v) for v in rng.randint(-9, 10, size=m)], dt))
        out.append(('c64_%d' % m, z.astype(np.complex64), dt))
        out.append(('zeros_%d' % m, np.zeros(m, dtype=complex), dt))
        out.append(('strided_%d' % m, (rng.randn(2 * m) + 1j * rng.randn(2 * m))[::2], dt))
        out.append(('negzero_%d' % m, -0.0 * z, dt))
    z = rng.randn(9) + 1j * rng.randn(9)
    for dt in [0, 0.0, -0.01, 1, 3, np.int64(2), np.inf, 1e-300, 1e300]:
        out.append(('odd_dt_%r' % (dt,), z, dt))
    big = z.copy()
    big[3] = np.inf
    big[5] = np.nan + 1j
    out.append(('nonfinite', big, 0.01))
    return out


def sig_state(sig):
    d = {k: snap(getattr(sig, k)) for k in ('_cached_fa', '_fa_spectrum', '_fa_freqs', '_npts', '_dt', '_values',
                                            '_cached_smooth_fa', 'label')}
    d['class'] = type(sig).__name__
    return d


def worker(out_path):
    sys.path.insert(0, os.getcwd())
    import eqsig
    from eqsig.fns import frequency as fq
    res = {'__file__': os.path.dirname(eqsig.__file__)}
    for i, (name, fas, dt) in enumerate(spectra()):
        keep = pickle.dumps(fas)
        log = []
        with warnings.catch_warnings(record=True) as ws:
            warnings.simplefilter('always')
            try:
                v = fq.fas2values(fas, dt)
                log.append(('fas2values', snap(v), v.flags['C_CONTIGUOUS'], v.flags['WRITEABLE'], type(v).__name__))
            except Exception as e:  # noqa
                log.append(('fas2values', 'exc', type(e).__name__, str(e)))
            log.append(('warn', sorted((w.category.__name__, str(w.message)) for w in ws)))
        log.append(('fas_unchanged_1', pickle.dumps(fas) == keep))
        for stype in ('signal', 'acc', 'anything-else'):
            if stype == 'signal':
                args = (fas, dt, stype) if i % 2 else (fas, dt)  # default too
            else:
                args = (fas, dt, stype)
            with warnings.catch_warnings(record=True) as ws:
                warnings.simplefilter('always')
                try:
                    s = fq.fas2signal(*args)
                    log.append(('fas2signal_' + stype, sig_state(s)))
                    # multi-step: use the rebuilt object (round trip to the frequency domain and back)
                    log.append(('rt_spec', snap(s.fa_spectrum), snap(s.fa_freqs), sig_state(s)))
                    log.append(('rt_values', snap(fq.fas2values(s.fa_spectrum, s.dt))))
                    s.gen_fa_spectrum(p2_plus=1)
                    s2 = fq.fas2signal(s.fa_spectrum, s.dt, stype)
                    log.append(('rt_signal', sig_state(s2), sig_state(s)))
                except Exception as e:  # noqa
                    log.append(('fas2signal_' + stype, 'exc', type(e).__name__, str(e)))
                log.append(('warn', sorted((w.category.__name__, str(w.message)) for w in ws)))
            log.append(('fas_unchanged_' + stype, pickle.dumps(fas) == keep))
        res[(i, name)] = log
    with open(out_path, 'wb') as f:
        pickle.dump(res, f)


# ----------------------------------------------------------------------------- driver side
def main():
    tmp = tempfile.mkdtemp(prefix='c06_equiv2_', dir='/tmp')
    try:
        orig = os.path.join(tmp, 'orig')
        os.makedirs(orig)
        subprocess.check_call('git archive HEAD eqsig | tar -x -C %s' % orig, shell=True, cwd=WORKTREE)
        outs = {}
        for tag, cwd in (('orig', orig), ('edit', WORKTREE)):
            out_path = os.path.join(tmp, tag + '.pkl')
            env = dict(os.environ)
            env.pop('PYTHONPATH', None)
            subprocess.check_call([sys.executable, os.path.abspath(__file__), '--worker', out_path], cwd=cwd, env=env)
            with open(out_path, 'rb') as f:
                outs[tag] = pickle.load(f)
        assert outs['orig'].pop('__file__').startswith(orig), 'original package not imported from the archive'
        assert outs['edit'].pop('__file__').startswith(WORKTREE), 'edited package not imported from the worktree'
        assert outs['orig'].keys() == outs['edit'].keys()
        bad = 0
        n_items = 0
        for key in outs['orig']:
            lo, le = outs['orig'][key], outs['edit'][key]
            assert len(lo) == len(le)
            for a, b in zip(lo, le):
                n_items += 1
                if a != b:
                    bad += 1
                    if bad < 10:
                        print('MISMATCH', key, a[0] if isinstance(a, tuple) else a)
        print('compared %d scenarios, %d steps, %d mismatches' % (len(outs['orig']), n_items, bad))
        return 1 if bad else 0
    finally:
        shutil.rmtree(tmp, ignore_errors=True)


if __name__ == '__main__':
    if len(sys.argv) == 3 and sys.argv[1] == '--worker':
        worker(sys.argv[2])
    else:
        sys.exit(main())

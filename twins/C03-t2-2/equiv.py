"""
Equivalence check for twin2 (AccSignal response-spectrum state handling restructured into private methods).

Run with twin2 applied, cwd = the worktree:   /venv/bin/python out/equiv2.py
The ORIGINAL package is taken from git (`git archive HEAD eqsig`) into a temporary directory; original and
edited package are each exercised in their own subprocess on the same battery of inputs and the pickled
outcomes (values bit-for-bit, dtypes, shapes, python types, exceptions, argument mutation, object state) are compared.
Exit status 0 iff everything matches.
"""
import os
import pickle
import subprocess
import sys
import tempfile

EDITED_FILES = ['eqsig/single.py']


# ---------------------------------------------------------------------------------------------------------------------
# encoding of outcomes (strict: type + dtype + shape + bytes)
def enc(x):
    import numpy as np
    if isinstance(x, np.ndarray):
        return ('nd', x.dtype.str, x.shape, np.ascontiguousarray(x).tobytes())
    if isinstance(x, np.generic):
        return ('ns', type(x).__name__, x.tobytes())
    if isinstance(x, (tuple, list)):
        return (type(x).__name__, [enc(v) for v in x])
    if isinstance(x, dict):
        return ('dict', [(k, enc(x[k])) for k in sorted(x)])
    if isinstance(x, (bool, int, float, str, type(None))):
        return (type(x).__name__, repr(x))
    raise TypeError('cannot encode %r' % type(x))


def call(f, *args, **kwargs):
    import warnings
    try:
        with warnings.catch_warnings(record=True) as wl:
            warnings.simplefilter('always')
            out = f(*args, **kwargs)
        return ('ok', enc(out), sorted(set(str(w.category.__name__) for w in wl)))
    except Exception as e:  # noqa
        return ('exc', type(e).__name__, str(e))


# ---------------------------------------------------------------------------------------------------------------------
def full_state(asig):
    """the complete instance dictionary of a signal object"""
    import numpy as np
    d = {}
    for k, v in asig.__dict__.items():
        try:
            d[k] = enc(v)
        except TypeError:
            d[k] = ('obj', type(v).__name__)
    return ('state', [(k, d[k]) for k in sorted(d)])


def battery():
    import io
    import copy
    import contextlib
    import numpy as np
    import eqsig
    from eqsig import sdof, im
    import eqsig.single as single
    res = []

    def rec(tag, val):
        res.append((tag, val))

    def pcall(f, *a, **k):
        """call and also capture what is printed"""
        buf = io.StringIO()
        with contextlib.redirect_stdout(buf):
            out = call(f, *a, **k)
        return out + (buf.getvalue(),)

    rng = np.random.RandomState(2609)
    records = [('rand300', rng.randn(300)), ('rand41', rng.randn(41) * 2), ('rand3', rng.randn(3)), ('rand2', rng.randn(2)),
               ('zeros', np.zeros(64)), ('int', rng.randint(-5, 6, size=90)), ('list', list(rng.randn(50))),
               ('tuple', tuple(rng.randn(30))), ('f32', rng.randn(70).astype(np.float32)),
               ('sine', np.sin(0.3 * np.arange(200)))]
    dts = [0.005, 0.01, 0.04, 0.2]

    def rt_sets(dt):
        base = [0.5 * dt, 3 * dt, 5.99 * dt, 6 * dt, 6.5 * dt, 20 * dt, 79 * dt, 80 * dt, 81 * dt, 2.0]
        yield 'None', None
        yield 'arr', np.array(base)
        yield 'arr0', np.array([0.0] + base)
        yield 'list', list(base)
        yield 'list0', [0] + list(base)
        yield 'tuple', tuple(base)
        yield 'tuple0', (0.0,) + tuple(base[2:])
        yield 'long', [40 * dt, 50 * dt]
        yield 'long0', (0, 40 * dt, 50 * dt)
        yield 'short', np.array([dt, 1.5 * dt])
        yield 'ints', [1, 2]
        yield 'ints0', np.array([0, 1, 2])
        yield 'unsorted', [1.0, 2 * dt, 0.3]
        yield 'onlyzero', [0.0]
        yield 'one', [0.31]
        yield 'empty', []

    # --- 1. fresh objects: lazy getters, explicit generation with all option combinations
    for rname, r in records:
        for dt in dts:
            for rtname, rt in rt_sets(dt):
                for mdr in [1, 2, 4, 8]:
                    for xi in ([-1, 0.0, 0.2] if rname in ('rand41', 'int') else [-1]):
                        tag = 'fresh %s dt=%s rt=%s mdr=%s xi=%s' % (rname, dt, rtname, mdr, xi)
                        r_in = copy.deepcopy(r)
                        rt_in = copy.deepcopy(rt)
                        asig = eqsig.AccSignal(r_in, dt, response_times=rt_in)
                        rec(tag + ' gen', pcall(asig.gen_response_spectrum, xi=xi, min_dt_ratio=mdr))
                        rec(tag + ' state', full_state(asig))
                        rec(tag + ' s_d', pcall(lambda: asig.s_d))
                        rec(tag + ' ident', enc([asig.s_a is asig._s_a, asig.s_v is asig._s_v, asig.s_d is asig._s_d])
                            if asig._cached_response_spectra else enc(None))
                        # generation with response_times passed in (container is stored as given)
                        asig2 = eqsig.AccSignal(r_in, dt)
                        rec(tag + ' gen2', pcall(asig2.generate_response_spectrum, rt_in, xi, mdr))
                        rec(tag + ' rt stored as given', enc(asig2.response_times is rt_in if rt_in is not None else None))
                        rec(tag + ' state2', full_state(asig2))
                        # inputs not modified
                        assert np.asarray(r_in).tobytes() == np.asarray(r).tobytes()
                        if rt is not None:
                            assert type(rt_in) is type(rt) and np.asarray(rt_in).tobytes() == np.asarray(rt).tobytes()
                if True:
                    tag = 'lazy %s dt=%s rt=%s' % (rname, dt, rtname)
                    for which in ['s_a', 's_v', 's_d']:
                        asig = eqsig.AccSignal(copy.deepcopy(r), dt, response_times=copy.deepcopy(rt), verbose=1)
                        rec(tag + ' ' + which, pcall(getattr, asig, which))
                        rec(tag + ' ' + which + ' state', full_state(asig))
                        rec(tag + ' ' + which + ' again', pcall(getattr, asig, which))

    # --- 2. multi-step histories
    for rname, r in records[:6]:
        for dt in [0.01, 0.04]:
            tag = 'hist %s dt=%s' % (rname, dt)
            asig = eqsig.AccSignal(np.array(r, dtype=float), dt, verbose=1)
            steps = [
                ('s_a', lambda: asig.s_a),
                ('s_a again', lambda: asig.s_a),
                ('gen xi .1', lambda: asig.gen_response_spectrum(xi=0.1)),
                ('s_v', lambda: asig.s_v),
                ('gen rt list0', lambda: asig.gen_response_spectrum(response_times=[0, 0.03, 0.3, 3.0], min_dt_ratio=8)),
                ('s_d', lambda: asig.s_d),
                ('set rt', lambda: setattr(asig, 'response_times', (0.05, 0.5))),
                ('s_a after set rt', lambda: asig.s_a),
                ('set cached_xi', lambda: setattr(asig, '_cached_xi', 0.2)),
                ('s_a still cached', lambda: asig.s_a),
                ('generate default', lambda: asig.generate_response_spectrum()),
                ('s_a new xi', lambda: asig.s_a),
                ('add_constant', lambda: asig.add_constant(0.3)),
                ('s_v after add', lambda: asig.s_v),
                ('reset_values', lambda: asig.reset_values(np.arange(asig.npts) * 0.01)),
                ('s_d after reset', lambda: asig.s_d),
                ('bad rt', lambda: asig.gen_response_spectrum(response_times=[0.0])),
                ('s_a after bad', lambda: asig.s_a),
                ('set good rt', lambda: setattr(asig, 'response_times', np.array([0.0, 0.2, 0.4]))),
                ('s_v after good', lambda: asig.s_v),
                ('butter', lambda: asig.butter_pass([0.5, 10])),
                ('s_a after butter', lambda: asig.s_a),
                ('clear_cache', lambda: asig.clear_cache()),
                ('gen xi0 mdr1', lambda: asig.gen_response_spectrum(xi=0, min_dt_ratio=1)),
                ('s_a xi0', lambda: asig.s_a),
                ('velocity', lambda: asig.velocity),
                ('s_d end', lambda: asig.s_d),
            ]
            for sname, f in steps:
                rec(tag + ' ' + sname, pcall(f))
                rec(tag + ' ' + sname + ' state', full_state(asig))

    # --- 3. lazy getters go through generate_response_spectrum of a subclass
    class Counting(eqsig.AccSignal):
        n_generate = 0
        n_gen = 0

        def generate_response_spectrum(self, response_times=None, xi=-1, min_dt_ratio=4):
            self.n_generate += 1
            super(Counting, self).generate_response_spectrum(response_times=response_times, xi=xi, min_dt_ratio=2)

        def gen_response_spectrum(self, response_times=None, xi=-1, min_dt_ratio=4):
            self.n_gen += 1
            super(Counting, self).gen_response_spectrum(response_times=response_times, xi=xi, min_dt_ratio=min_dt_ratio)

    casig = Counting(rng.randn(120), 0.02, response_times=[0, 0.05, 0.5])
    for which in ['s_d', 's_v', 's_a']:
        rec('sub ' + which, pcall(getattr, casig, which))
        rec('sub ' + which + ' state', full_state(casig))
        casig.clear_cache()
        rec('sub ' + which + ' 2', pcall(getattr, casig, which))
        rec('sub counts ' + which, enc([casig.n_generate, casig.n_gen]))

    # --- 4. MemoryError path
    orig_fn = sdof.pseudo_response_spectra

    def boom(*a, **k):
        raise MemoryError('boom')
    asig = eqsig.AccSignal(rng.randn(77), 0.01, response_times=[0.02, 0.3])
    rec('mem pre', pcall(lambda: asig.s_a))
    sdof.pseudo_response_spectra = boom
    try:
        rec('mem gen', pcall(asig.gen_response_spectrum, min_dt_ratio=8))
        rec('mem gen state', full_state(asig))
        rec('mem gen rt', pcall(asig.gen_response_spectrum, response_times=[0, 0.01, 0.2, 0.5]))
        rec('mem gen rt state', full_state(asig))
        rec('mem lazy', pcall(lambda: asig.s_v))
    finally:
        sdof.pseudo_response_spectra = orig_fn
    rec('mem after', pcall(lambda: asig.s_v))
    rec('mem after state', full_state(asig))

    # --- 5. consumers
    for rname, r in records[:2]:
        asig = eqsig.AccSignal(r, 0.01)
        rec('im max_acc_period ' + rname, pcall(im.max_acceleration_period, asig))
        rec('im max_vel_period ' + rname, pcall(im.calc_max_velocity_period, asig))
        rec('im state ' + rname, full_state(asig))
    cl = eqsig.Cluster([rng.randn(100), rng.randn(100)], dt=0.02, stypes='acc')
    rec('cluster gen', pcall(cl.generate_response_spectrums))
    rec('cluster s_a', pcall(lambda: [cl.signal_by_index(i).s_a for i in range(2)]))
    rec('cluster state', full_state(cl.signal_by_index(1)))
    return res


# ---------------------------------------------------------------------------------------------------------------------
def worker(root, outfile):
    sys.path.insert(0, root)
    os.chdir(root)
    import eqsig
    assert os.path.realpath(eqsig.__file__).startswith(os.path.realpath(root) + os.sep), (eqsig.__file__, root)
    res = battery()
    with open(outfile, 'wb') as f:
        pickle.dump(res, f)


def main():
    here = os.getcwd()
    assert os.path.isdir(os.path.join(here, 'eqsig')) and os.path.exists(os.path.join(here, '.git')), 'run in the worktree'
    tmp = tempfile.mkdtemp(prefix='equiv2_', dir='/tmp')
    orig = os.path.join(tmp, 'orig')
    os.mkdir(orig)
    subprocess.check_call('git archive HEAD eqsig | tar -x -C %s' % orig, shell=True, cwd=here)
    differs = False
    for fn in EDITED_FILES:
        with open(os.path.join(here, fn)) as f1, open(os.path.join(orig, fn)) as f2:
            differs = differs or f1.read() != f2.read()
    assert differs, 'the twin is not applied: edited files are identical to HEAD'
    outs = []
    for name, root in [('orig', orig), ('edit', here)]:
        out = os.path.join(tmp, name + '.pkl')
        env = dict(os.environ)
        env.pop('PYTHONPATH', None)
        subprocess.check_call([sys.executable, os.path.abspath(__file__), '--worker', root, out], cwd=root, env=env)
        with open(out, 'rb') as f:
            outs.append(pickle.load(f))
    a, b = outs
    assert len(a) == len(b), (len(a), len(b))
    bad = 0
    n_ok = n_exc = 0
    for (ta, va), (tb, vb) in zip(a, b):
        assert ta == tb
        if va != vb:
            bad += 1
            if bad < 20:
                print('MISMATCH', ta, '\n   orig:', str(va)[:300], '\n   edit:', str(vb)[:300])
        if va[0] == 'exc':
            n_exc += 1
        else:
            n_ok += 1
    print('%i outcomes compared (%i normal, %i exceptions), %i mismatches' % (len(a), n_ok, n_exc, bad))
    import shutil
    shutil.rmtree(tmp, ignore_errors=True)
    sys.exit(1 if bad else 0)


if __name__ == '__main__':
    if len(sys.argv) > 1 and sys.argv[1] == '--worker':
        worker(sys.argv[2], sys.argv[3])
    else:
        main()

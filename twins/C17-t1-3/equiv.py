"""Equivalence check for twin3 (guard clauses in add_series/add_signal, single write site in running_average).

Run with twin3 applied, cwd = the worktree.  Exit 0 iff original == edited everywhere.
"""
import os
import sys
import subprocess
import types
import warnings
import itertools

HERE = os.getcwd()
sys.path.insert(0, HERE)

import numpy as np
import eqsig
import eqsig.single as new_single

assert eqsig.__file__.startswith(HERE), eqsig.__file__


def load_original(relpath, modname):
    src = subprocess.check_output(['git', 'show', 'HEAD:' + relpath], cwd=HERE).decode()
    mod = types.ModuleType(modname)
    mod.__package__ = modname.rpartition('.')[0]
    mod.__file__ = '<git HEAD:%s>' % relpath
    exec(compile(src, mod.__file__, 'exec'), mod.__dict__)
    return mod


old_single = load_original('eqsig/single.py', 'eqsig._orig_single')
cur_src = open(os.path.join(HERE, 'eqsig/single.py')).read()
head_src = subprocess.check_output(['git', 'show', 'HEAD:eqsig/single.py'], cwd=HERE).decode()
assert cur_src != head_src, "twin3 is not applied"

n_checks = 0


def same(a, b, path=''):
    """Strict structural / bit-for-bit comparison."""
    if isinstance(a, np.ndarray) or isinstance(b, np.ndarray):
        assert isinstance(a, np.ndarray) and isinstance(b, np.ndarray), (path, type(a), type(b))
        assert a.dtype == b.dtype, (path, a.dtype, b.dtype)
        assert a.shape == b.shape, (path, a.shape, b.shape)
        if a.dtype == object:
            assert all(x is y or x == y for x, y in zip(a.ravel(), b.ravel())), path
        else:
            assert np.array_equal(a, b, equal_nan=a.dtype.kind in 'fc'), (path, a, b)
            if a.dtype.kind == 'f':
                assert np.array_equal(np.signbit(a), np.signbit(b)), (path, 'sign of zero')
        return
    assert type(a) is type(b), (path, type(a), type(b))
    if isinstance(a, dict):
        assert list(a.keys()) == list(b.keys()), (path, a.keys(), b.keys())
        for k in a:
            same(a[k], b[k], path + '.' + str(k))
    elif isinstance(a, (list, tuple)):
        assert len(a) == len(b), path
        for i, (x, y) in enumerate(zip(a, b)):
            same(x, y, path + '[%d]' % i)
    elif isinstance(a, float):
        assert a == b or (a != a and b != b), (path, a, b)
    else:
        assert a == b, (path, a, b)


def state(sig):
    return dict(vars(sig))


class Lazy(object):
    """An argument that has to be built with the implementation under test (e.g. a Signal to add)."""

    def __init__(self, cls_name, values, dt, pre=()):
        self.cls_name, self.values, self.dt, self.pre = cls_name, values, dt, pre

    def build(self, mod):
        with warnings.catch_warnings():
            warnings.simplefilter('ignore')
            obj = getattr(mod, self.cls_name)(np.array(self.values), self.dt)
            for name, args in self.pre:
                getattr(obj, name)(*args)
        return Built(obj)


def freeze(args):
    """Arguments as seen after the call; Signal arguments are replaced by their full state."""
    return tuple(('signal-arg', type(a.obj).__name__, state(a.obj)) if isinstance(a, Built) else a for a in args)


class Built(object):
    """Wrapper so that the log can compare the argument's state after the call (argument must stay untouched)."""

    def __init__(self, obj):
        self.obj = obj


def run(cls_name, values, dt, calls, ctor_kwargs=None):
    """Build the same object with both implementations, run the same calls, compare everything."""
    global n_checks
    ctor_kwargs = ctor_kwargs or {}
    outs = []
    for mod in (old_single, new_single):
        vals_in = values.copy() if isinstance(values, np.ndarray) else list(values)
        log = []
        with warnings.catch_warnings():
            warnings.simplefilter('ignore')
            try:
                sig = getattr(mod, cls_name)(vals_in, dt, **ctor_kwargs)
            except Exception as e:  # constructor failure must match as well
                outs.append((('ctor-exc', type(e).__name__, str(e)), None, vals_in))
                continue
            held = sig.values  # a reference held by a caller
            for name, args, kwargs in calls:
                args = tuple(a.copy() if isinstance(a, np.ndarray) else a.build(mod) if isinstance(a, Lazy) else a
                             for a in args)
                try:
                    call_args = tuple(a.obj if isinstance(a, Built) else a for a in args)
                    call_kwargs = {k: a.build(mod).obj if isinstance(a, Lazy) else a for k, a in kwargs.items()}
                    ret = getattr(sig, name)(*call_args, **call_kwargs)
                    log.append(('ok', ret, freeze(args), sig.values.copy(), sig.values is held, held.copy()))
                except Exception as e:
                    log.append(('exc', type(e).__name__, str(e), freeze(args), sig.values.copy(), sig.values is held,
                                held.copy()))
        outs.append((log, state(sig), vals_in))
    (log_o, st_o, in_o), (log_n, st_n, in_n) = outs
    same(log_o, log_n, 'log')
    same(st_o, st_n, 'state')
    same(in_o, in_n, 'ctor-arg')
    n_checks += 1
    return log_o


rng = np.random.RandomState(3717)


def record(n, kind):
    if kind == 0:
        return rng.randn(n)
    if kind == 1:
        return (rng.randn(n) * 50).astype(int)
    if kind == 2:
        return list(rng.randn(n))
    if kind == 3:
        return rng.randn(n).astype(np.float32)
    if kind == 4:
        return np.zeros(n)
    if kind == 5:
        return [int(v) for v in rng.randint(-9, 9, n)]
    if kind == 6:
        return rng.randint(-100, 100, n).astype(np.int16)
    return np.cumsum(rng.randn(n))


# ---------------------------------------------------------------- running_average: every width 1..25 (and beyond)
for n in [0, 1, 2, 3, 4, 5, 6, 7, 8, 11, 12, 13, 24, 25, 26, 27, 50, 51, 200]:
    for width in list(range(0, 31)) + [49, 50, 51, 52, 199, 200, 201, 400, 1000]:
        for kind in (0, 1):
            log = run('Signal', record(n, kind), 0.01, [('running_average', (width,), {})])
            assert log[0][0] == 'ok', log[0][:3]
            assert log[0][4] is True  # written in place: a caller's reference to .values sees the result
for trial in range(400):
    n = int(rng.choice([1, 2, 3, 9, 10, 40, 64, 301]))
    values = record(n, trial % 8)
    w1, w2 = int(rng.randint(1, 26)), int(rng.randint(1, 26))
    cls_name = 'AccSignal' if trial % 2 else 'Signal'
    h = trial % 4
    if h == 0:
        calls = [('running_average', (), {'width': w1})]
    elif h == 1:
        calls = [('running_average', (w1,), {}), ('running_average', (w2,), {}), ('running_average', (), {})]
    elif h == 2:
        calls = [('gen_fa_spectrum', (), {}), ('running_average', (w1,), {}), ('add_constant', (0.25,), {}),
                 ('running_average', (w2,), {}), ('gen_fa_spectrum', (), {})]
    else:
        calls = [('reset_values', (record(n + 3, (trial + 1) % 8),), {}), ('running_average', (w1,), {}),
                 ('remove_poly', (1,), {}), ('running_average', (w2,), {})]
    log = run(cls_name, values, 0.01, calls)
    assert all(entry[0] == 'ok' for entry in log)
# widths outside the documented domain: same result or same exception, same partial state
for width in [-1, -2, -5, -30, 2.0, 2.5, 3.7, 0.5, np.int64(5), np.float64(4.0), np.float32(7), True, False,
              np.nan, np.inf, -np.inf, 1e300, 'a', None, [3], (3,), np.array(3), np.array([3]), 3 + 0j, 10 ** 400]:
    for n in (0, 1, 6, 30):
        for kind in (0, 1, 2):
            with np.errstate(all='ignore'):
                run('Signal', record(n, kind), 0.01, [('running_average', (width,), {}),
                                                      ('running_average', (3,), {})])
# complex, 2-D, non-finite and object records
for values in [rng.randn(20) + 1j * rng.randn(20), rng.randn(12, 3), np.array([1.0, np.nan, 2.0, np.inf, 3.0, -np.inf, 0]),
               np.array([True, False, True, True]), np.array([1, 2.5, None, 3], dtype=object),
               np.array(['a', 'b', 'c'])]:
    for width in (1, 2, 3, 6):
        with np.errstate(all='ignore'):
            run('Signal', values, 0.01, [('running_average', (width,), {})])
# AccSignal: derived quantities and the (untouched) remove_rolling_average around it
for width in (1, 4, 9, 25):
    run('AccSignal', rng.randn(300), 0.01, [('generate_response_spectrum', (), {}), ('running_average', (width,), {}),
                                            ('remove_rolling_average', (), {}), ('running_average', (width,), {}),
                                            ('gen_fa_spectrum', (), {})])

# ---------------------------------------------------------------- add_constant / add_series / add_signal
n_ok = n_exc = 0
for trial in range(900):
    n = int(rng.choice([0, 1, 2, 3, 10, 77, 256]))
    values = record(n, trial % 8)
    dt = float(rng.choice([0.01, 0.005, 0.1]))
    cls_name = 'AccSignal' if trial % 2 else 'Signal'
    other_cls = 'AccSignal' if (trial // 2) % 2 else 'Signal'
    m = n if rng.rand() < 0.7 else int(rng.choice([0, 1, n + 1, max(n - 1, 0), 2 * n + 1]))
    other_dt = dt if rng.rand() < 0.7 else float(rng.choice([0.02, dt * (1 + 2 ** -52), dt * 2, np.nan]))
    pre = [(), (('running_average', (3,)),), (('gen_fa_spectrum', ()),)][trial % 3] if m else ()
    series = record(m, (trial + 3) % 8)
    if trial % 11 == 0:
        series = tuple(series)
    const = [1.5, 2, np.float32(0.1), np.int64(3), -0.0, True, 1j, rng.randn(n), np.nan][trial % 9]
    h = trial % 5
    if h == 0:
        calls = [('add_series', (series,), {})]
    elif h == 1:
        calls = [('add_signal', (Lazy(other_cls, record(m, 0), other_dt, pre),), {})]
    elif h == 2:
        calls = [('add_constant', (const,), {}), ('add_series', (series,), {}), ('add_constant', (), {'constant': -1})]
    elif h == 3:
        calls = [('gen_fa_spectrum', (), {}),
                 ('add_signal', (), {'new_signal': Lazy(other_cls, record(m, 1), other_dt, pre)}),
                 ('add_series', (), {'series': series}),
                 ('add_signal', (Lazy(other_cls, record(n, 0), dt),), {}),
                 ('running_average', (int(rng.randint(1, 26)),), {})]
    else:
        calls = [('add_series', (series,), {}), ('add_series', (series,), {}),
                 ('add_signal', (Lazy(cls_name, record(m, 3), other_dt, pre),), {}), ('remove_average', (), {})]
    log = run(cls_name, values, dt, calls)
    n_ok += sum(e[0] == 'ok' for e in log)
    n_exc += sum(e[0] == 'exc' for e in log)
assert n_ok > 900 and n_exc > 150, (n_ok, n_exc)
# things that are not series / not signals
base = rng.randn(8)
for arg in [None, 5, 2.5, 'abcdefgh', 'abc', b'12345678', {1: 2}, range(8), range(3), iter([1, 2]), np.array(3.0),
            rng.randn(8, 1), rng.randn(8, 2), rng.randn(1, 8), [[1]] * 8, [None] * 8, ['a'] * 8, np.arange(8) * 1j,
            np.array([True] * 8), rng.randn(8), list(base), object()]:
    run('Signal', base, 0.01, [('add_series', (arg,), {}), ('add_signal', (arg,), {}), ('add_constant', (arg,), {})])
    run('AccSignal', base.astype(int), 0.01, [('add_signal', (arg,), {}), ('add_series', (arg,), {})])
# duck-typed look-alike is "not a Signal object"
run('Signal', base, 0.01, [('add_signal', (types.SimpleNamespace(values=rng.randn(8), dt=0.01, npts=8),), {})])
# time-step comparisons of different numeric types
for dt_a, dt_b in [(0.01, np.float64(0.01)), (0.01, np.float32(0.01)), (1, 1.0), (1, True), (0.5, np.float32(0.5)),
                   (0.01, 0.01 + 1e-18), (0.01, 0.010000000000000002), (np.nan, np.nan), (0.01, '0.01'),
                   (0.01, None), (np.inf, np.inf), (0.0, -0.0)]:
    run('Signal', base, dt_a, [('add_signal', (Lazy('Signal', base[::-1], dt_b),), {})])
    run('AccSignal', base, dt_b, [('add_signal', (Lazy('Signal', base[::-1], dt_a),), {})])

# signatures / docs unchanged
import inspect
for name in ('add_constant', 'add_series', 'add_signal', 'running_average'):
    f_o, f_n = getattr(old_single.Signal, name), getattr(new_single.Signal, name)
    assert str(inspect.signature(f_o)) == str(inspect.signature(f_n)), name
    assert f_o.__doc__ == f_n.__doc__, name

print('equiv3: %d object histories compared, all identical' % n_checks)

"""
Equivalence check for a behaviour-preserving edit of eqsig (property C14: resampling).

Run with the edit applied and cwd = the worktree.  The ORIGINAL package is extracted from git
(`git archive HEAD eqsig`) into a temporary directory; this file then runs itself twice as a worker
subprocess - once against the original, once against the edited worktree - over the same
deterministic battery of inputs, and compares the two result logs for exact (bit-for-bit) equality:
values, dtypes, shapes, scalar types, exceptions, argument mutation and object state.

Exit status 0 iff everything matches.
"""
import os
import pickle
import subprocess
import sys
import tempfile

PY = sys.executable
HERE = os.getcwd()


# --------------------------------------------------------------------------------------------
# worker
# --------------------------------------------------------------------------------------------

def enc(x, depth=0):
    """Encode a result as a plain, exactly comparable structure"""
    import numpy as np
    if depth > 6:
        return ('deep', type(x).__name__)
    if isinstance(x, np.ndarray):
        return ('nd', x.dtype.str, x.shape, np.ascontiguousarray(x).tobytes())
    if isinstance(x, (bool, np.bool_)):
        return (type(x).__name__, bool(x))
    if isinstance(x, (float, np.floating)):
        return (type(x).__name__, float(x).hex())
    if isinstance(x, (int, np.integer)):
        return (type(x).__name__, int(x))
    if isinstance(x, complex):
        return ('complex', x.real.hex(), x.imag.hex())
    if isinstance(x, str) or x is None:
        return x
    if isinstance(x, (tuple, list)):
        return (type(x).__name__, [enc(v, depth + 1) for v in x])
    if isinstance(x, dict):
        return ('dict', [(str(k), enc(x[k], depth + 1)) for k in sorted(x, key=str)])
    if isinstance(x, BaseException):
        ctx = x.__context__
        return ('exc', type(x).__name__, str(x), None if ctx is None else (type(ctx).__name__, str(ctx)),
                x.__suppress_context__)
    if hasattr(x, '__dict__') and type(x).__module__.startswith('eqsig'):
        return ('obj', type(x).__name__, enc(dict(vars(x)), depth + 1))
    return ('other', type(x).__name__, repr(x))


def worker(root, out_path):
    sys.path.insert(0, root)
    import warnings
    warnings.simplefilter('ignore')
    import numpy as np
    import eqsig
    import eqsig.single
    from eqsig.fns import time_step as ts
    assert os.path.realpath(eqsig.__file__).startswith(os.path.realpath(root)), (eqsig.__file__, root)

    log = []

    def attempt(tag, fn):
        try:
            res = fn()
        except BaseException as e:  # noqa
            res = e
        log.append((tag, enc(res)))
        return res

    rng = np.random.RandomState(1234)

    # ---------------- array level -------------------------------------------------------------
    def value_variants():
        out = []
        for n in (2, 3, 4, 5, 7, 10, 11, 16, 33, 64, 101, 250):
            out.append(('rand%i' % n, rng.randn(n)))
        out.append(('list9', list(rng.randn(9))))
        out.append(('tuple12', tuple(rng.randn(12))))
        out.append(('int13', rng.randint(-50, 50, size=13)))
        out.append(('intlist8', [3, -1, 4, 1, -5, 9, 2, -6]))
        out.append(('zeros20', np.zeros(20)))
        out.append(('f32_15', rng.randn(15).astype(np.float32)))
        out.append(('const6', np.full(6, 2.5)))
        out.append(('ramp40', np.arange(40.0)))
        out.append(('sin128', np.sin(2 * np.pi * 3 * np.arange(128) / 128)))
        out.append(('empty', np.zeros(0)))
        out.append(('one', np.array([1.5])))
        out.append(('noncontig', rng.randn(60)[::3]))
        return out

    dts = [0.01, 0.005, 0.02, 0.0125, 0.1, 1.0, 0.3, np.float64(0.01), np.float64(0.04), 1, 2]
    targets = [0.01, 0.005, 0.003, 0.0025, 0.02, 0.03, 0.07, 0.1, 1.0 / 3, 0.0125, 0.3, 1.0, 3.0,
               np.float64(0.02), np.float64(0.003), 1, 5, 0.0099999999, 0.010000001]
    variants = value_variants()
    for vname, vals in variants:
        for dt in dts:
            for tdt in targets:
                for even in (True, False):
                    if isinstance(vals, np.ndarray):
                        before = vals.copy()
                    else:
                        before = list(vals)
                    tag = ('arr', vname, repr(dt), repr(tdt), even)
                    attempt(tag, lambda: ts.interp_array_to_approx_dt(vals, dt, target_dt=tdt, even=even))
                    if isinstance(vals, np.ndarray):
                        same = np.array_equal(before, vals) and before.dtype == vals.dtype
                    else:
                        same = before == list(vals)
                    log.append((tag + ('arg-unchanged',), bool(same)))
    # defaults and positional forms
    v = rng.randn(50)
    attempt(('arr', 'defaults'), lambda: ts.interp_array_to_approx_dt(v, 0.02))
    attempt(('arr', 'positional'), lambda: ts.interp_array_to_approx_dt(v, 0.02, 0.005, False))
    attempt(('arr', 'random-pairs'), lambda: [
        ts.interp_array_to_approx_dt(rng.randn(rng.randint(2, 80)), float(a), float(b), bool(e))
        for a, b, e in zip(rng.uniform(0.001, 0.2, 300), rng.uniform(0.001, 0.2, 300), rng.randint(0, 2, 300))])
    # result is a fresh array (not aliasing the input) when dt == target
    w = rng.randn(12)
    r = ts.interp_array_to_approx_dt(w, 0.01, 0.01)
    log.append((('arr', 'alias'), bool(np.shares_memory(r[0], w))))

    # ---------------- object level ------------------------------------------------------------
    def snapshot(sig):
        return enc(dict(vars(sig)))

    obj_dts = [0.01, 0.005, 0.02, 0.1, np.float64(0.01), 1]
    obj_targets = [0.01, 0.005, 0.003, 0.02, 0.03, 0.07, 0.25, 1, np.float64(0.02)]
    for cls_name in ('AccSignal', 'Signal'):
        cls = getattr(eqsig, cls_name)
        for vname, vals in variants:
            if vname in ('rand2', 'rand5', 'rand101', 'f32_15', 'const6', 'ramp40', 'tuple12', 'noncontig'):
                continue
            for dt in obj_dts:
                for tdt in obj_targets:
                    for even in (True, False):
                        for fname in ('interp_to_approx_dt', 'resample_to_approx_dt'):
                            tag = ('obj', cls_name, vname, repr(dt), repr(tdt), even, fname)
                            try:
                                sig = cls(vals, dt)
                            except BaseException as e:  # noqa
                                log.append((tag + ('ctor',), enc(e)))
                                continue
                            s0 = snapshot(sig)
                            fn = getattr(ts, fname)
                            res = attempt(tag, lambda: fn(sig, target_dt=tdt, even=even))
                            log.append((tag + ('input-state',), snapshot(sig) == s0))
                            if not isinstance(res, BaseException):
                                log.append((tag + ('no-alias',), bool(np.shares_memory(res.values, sig.values))))
    # defaults, package-level names, and multi-step histories
    sig = eqsig.AccSignal(np.sin(np.arange(200) * 0.3) + 0.1 * rng.randn(200), 0.02, label='hist')
    attempt(('hist', 0), lambda: ts.interp_to_approx_dt(sig))
    attempt(('hist', 1), lambda: ts.resample_to_approx_dt(sig))
    attempt(('hist', 2), lambda: eqsig.interp_to_approx_dt(sig, 0.007))
    attempt(('hist', 3), lambda: eqsig.resample_to_approx_dt(sig, 0.05, even=False))
    _ = sig.fa_spectrum, sig.smooth_fa_spectrum, sig.s_a, sig.velocity, sig.pga
    attempt(('hist', 4), lambda: ts.resample_to_approx_dt(sig, 0.004))
    log.append((('hist', 4, 'state'), snapshot(sig)))
    sig.reset_values(sig.values[:151] * 2)
    attempt(('hist', 5), lambda: ts.resample_to_approx_dt(sig, 0.006))
    attempt(('hist', 6), lambda: ts.interp_to_approx_dt(sig, 0.05, even=True))
    attempt(('hist', 7), lambda: ts.interp_to_approx_dt(sig, 0.05, even=False))
    log.append((('hist', 7, 'state'), snapshot(sig)))
    # chained: refine, then decimate back (retained samples)
    a1 = ts.interp_to_approx_dt(sig, 0.004)
    a2 = ts.interp_to_approx_dt(a1, sig.dt)
    a3 = ts.resample_to_approx_dt(ts.resample_to_approx_dt(sig, 0.01), 0.02)
    log.append((('hist', 'chain'), enc([a1, a2, a3])))

    # ---------------- consumer: AccSignal.gen_response_spectrum -------------------------------
    import eqsig.sdof
    real_prs = eqsig.sdof.pseudo_response_spectra
    seen = []

    def spy(acc, dt, periods, xi):
        seen.append((acc, dt, periods, xi))
        return real_prs(acc, dt, periods, xi)

    eqsig.single.dh.pseudo_response_spectra = spy
    rt_sets = [None, np.array([0.1, 0.5, 1.0]), np.array([0.0, 0.2, 1.0]), [0.3, 0.6], np.array([0.05]),
               np.array([2.0, 3.0]), np.array([0.0]), np.array([0.0, 0.0, 1.0]), np.logspace(-2, 1, 7),
               np.array([0.01, 4.0])]
    for k, rts in enumerate(rt_sets):
        for dt in (0.01, 0.05, np.float64(0.02), 0.005):
            for ratio in (4, 1, 0.5, 10, 3.7):
                for xi in (-1, 0.02):
                    for vals in (variants[5][1], variants[13][1], variants[17][1]):
                        tag = ('rs', k, repr(dt), ratio, xi, len(vals))
                        sig = eqsig.AccSignal(vals, dt)
                        del seen[:]
                        attempt(tag, lambda: sig.gen_response_spectrum(response_times=rts, xi=xi, min_dt_ratio=ratio))
                        log.append((tag + ('state',), snapshot(sig)))
                        log.append((tag + ('passed',), enc([(a, d, p, x) for a, d, p, x in seen])))
                        log.append((tag + ('same-object',), [a is sig.values for a, d, p, x in seen]))
    # history on one object: spectrum, new periods, reset values, spectrum again through the property
    sig = eqsig.AccSignal(np.cos(np.arange(300) * 0.2) * np.hanning(300), 0.02)
    attempt(('rs-hist', 0), lambda: sig.s_a)
    sig.response_times = np.array([0.04, 0.4, 2.0])
    attempt(('rs-hist', 1), lambda: (sig.s_d, sig.s_v, sig.s_a))
    attempt(('rs-hist', 2), lambda: sig.generate_response_spectrum(xi=0.1, min_dt_ratio=8))
    sig.reset_values(rng.randn(77))
    attempt(('rs-hist', 3), lambda: sig.s_v)
    log.append((('rs-hist', 'state'), snapshot(sig)))
    attempt(('rs-hist', 4), lambda: sig.response_series(response_times=np.array([0.3, 1.0])))
    sigv = eqsig.AccSignal(rng.randn(40), 0.01, verbose=1)
    attempt(('rs-verbose',), lambda: sigv.gen_response_spectrum())

    # failure of the SDOF solver: out of memory is re-worded, anything else passes through
    def boom_mem(acc, dt, periods, xi):
        raise MemoryError('original message')

    def boom_val(acc, dt, periods, xi):
        raise ValueError('other failure')

    for boom in (boom_mem, boom_val):
        for dt, rts in ((0.01, None), (0.05, np.array([0.1, 1.0])), (0.01, np.array([0.0, 0.01]))):
            eqsig.single.dh.pseudo_response_spectra = boom
            sig = eqsig.AccSignal(rng.randn(64), dt)
            s0 = snapshot(sig)
            attempt(('rs-boom', boom.__name__, dt), lambda: sig.gen_response_spectrum(response_times=rts))
            log.append((('rs-boom', boom.__name__, dt, 'state'), snapshot(sig)))
            # the object still works afterwards
            eqsig.single.dh.pseudo_response_spectra = spy
            attempt(('rs-boom', boom.__name__, dt, 'after'), lambda: sig.s_a)
            log.append((('rs-boom', boom.__name__, dt, 'state-after'), snapshot(sig)))
    eqsig.single.dh.pseudo_response_spectra = real_prs

    with open(out_path, 'wb') as f:
        pickle.dump(log, f)


# --------------------------------------------------------------------------------------------
# driver
# --------------------------------------------------------------------------------------------

def main():
    tmp = tempfile.mkdtemp(prefix='c14_equiv_', dir='/tmp')
    subprocess.check_call('git archive HEAD eqsig | tar -x -C %s' % tmp, shell=True, cwd=HERE)
    assert os.path.isfile(os.path.join(tmp, 'eqsig', 'fns', 'time_step.py'))
    logs = []
    for root, name in ((tmp, 'orig'), (HERE, 'edit')):
        out_path = os.path.join(tmp, name + '.pkl')
        env = dict(os.environ)
        env.pop('PYTHONPATH', None)
        env['PYTHONDONTWRITEBYTECODE'] = '1'
        subprocess.check_call([PY, os.path.abspath(__file__), '--worker', root, out_path], cwd=root, env=env)
        with open(out_path, 'rb') as f:
            logs.append(pickle.load(f))
    orig, edit = logs
    assert len(orig) == len(edit), (len(orig), len(edit))
    bad = 0
    n_exc = 0
    for (t0, r0), (t1, r1) in zip(orig, edit):
        assert t0 == t1, (t0, t1)
        if isinstance(r0, tuple) and r0 and r0[0] == 'exc':
            n_exc += 1
        if r0 != r1:
            bad += 1
            if bad <= 10:
                print('MISMATCH', t0)
                print('   orig:', str(r0)[:300])
                print('   edit:', str(r1)[:300])
    print('%i records compared (%i of them exceptions), %i mismatches' % (len(orig), n_exc, bad))
    import shutil
    shutil.rmtree(tmp, ignore_errors=True)
    return 1 if bad else 0


if __name__ == '__main__':
    if len(sys.argv) > 1 and sys.argv[1] == '--worker':
        worker(sys.argv[2], sys.argv[3])
    else:
        sys.exit(main())

"""Equivalence program for a behaviour-preserving edit of eqsig/fns/peaks_and_crossings.py.

Run with the edit applied and cwd = the worktree:

    cd <worktree> && PYTHONPATH=<worktree> python out/equivK.py

The ORIGINAL package is obtained with `git archive HEAD eqsig` into a temporary
directory.  The same deterministic workload is then executed in two separate
subprocesses (one importing the original package, one importing the edited
package found in os.getcwd()).  Every call outcome (returned values with dtype,
shape and raw bytes; exception type and message; state of the arguments after
the call; warnings raised) is recorded and the two records are compared
bit-for-bit.  Exit status 0 iff everything matches.
"""
import hashlib
import io
import itertools
import os
import pickle
import subprocess
import sys
import tarfile
import tempfile
import time


# --------------------------------------------------------------------------------------
# worker (runs in a subprocess, imports whichever `eqsig` is first on sys.path)
# --------------------------------------------------------------------------------------

def _enc(obj):
    """Encode an outcome into a nested, exactly comparable structure."""
    import numpy as np
    if isinstance(obj, np.ndarray):
        if obj.dtype.hasobject:
            return ('ndo', type(obj).__name__, obj.shape, repr(obj.tolist()))
        return ('nd', type(obj).__name__, obj.dtype.str, obj.shape, np.ascontiguousarray(obj).tobytes())
    if isinstance(obj, np.generic):
        return ('ns', obj.dtype.str, obj.tobytes())
    if isinstance(obj, tuple):
        return ('tu',) + tuple(_enc(o) for o in obj)
    if isinstance(obj, list):
        return ('li',) + tuple(_enc(o) for o in obj)
    if isinstance(obj, (bool, int, float, str, type(None))):
        return ('py', type(obj).__name__, repr(obj))
    if isinstance(obj, dict):
        return ('di',) + tuple((repr(k), _enc(v)) for k, v in obj.items())
    return ('ob', type(obj).__name__, repr(obj))


def _digest(enc):
    return hashlib.sha256(pickle.dumps(enc, protocol=4)).digest()[:12]


def worker(expected_root, out_path, shard, nshards):
    import copy
    import inspect
    import warnings
    import numpy as np
    import eqsig
    import eqsig.fns
    import eqsig.fns.peaks_and_crossings as pc
    import eqsig.im

    here = os.path.realpath(os.path.dirname(os.path.dirname(eqsig.__file__)))
    assert here == os.path.realpath(expected_root), (here, expected_root)

    records = {}   # case id -> digest
    order = []

    wctx = warnings.catch_warnings(record=True)
    wlist = wctx.__enter__()          # one recorder for the whole run (kept open on purpose)
    warnings.simplefilter('always')

    def _cp(o):
        return o.copy() if type(o) is np.ndarray else copy.deepcopy(o)

    counter = [0]

    def unit():
        """Work units are dealt round-robin to the shards (all shards generate the same inputs)."""
        counter[0] += 1
        return counter[0] % nshards == shard

    def call(cid, fn, *args, **kwargs):
        """Call fn on private copies of args; record outcome, warnings and post-call argument state."""
        args = tuple(_cp(a) for a in args)
        kwargs = dict((k, _cp(v)) for k, v in kwargs.items())
        del wlist[:]
        try:
            res = ('ok', _enc(fn(*args, **kwargs)))
        except Exception as e:  # the outcome IS the exception
            res = ('exc', type(e).__name__, str(e))
        wrec = tuple(sorted((w.category.__name__, str(w.message)) for w in wlist))
        post = tuple(_enc(a) for a in args) + tuple((k, _enc(v)) for k, v in sorted(kwargs.items()))
        assert cid not in records, cid
        records[cid] = _digest((res, wrec, post))
        order.append(cid)

    def core_battery(cid, v):
        """Exactly what the property observes."""
        call((cid, 'gpai', 'default'), pc.get_peak_array_indices, v)
        call((cid, 'gpai', 'max'), pc.get_peak_array_indices, v, 'max')
        call((cid, 'gpai', 'min'), pc.get_peak_array_indices, v, ptype='min')
        call((cid, 'ncyc', 'all', 'origin'), pc.get_n_cyc_array, v)

    def full_battery(cid, v, light=False):
        """Everything the property observes, plus helpers, on one series."""
        call((cid, 'gpai', 'all'), pc.get_peak_array_indices, v, ptype='all')
        core_battery(cid, v)
        call((cid, 'ncyc', 'all', 'peak'), pc.get_n_cyc_array, v, opt='all', start='peak')
        call((cid, 'clean'), pc.clean_out_non_changing, v)
        call((cid, 'det'), pc.determine_indices_of_peaks_for_cleaned_array, v)
        if light:
            return
        call((cid, 'ncyc', 'sw', 'origin'), pc.get_n_cyc_array, v, 'switched', 'origin')
        call((cid, 'ncyc', 'sw', 'peak'), pc.get_n_cyc_array, v, opt='switched', start='peak')
        call((cid, 'swi'), pc.get_switched_peak_array_indices, v)
        call((cid, 'swi', 'tol'), pc.get_switched_peak_array_indices, v, tol=0.6)
        call((cid, 'pod'), pc.determine_peaks_only_delta_series, v)
        call((cid, 'pcy'), pc.determine_pseudo_cyclic_peak_only_series, v)
        call((cid, 'det_old'), pc.determine_indices_of_peaks_for_cleaned, v)
        call((cid, 'pod4'), pc.determine_peak_only_delta_series_4_cleaned_data, v)
        call((cid, 'pcy4'), pc._determine_peak_only_series_4_cleaned_data, v)
        call((cid, 'zpi'), pc.get_zero_and_peak_array_indices, v)
        call((cid, 'gpi'), pc.get_peak_indices, _SigHolder(v))
        call((cid, 'gswi'), pc.get_switched_peak_indices, _SigHolder(v))

    class _SigHolder(object):
        def __init__(self, values):
            self.values = values

        def __deepcopy__(self, memo):
            return _SigHolder(copy.deepcopy(self.values, memo))

        def __repr__(self):
            return 'Sig'

    # ---- 0. namespace / signatures (every shard, keyed by shard) ---------------------
    pub = lambda mod: sorted(n for n in dir(mod) if not n.startswith('_'))
    records[('ns', 'fns') + (shard,)] = _digest(_enc(pub(eqsig.fns)))
    records[('ns', 'pc') + (shard,)] = _digest(_enc(pub(pc)))
    records[('ns', 'eqsig') + (shard,)] = _digest(_enc(pub(eqsig)))
    sigs = []
    for n in pub(pc):
        o = getattr(pc, n)
        if inspect.isfunction(o):
            sigs.append((n, str(inspect.signature(o)), o.__module__, o.__doc__))
    records[('ns', 'sigs') + (shard,)] = _digest(_enc(sigs))
    records[('ns', 'same_obj') + (shard,)] = _digest(_enc([getattr(eqsig.fns, n) is getattr(pc, n) for n in pub(pc)]))

    # ---- 1. exhaustive: all sequences over a 5-level alphabet up to length 6 ---------
    levels = (-2.0, -1.0, 0.0, 1.0, 2.5)
    for n in range(1, 7):
        for seq in itertools.product(levels, repeat=n):
            if not unit():
                continue
            if n <= 5:
                full_battery(('ex5', seq), np.array(seq), light=(n > 4))
            else:
                core_battery(('ex5', seq), np.array(seq))
    # ---- 2. every rise/fall/flat pattern up to length 9 (3^(n-1) patterns), 3 offsets ---
    for n in range(2, 10):
        for k, pat in enumerate(itertools.product((-1, 0, 1), repeat=n - 1)):
            steps = np.array(pat, dtype=float)
            for off in ((0.0, 1.5, -3.0) if n <= 7 else ((0.0, 1.5, -3.0)[k % 3],)):
                v = off + np.concatenate(([0.0], np.cumsum(steps * (1.0 + 0.25 * np.arange(n - 1)))))
                if not unit():
                    continue
                if n <= 7:
                    full_battery(('pat', n, pat, off), v, light=True)
                else:
                    core_battery(('pat', n, pat, off), v)
    # ---- 3. exhaustive 3-level alphabet, length 7; random 5-level length 7, 8 ----
    for n in (7,):
        for seq in itertools.product((-1.0, 0.0, 2.0), repeat=n):
            if not unit():
                continue
            core_battery(('ex3', seq), np.array(seq))
    rng = np.random.RandomState(20240911)
    for i in range(1500):
        n = 7 + (i % 2)
        seq = tuple(np.array(levels)[rng.randint(0, 5, size=n)])
        if unit():
            full_battery(('rnd5', i, seq), np.array(seq), light=True)

    # ---- 4. input forms: list / tuple / int-typed arrays / float32 / non-contiguous ------
    for i in range(250):
        n = int(rng.randint(1, 14))
        iv = rng.randint(-3, 4, size=n)
        forms = [
            ('list_int', [int(x) for x in iv]),
            ('tuple_int', tuple(int(x) for x in iv)),
            ('list_float', [float(x) * 0.5 for x in iv]),
            ('list_mixed', [int(x) if j % 2 else float(x) for j, x in enumerate(iv)]),
            ('i64', iv.astype(np.int64)),
            ('i32', iv.astype(np.int32)),
            ('i8', iv.astype(np.int8)),
            ('f32', (iv * 0.3).astype(np.float32)),
            ('f64_strided', np.repeat(iv.astype(float), 2)[::2]),
            ('f64_rev', iv.astype(float)[::-1]),
            ('bool', iv > 0),
            ('u8', (iv + 3).astype(np.uint8)),
        ]
        for name, v in forms:
            if unit():
                full_battery(('form', i, name), v, light=(i % 3 != 0))

    # ---- 5. random real-valued and plateau-rich series, long ones included ---------------
    lengths = [2, 3, 4, 5, 7, 10, 17, 33, 64, 100, 257, 1000, 2500, 5000]
    for i in range(700):
        n = lengths[i % len(lengths)] if i < 140 else int(rng.randint(2, 400))
        kind = i % 7
        if kind == 0:
            v = rng.randn(n)
        elif kind == 1:
            v = np.round(rng.randn(n) * 2.0)            # plateau rich, many exact ties
        elif kind == 2:
            v = np.repeat(rng.randn(n // 3 + 1), 3)[:n]  # plateaus of length 3
        elif kind == 3:
            v = np.cumsum(rng.randint(-1, 2, size=n)).astype(float)
        elif kind == 4:
            v = np.sin(np.arange(n) * 0.37) * np.exp(-np.arange(n) * 0.001) + 0.2
        elif kind == 5:
            v = np.concatenate((np.zeros(n // 2), rng.randn(n - n // 2), np.zeros(3)))  # flat start / end
        else:
            v = np.concatenate((np.full(n // 3 + 1, 0.7), np.round(rng.randn(n), 1)))   # non-zero flat start
        if unit():
            full_battery(('rand', i), v, light=(n > 400 or i % 2 == 1))

    # ---- 6. numerically awkward values -------------------------------------------------
    tiny = 1e-200
    huge = 1e200
    specials = [
        [0.0, tiny, 0.0, tiny], [tiny, 0.0, tiny], [0.0, huge, -huge, huge], [huge, -huge, huge, -huge],
        [0.0, 5e-324, 0.0, 5e-324, 1.0], [1.0, 1.0 + 2.2e-16, 1.0, 1.0 + 2.2e-16],
        [-0.0, 0.0, -0.0, 1.0, -0.0], [0.0, -0.0, 0.0], [np.nan, 1.0, 2.0, 1.0], [1.0, np.nan, 2.0, 1.0, 3.0],
        [1.0, 2.0, np.nan], [np.nan, np.nan, np.nan], [np.inf, np.inf, 1.0, np.inf], [1.0, np.inf, np.inf, 0.0, 1.0],
        [-np.inf, 1.0, -np.inf, np.inf], [0.0, np.inf, -np.inf, np.inf, 0.0], [1e308, -1e308, 1e308],
        [3.0], [0.0], [-1.0], [3.0, 3.0], [0.0, 0.0], [0.0, 0.0, 0.0, 0.0], [2.0, 2.0, 2.0], [0.0, 1.0], [1.0, 0.0],
        [1.0, 1.0, 0.0], [0.0, 0.0, 1.0], [1.0, 1.0, 2.0], [1.0, 1.0, 2.0, 2.0, 1.0, 1.0],
        [0, 2, 1, 2, -1, 1, 1, 0.3, -1, 0.2, 1, 0.2], [0, 2, 1, 2, 0, 1, 0, -1, 0, 1, 0],
    ]
    for i, s in enumerate(specials):
        if unit():
            full_battery(('spec', i, 'arr'), np.array(s, dtype=float))
            full_battery(('spec', i, 'list'), list(s))
    # ---- 7. inputs outside the domain: identical failures expected -----------------------
    bad = [
        ('empty_list', []), ('empty_arr', np.array([])), ('empty_int', np.array([], dtype=int)),
        ('scalar', 3.0), ('int_scalar', 2), ('zero_d', np.array(1.5)), ('none', None), ('str', 'abc'),
        ('list_str', ['a', 'b']), ('two_d', np.array([[0.0, 1.0, 0.0], [2.0, 1.0, 3.0]])),
        ('two_d_list', [[1.0, 2.0], [0.0, 3.0]]), ('col', np.array([[0.0], [1.0], [0.0]])),
        ('cplx', np.array([1 + 1j, 2.0, 1.0])), ('obj', np.array([1, 2.5, 1], dtype=object)),
        ('ragged', [1.0, [2.0, 3.0]]), ('dict', {0: 1.0}), ('range', range(5)), ('gen_list', [None, 1.0]),
    ]
    for name, v in bad:
        if unit():
            full_battery(('bad', name), v)
    # option values
    vv = np.array([0.0, 1.0, 1.0, -2.0, 3.0, 3.0, 0.5, 0.5])
    wv = np.array([1.0, 1.0, 0.0, 2.0, 2.0, -1.0])
    for v_name, v in (('vv', vv), ('wv', wv), ('empty', np.array([])), ('const', np.ones(4))):
        if not unit():
            continue
        for pt in ('all', 'max', 'min', 'MAX', 'Min', '', None, 0, 1, True, 'maximum', b'max', np.str_('max'),
                   np.str_('min'), ('max',), ['min'], 2.5):
            call(('opt', v_name, 'ptype', repr(pt)), pc.get_peak_array_indices, v, pt)
            call(('opt', v_name, 'ptype_kw', repr(pt)), pc.get_peak_array_indices, values=v, ptype=pt)
        for opt in ('all', 'switched', 'ALL', 'max', '', None, 0, np.str_('all'), np.str_('switched'), ['all'], ('all',)):
            for start in ('origin', 'peak', 'Origin', 'start', '', None, 0, np.str_('origin'), np.str_('peak'),
                          ['peak'], ('origin',), 0.0, -0.25):
                call(('opt', v_name, 'ncyc', repr(opt), repr(start)), pc.get_n_cyc_array, v, opt, start)
                call(('opt', v_name, 'ncyc_kw', repr(opt), repr(start)), pc.get_n_cyc_array, values=v, opt=opt,
                     start=start)
    if shard == 0:
        call(('opt', 'noargs'), pc.get_peak_array_indices)
        call(('opt', 'noargs_n'), pc.get_n_cyc_array)
        call(('opt', 'extra'), pc.get_peak_array_indices, vv, 'max', 3)
        call(('opt', 'badkw'), pc.get_n_cyc_array, vv, option='all')

    # ---- 8. histories: repeated / interleaved calls, results must not alias or be cached ----
    base = np.round(rng.randn(60), 1)
    hist = []
    a = np.array(base)
    for rep in range(40 if shard == 0 else 0):
        r_all = pc.get_peak_array_indices(a)
        r_max = pc.get_peak_array_indices(a, 'max')
        r_min = pc.get_peak_array_indices(a, ptype='min')
        cyc = pc.get_n_cyc_array(a)
        cv, nz = pc.clean_out_non_changing(a)
        hist.append(_enc((r_all, r_max, r_min, cyc, cv, nz, a)))
        # scribble on everything that was returned: later calls must be unaffected
        r_all[:] = -7
        r_max[...] = -8
        r_min[...] = -9
        cyc[:] = np.nan
        cv[:] = 99.0
        nz[:] = 0
        hist.append(_enc((pc.get_peak_array_indices(a), pc.get_n_cyc_array(a, start='peak'), a)))
        # now change the caller's data in place: results must follow the new data
        j = int(rng.randint(0, len(a)))
        a[j] = a[j - 1] if rep % 3 == 0 else float(np.round(rng.randn(), 1))
        if rep % 10 == 9:
            a = np.concatenate((a[:1].repeat(3), a))
    records[('hist', shard)] = _digest(tuple(hist))
    for k, h in enumerate(hist):
        records[('hist', shard, k)] = _digest(h)
    # flags of the returned arrays (ownership / writeability as visible to the caller)
    fl = []
    for pt in ('all', 'max', 'min'):
        r = pc.get_peak_array_indices(vv, pt)
        fl.append((pt, r.flags.writeable, r.flags.c_contiguous, r.base is None, r.strides))
    r = pc.get_n_cyc_array(vv)
    fl.append(('ncyc', r.flags.writeable, r.flags.c_contiguous, r.base is None, r.strides))
    c, z = pc.clean_out_non_changing(vv)
    fl.append(('clean', c.flags.writeable, z.flags.writeable, c.base is None, z.base is None, np.shares_memory(c, vv)))
    r = pc.determine_indices_of_peaks_for_cleaned_array(vv)
    fl.append(('det', r.flags.writeable, r.base is None))
    records[('flags', shard)] = _digest(_enc(fl))

    # ---- 9. downstream users in eqsig.im --------------------------------------------------
    for i in range(60):
        n = int(rng.randint(5, 300))
        v0 = rng.randn(n) * 0.3
        v1 = np.round(rng.randn(n) * 0.3, 1)
        if not unit():
            continue
        call(('im', i, 'ncyc_pl'), eqsig.im.calc_n_cyc_array_w_power_law, v0, 0.2, 0.34)
        call(('im', i, 'ncyc_pl_r'), eqsig.im.calc_n_cyc_array_w_power_law, v1, 0.2, 0.34)
        call(('im', i, 'amp'), eqsig.im.calc_cyc_amp_array_w_power_law, v1, 15, 0.34)
        call(('im', i, 'gm'), eqsig.im.calc_cyc_amp_gm_arrays_w_power_law, v0, v1, 15, 0.34)
        call(('im', i, 'comb'), eqsig.im.calc_cyc_amp_combined_arrays_w_power_law, v0, v1, 15, 0.34)

    with open(out_path, 'wb') as f:
        pickle.dump(records, f, protocol=4)


# --------------------------------------------------------------------------------------
# driver
# --------------------------------------------------------------------------------------

NSHARDS = 6   # the workload is dealt over this many processes per version

def main():
    t0 = time.time()
    root = os.getcwd()
    if not os.path.isdir(os.path.join(root, 'eqsig')):
        print('run from the worktree root (eqsig/ not found in cwd)')
        return 2
    me = os.path.abspath(__file__)
    with tempfile.TemporaryDirectory(prefix='equiv_c11_') as tmp:
        orig_root = os.path.join(tmp, 'orig')
        os.makedirs(orig_root)
        blob = subprocess.run(['git', 'archive', 'HEAD', 'eqsig'], cwd=root, check=True,
                              stdout=subprocess.PIPE).stdout
        with tarfile.open(fileobj=io.BytesIO(blob)) as tf:
            tf.extractall(orig_root)
        # run the worker from a neutral copy so that neither tree is found through sys.path[0]
        script = os.path.join(tmp, 'equiv_worker.py')
        with open(me, 'rb') as fi, open(script, 'wb') as fo:
            fo.write(fi.read())
        procs = []
        for tag, r in (('orig', orig_root), ('edit', root)):
            for shard in range(NSHARDS):
                env = dict(os.environ)
                env['PYTHONPATH'] = r
                env['PYTHONDONTWRITEBYTECODE'] = '1'
                env['PYTHONHASHSEED'] = '0'
                for var in ('OMP_NUM_THREADS', 'OPENBLAS_NUM_THREADS', 'MKL_NUM_THREADS'):
                    env[var] = '1'
                out = os.path.join(tmp, '%s_%d.pkl' % (tag, shard))
                p = subprocess.Popen([sys.executable, '-B', script, '--worker', r, out, str(shard), str(NSHARDS)],
                                     env=env, cwd=tmp)
                procs.append((tag, p, out))
        res = {'orig': {}, 'edit': {}}
        failed = False
        for tag, p, out in procs:
            rc = p.wait()
            if rc != 0:
                print('worker %s failed with exit status %d' % (tag, rc))
                failed = True
                continue
            with open(out, 'rb') as f:
                part = pickle.load(f)
            assert not (set(part) & set(res[tag]))
            res[tag].update(part)
        if failed:
            return 3
    a, b = res['orig'], res['edit']
    bad = 0
    if set(a) != set(b):
        print('case sets differ: %d vs %d' % (len(a), len(b)))
        bad += 1
    for k in a:
        if k in b and a[k] != b[k]:
            bad += 1
            if bad <= 25:
                print('MISMATCH at case %r' % (k,))
    print('%d cases compared, %d mismatches, %.1f s' % (len(a), bad, time.time() - t0))
    return 0 if bad == 0 else 1


if __name__ == '__main__':
    if len(sys.argv) > 1 and sys.argv[1] == '--worker':
        worker(sys.argv[2], sys.argv[3], int(sys.argv[4]), int(sys.argv[5]))
        sys.exit(0)
    sys.exit(main())

"""
Equivalence program for the C01 twin (SDOF response series, eqsig/sdof.py and
AccSignal.response_series in eqsig/single.py).

Run with the edit applied and cwd = the worktree:
    cd <worktree> && PYTHONPATH=<worktree> /venv/bin/python out/equivK.py

The ORIGINAL package is taken from git (git archive HEAD eqsig) into a temporary
directory; original and edited versions are run in two separate subprocesses
(this same file in --worker mode) over the same deterministic list of cases and
the recorded outcomes (bit patterns of every returned array, dtypes, shapes,
flags, aliasing, state of the arguments afterwards, exception types and
messages, warning categories and messages, object state through the public API)
are compared exactly.  Exit status 0 iff everything matches.
"""
import io
import os
import pickle
import struct
import subprocess
import sys
import tarfile
import tempfile
import warnings


# --------------------------------------------------------------------------------------
# worker side
# --------------------------------------------------------------------------------------

def enc(x):
    import numpy as np
    if isinstance(x, np.ndarray):
        fl = x.flags
        return ('nd', x.dtype.str, x.shape, (bool(fl['C_CONTIGUOUS']), bool(fl['OWNDATA']), bool(fl['WRITEABLE'])),
                x.tobytes())
    if isinstance(x, np.generic):
        return ('npscalar', x.dtype.str, x.tobytes())
    if isinstance(x, (tuple, list)):
        return (type(x).__name__, tuple(enc(v) for v in x))
    if isinstance(x, float):
        return ('f', struct.pack('<d', x))
    if isinstance(x, dict):
        return ('dict', tuple((repr(k), enc(v)) for k, v in sorted(x.items(), key=lambda kv: repr(kv[0]))))
    return ('repr', type(x).__name__, repr(x))


def aliasing(outs, ins):
    import numpy as np
    res = []
    arrs = [o for o in outs if isinstance(o, np.ndarray)]
    for i in range(len(arrs)):
        for j in range(i + 1, len(arrs)):
            res.append(bool(np.shares_memory(arrs[i], arrs[j])))
        for x in ins:
            if isinstance(x, np.ndarray):
                res.append(bool(np.shares_memory(arrs[i], x)))
    return tuple(res)


def call(fn, *args, **kwargs):
    """Run fn, record result / exception / warnings / state of arguments afterwards."""
    with warnings.catch_warnings(record=True) as wlist:
        warnings.simplefilter('always')
        try:
            out = fn(*args, **kwargs)
            outs = out if isinstance(out, tuple) else (out,)
            res = ('ok', enc(out), aliasing(outs, list(args) + list(kwargs.values())))
        except Exception as e:  # noqa
            res = ('exc', type(e).__name__, str(e))
    wrec = tuple((w.category.__name__, str(w.message)) for w in wlist)
    return (res, wrec, enc(list(args)), enc(kwargs))


def make_record(rs, kind, n):
    import numpy as np
    t = np.arange(n)
    if kind == 0:
        return rs.randn(n)
    if kind == 1:
        return np.sin(rs.uniform(0.01, 3.0) * t + rs.uniform(0, 6)) * rs.uniform(0.01, 10)
    if kind == 2:
        r = np.zeros(n)
        r[rs.randint(0, n)] = rs.uniform(-5, 5)
        return r
    if kind == 3:
        return np.ones(n) * rs.uniform(-3, 3)
    if kind == 4:
        return rs.randint(-50, 50, size=n)  # integer typed
    if kind == 5:
        return rs.randn(n) * 1e6
    if kind == 6:
        return rs.randn(n) * 1e-12
    if kind == 7:
        return np.zeros(n)
    if kind == 8:
        return np.cumsum(rs.randn(n)) * np.exp(-t / max(n / 3.0, 1.0))
    return (rs.randn(n) * 3).astype(np.float32)


def as_form(rs, arr, allow_int=False):
    import numpy as np
    k = rs.randint(0, 7)
    if k == 0:
        return list(arr.tolist())
    if k == 1:
        return tuple(arr.tolist())
    if k == 2:
        return np.asarray(arr)[::1]
    if k == 3:
        big = np.zeros(2 * len(arr), dtype=np.asarray(arr).dtype)
        big[::2] = arr
        return big[::2]  # non-contiguous view
    if k == 4:
        return np.asarray(arr, dtype=np.float32) if not allow_int else np.asarray(arr)
    if k == 5:
        a = np.array(arr)
        a.flags.writeable = False
        return a
    return np.array(arr)


def make_periods(rs, dt):
    import numpy as np
    n = rs.randint(1, 9)
    ratio = 10 ** rs.uniform(np.log10(0.2), np.log10(2e4), size=n)
    k = rs.randint(0, 4)
    if k == 0:
        ratio = np.sort(ratio)
    elif k == 1:
        ratio = np.sort(ratio)[::-1]
    periods = ratio * dt
    z = rs.randint(0, 5)
    if z == 0:
        periods = np.concatenate([[0.0], periods])
    elif z == 1 and rs.rand() < 0.3:
        periods = np.array([0.0])
    return periods


XIS = [0.0, 0, 1e-9, 0.01, 0.05, 0.2, 0.5, 0.7071, 0.9, 0.99, 0.999999]


def worker(root, outfile):
    sys.path.insert(0, root)
    import numpy as np
    import eqsig
    import eqsig.sdof as sdof
    import eqsig.im as im
    assert os.path.realpath(eqsig.__file__).startswith(os.path.realpath(root) + os.sep), (eqsig.__file__, root)

    results = []

    def rec(tag, r):
        results.append((tag, r))

    # ---- 1. the two function entry points over the property's domain -----------------
    rs = np.random.RandomState(20240901)
    for c in range(2600):
        n = int(rs.choice([2, 3, 4, 5, 7, 16, 33, 64, 100, 150, 257]))
        kind = rs.randint(0, 10)
        record = make_record(rs, kind, n)
        dt = float(10 ** rs.uniform(-4, 0.3))
        periods = make_periods(rs, dt)
        xi = XIS[rs.randint(0, len(XIS))]
        if rs.rand() < 0.3:
            xi = float(rs.uniform(0, 0.999))
        motion = as_form(rs, record, allow_int=True)
        pers = as_form(rs, periods)
        dk = rs.randint(0, 6)
        dt_arg = dt
        if dk == 0:
            dt_arg = np.float64(dt)
        elif dk == 1:
            dt_arg = np.float32(dt)
        elif dk == 2:
            dt_arg = repr(dt)  # float() accepts strings
        elif dk == 3 and rs.rand() < 0.5:
            dt_arg = 1  # integer dt
        xk = rs.randint(0, 4)
        xi_arg = xi
        if xk == 0:
            xi_arg = np.float64(xi)
        elif xk == 1:
            xi_arg = np.array(xi)
        fn = [sdof.nigam_and_jennings_response, sdof.response_series][c % 2]
        if c % 7 == 0:
            rec(('fn-kw', c), call(fn, motion, dt=dt_arg, periods=pers, xi=xi_arg))
        else:
            rec(('fn', c), call(fn, motion, dt_arg, pers, xi_arg))
        if c % 5 == 0:
            rec(('pseudo', c), call(sdof.pseudo_response_spectra, motion, dt_arg, pers, xi_arg))
        if c % 5 == 1:
            rec(('true', c), call(sdof.true_response_spectra, motion, dt_arg, pers, xi_arg))

    # ---- 2. a few long records ------------------------------------------------------------
    rs = np.random.RandomState(77)
    for c in range(12):
        n = int(rs.choice([2000, 5000, 8000]))
        record = make_record(rs, c % 10, n)
        dt = float(rs.choice([0.005, 0.01, 0.02]))
        periods = make_periods(rs, dt)
        rec(('long', c), call(sdof.response_series, record, dt, periods, XIS[c % len(XIS)]))

    # ---- 3. corners and out-of-domain inputs (values, warnings and exceptions) ---------------
    base = np.array([0.0, 1.0, -2.0, 0.5, 0.25, -1.0, 3.0, 0.0])
    corner_args = [
        (base, 0.01, [0.0], 0.05),
        (base, 0.01, [0.0, 0.0, 1.0], 0.05),
        (base, 0.01, [1.0, 0.0, 0.5], 0.05),
        (base, 0.01, [0, 1, 2], 0.05),
        (base, 0.01, np.array([0, 1, 2]), 0),
        (base, 0.01, [-0.0, 0.3], 0.05),
        (base, 0.01, [-1.0, 0.3], 0.05),
        (base, 0.01, [np.nan, 0.3], 0.05),
        (base, 0.01, [np.inf, 0.3], 0.05),
        (base, 0.01, [], 0.05),
        (base, 0.01, 1.0, 0.05),
        (base, 0.01, 0.0, 0.05),
        (base, 0.01, np.array(1.0), 0.05),
        (base, 0.01, [[0.5, 1.0], [0.2, 0.3]], 0.05),
        (base, 0.01, [[0.0, 1.0], [0.2, 0.3]], 0.05),
        (base, 0.01, [[0.0, 1.0]], 0.05),
        (base, 0.01, None, 0.05),
        (base, 0.01, 'abc', 0.05),
        (base, 0.01, ['0.5', '1.0'], 0.05),
        (base, 0.01, [0.5, 1.0], 1.0),
        (base, 0.01, [0.0, 0.5, 1.0], 1.0),
        (base, 0.01, [0.5, 1.0], 1.5),
        (base, 0.01, [0.5, 1.0], -0.1),
        (base, 0.01, [0.5, 1.0], np.nan),
        (base, 0.01, [0.5, 1.0], None),
        (base, 0.01, [0.5, 1.0], 'x'),
        (base, 0.01, [0.5, 1.0], [0.05]),
        (base, 0.01, [0.5, 1.0], [0.05, 0.1]),
        (base, 0.01, [0.5, 1.0], np.array([0.05])),
        (base, 0.0, [0.5, 1.0], 0.05),
        (base, 0.0, [0.0, 0.5, 1.0], 0.05),
        (base, -0.01, [0.5, 1.0], 0.05),
        (base, np.inf, [0.5, 1.0], 0.05),
        (base, np.nan, [0.5, 1.0], 0.05),
        (base, None, [0.5, 1.0], 0.05),
        (base, 'dt', [0.5, 1.0], 0.05),
        (base, [0.01], [0.5, 1.0], 0.05),
        (base, np.array([0.01]), [0.5, 1.0], 0.05),
        (base, [0.01, 0.02], [0.5, 1.0], 0.05),
        (base, 1e-9, [0.5, 1.0], 0.05),
        (base, 1e3, [0.5, 1.0], 0.05),
        ([], 0.01, [0.5, 1.0], 0.05),
        ([], 0.01, [0.0, 1.0], 0.05),
        ([1.0], 0.01, [0.5, 1.0], 0.05),
        ([1.0], 0.01, [0.0, 1.0], 0.05),
        ([1.0], 0.01, [0.0], 0.05),
        ([1.0, 2.0], 0.01, [0.0], 0.05),
        ([1, 2], 1, [0, 3], 0),
        (1.0, 0.01, [0.5, 1.0], 0.05),
        (np.array(1.0), 0.01, [0.0, 1.0], 0.05),
        (None, 0.01, [0.5, 1.0], 0.05),
        ('abc', 0.01, [0.5, 1.0], 0.05),
        ([[1.0, 2.0], [3.0, 4.0]], 0.01, [0.5, 1.0], 0.05),
        ([[1.0, 2.0], [3.0, 4.0]], 0.01, [0.0, 0.5, 1.0], 0.05),
        ([[1.0, 2.0, 3.0]], 0.01, [0.5, 1.0, 2.0], 0.05),
        ([[1.0], [2.0], [3.0]], 0.01, [0.5, 1.0], 0.05),
        ([[1.0], [2.0], [3.0]], 0.01, [0.0, 0.5, 1.0], 0.05),
        (np.zeros((3, 2, 2)), 0.01, [0.5, 1.0], 0.05),
        ([np.nan, 1.0, 2.0], 0.01, [0.5, 1.0], 0.05),
        ([1.0, np.inf, 2.0, 0.0], 0.01, [0.0, 0.5, 1.0], 0.05),
        ([True, False, True], 0.01, [0.0, 0.5], 0.05),
        ([1 + 2j, 3.0], 0.01, [0.5], 0.05),
        (base, 0.01, [1e-300, 1.0], 0.05),
        (base, 0.01, [1e300, 1.0], 0.05),
        (base * 1e300, 0.01, [0.001, 1.0], 0.05),
        (base, True, [0.5], False),
    ]
    for k, args in enumerate(corner_args):
        for name in ('nigam_and_jennings_response', 'response_series', 'pseudo_response_spectra',
                     'true_response_spectra'):
            a0 = args[0].copy() if isinstance(args[0], np.ndarray) else args[0]
            rec(('corner', k, name), call(getattr(sdof, name), a0, *args[1:]))
    rec(('corner-missing', 0), call(sdof.response_series, base, 0.01, [1.0]))
    rec(('corner-missing', 1), call(sdof.nigam_and_jennings_response, base, 0.01))
    rec(('corner-extra', 0), call(sdof.response_series, base, 0.01, [1.0], 0.05, 3))
    rec(('corner-kw', 0), call(sdof.nigam_and_jennings_response, acc=base, dt=0.01, periods=[0.0, 1.0], xi=0.05))
    rec(('corner-kw', 1), call(sdof.response_series, motion=base, dt=0.01, periods=[0.0, 1.0], xi=0.05))
    rec(('corner-kw', 2), call(sdof.response_series, acc=base, dt=0.01, periods=[0.0, 1.0], xi=0.05))

    # ---- 4. compute_a_and_b directly ----------------------------------------------------
    rs = np.random.RandomState(5)
    for c in range(300):
        nw = rs.randint(0, 6)
        w = 10 ** rs.uniform(-3, 4, size=nw)
        dt = float(10 ** rs.uniform(-4, 0.3))
        xi = XIS[rs.randint(0, len(XIS))]
        rec(('ab', c), call(sdof.compute_a_and_b, xi, w, dt))
    rec(('ab-scalar', 0), call(sdof.compute_a_and_b, 0.05, 3.0, 0.01))
    rec(('ab-scalar', 1), call(sdof.compute_a_and_b, 0.05, np.float64(3.0), 0.01))
    rec(('ab-scalar', 2), call(sdof.compute_a_and_b, 1.0, np.array([3.0]), 0.01))
    rec(('ab-kw', 0), call(sdof.compute_a_and_b, xi=0.05, w=np.array([3.0, 4.0]), dt=0.01))

    # ---- 5. AccSignal histories ----------------------------------------------------------
    def obj_state(asig):
        st = []
        for name in ('values', 'dt', 'npts', 'response_times', '_cached_xi', 'label'):
            try:
                st.append((name, enc(getattr(asig, name))))
            except Exception as e:  # noqa
                st.append((name, 'exc', type(e).__name__, str(e)))
        for name in ('_s_a', '_s_v', '_s_d'):
            st.append((name, enc(getattr(asig, name, 'absent'))))
        return tuple(st)

    rs = np.random.RandomState(4242)
    for c in range(260):
        n = int(rs.choice([2, 3, 10, 50, 120, 300]))
        record = make_record(rs, rs.randint(0, 10), n)
        dt = float(10 ** rs.uniform(-3, -0.5))
        ck = rs.randint(0, 4)
        kwargs = {}
        if ck == 0:
            kwargs['response_times'] = as_form(rs, make_periods(rs, dt))
        elif ck == 1:
            kwargs['response_period_range'] = (float(dt * 2), float(dt * 200))
        elif ck == 2:
            kwargs['response_times'] = [0.0, 0.1, 1.0]
        if rs.rand() < 0.15:
            kwargs['verbose'] = 1
        values = as_form(rs, record, allow_int=True)
        log = []
        with warnings.catch_warnings(record=True) as wl:
            warnings.simplefilter('always')
            try:
                asig = eqsig.AccSignal(values, dt, **kwargs)
            except Exception as e:  # noqa
                rec(('hist-ctor', c), ('exc', type(e).__name__, str(e)))
                continue
        log.append(('ctor', obj_state(asig), tuple((w.category.__name__, str(w.message)) for w in wl)))
        saved_stdout = sys.stdout
        for step in range(rs.randint(2, 7)):
            op = rs.randint(0, 9)
            sys.stdout = buf = io.StringIO()
            try:
                if op == 0:
                    r = call(asig.response_series)
                elif op == 1:
                    r = call(asig.response_series, as_form(rs, make_periods(rs, dt)))
                elif op == 2:
                    r = call(asig.response_series, response_times=as_form(rs, make_periods(rs, dt)),
                             xi=XIS[rs.randint(0, len(XIS))])
                elif op == 3:
                    r = call(asig.response_series, xi=XIS[rs.randint(0, len(XIS))])
                elif op == 4:
                    r = call(asig.response_series, None, -1)
                elif op == 5:
                    r = call(asig.gen_response_spectrum, xi=[-1, 0.02, 0.1][rs.randint(0, 3)])
                elif op == 6:
                    r = call(asig.response_series, xi=[-1.0, np.float64(-1), 1.0, 'x', None][rs.randint(0, 5)])
                elif op == 7:
                    r = call(asig.response_series, [[], 0.5, None, [0.0], (0.0, 0.2)][rs.randint(0, 5)])
                else:
                    asig._cached_xi = float(rs.uniform(0, 0.9)) if rs.rand() < 0.5 else asig._cached_xi
                    r = call(sdof.calc_input_energy_spectrum, asig, series=bool(rs.randint(0, 2)))
                    r = (r[0], r[1])  # the object itself is an argument: its state is recorded below
                    r2 = call(sdof.calc_resp_uke_spectrum, asig, xi=0.1)
                    r = (r, (r2[0], r2[1]))
            finally:
                sys.stdout = saved_stdout
            log.append((op, r, buf.getvalue(), obj_state(asig)))
        rec(('hist', c), tuple(log))

    # mutation of results must not leak between calls or into the object
    asig = eqsig.AccSignal(np.sin(np.arange(60) * 0.3), 0.02, response_times=[0.0, 0.1, 0.4])
    u, v, a = asig.response_series()
    u[:] = 7.0
    a[:] = -3.0
    rec(('leak', 0), (obj_state(asig), call(asig.response_series)))
    # (the object itself is an argument and its repr holds an address: keep result and warnings only)
    rec(('vsi', 0), call(im.calc_vsi_temporal, asig)[:2])
    rec(('vsi', 1), call(im.calc_vsi_temporal, asig, 0.2, np.array([0.1, 0.2, 0.5]))[:2])
    rec(('leak', 1), obj_state(asig))

    with open(outfile, 'wb') as f:
        pickle.dump(results, f, protocol=pickle.HIGHEST_PROTOCOL)


# --------------------------------------------------------------------------------------
# driver side
# --------------------------------------------------------------------------------------

def main():
    cwd = os.getcwd()
    if not os.path.isdir(os.path.join(cwd, 'eqsig')):
        print('run with cwd = the worktree')
        return 2
    this = os.path.abspath(__file__)
    with tempfile.TemporaryDirectory() as tmp:
        orig_root = os.path.join(tmp, 'orig')
        os.makedirs(orig_root)
        data = subprocess.check_output(['git', 'archive', 'HEAD', 'eqsig'], cwd=cwd)
        with tarfile.open(fileobj=io.BytesIO(data)) as tf:
            tf.extractall(orig_root)
        outs = {}
        procs = {}
        for name, root in (('orig', orig_root), ('edit', cwd)):
            outs[name] = os.path.join(tmp, name + '.pkl')
            env = dict(os.environ)
            env['PYTHONPATH'] = root
            env['PYTHONDONTWRITEBYTECODE'] = '1'
            env['PYTHONHASHSEED'] = '0'
            procs[name] = subprocess.Popen([sys.executable, this, '--worker', root, outs[name]], cwd=tmp, env=env)
        for name, p in procs.items():
            if p.wait() != 0:
                print('worker %s failed with status %s' % (name, p.returncode))
                return 2
        with open(outs['orig'], 'rb') as f:
            ro = pickle.load(f)
        with open(outs['edit'], 'rb') as f:
            re_ = pickle.load(f)
    bad = 0
    if len(ro) != len(re_):
        print('different number of cases: %d vs %d' % (len(ro), len(re_)))
        bad += 1
    n_exc = 0
    for (to, vo), (te, ve) in zip(ro, re_):
        if to != te or vo != ve:
            bad += 1
            if bad <= 10:
                print('MISMATCH at case', to, te)
                so, se = repr(vo), repr(ve)
                print('   orig:', so[:300])
                print('   edit:', se[:300])
        if "'exc'" in repr(vo)[:2000]:
            n_exc += 1
    print('%d cases compared (%d involving exceptions), %d mismatches' % (len(ro), n_exc, bad))
    return 0 if bad == 0 else 1


if __name__ == '__main__':
    if len(sys.argv) >= 2 and sys.argv[1] == '--worker':
        worker(sys.argv[2], sys.argv[3])
        sys.exit(0)
    sys.exit(main())

"""Equivalence program: original (git HEAD) eqsig versus the edited working tree.

Run with cwd = worktree:  PYTHONPATH=$PWD python out/equivK.py
Exits 0 iff every recorded observation is identical in both versions.
"""
import os
import sys
import io
import json
import pickle
import subprocess
import tarfile
import tempfile
import contextlib
import shutil


# ----------------------------------------------------------------------------
# child: runs the scenario set against the eqsig found first on sys.path
# ----------------------------------------------------------------------------

def enc(x):
    """Encode an observation into something picklable and exactly comparable."""
    import numpy as np
    if isinstance(x, np.ndarray):
        if x.dtype == object:
            return ('objarr', x.shape, [enc(v) for v in x.ravel().tolist()])
        return ('arr', str(x.dtype), x.shape, np.ascontiguousarray(x).tobytes())
    if isinstance(x, np.generic):
        return ('npscalar', str(x.dtype), np.asarray(x).tobytes())
    if isinstance(x, float):
        return ('float', x.hex())
    if isinstance(x, (bool, int, str, type(None))):
        return (type(x).__name__, x)
    if isinstance(x, (list, tuple)):
        return (type(x).__name__, [enc(v) for v in x])
    return ('repr', type(x).__name__)


def sig_state(sig):
    return ('sig', type(sig).__name__, enc(sig.values), enc(sig.npts), enc(sig.dt), enc(sig.label))


def cluster_state(cl):
    return [(name, sig_state(sig)) for name, sig in cl.signals.items()] + \
        [('master', cl.master, cl.master_index, enc(cl.dt), cl.n_signals, list(cl.names))]


def attempt(fn):
    buf = io.StringIO()
    try:
        with contextlib.redirect_stdout(buf):
            out = fn()
        return ('ok', out, buf.getvalue())
    except BaseException as e:  # noqa
        if isinstance(e, (KeyboardInterrupt, SystemExit, MemoryError)):
            raise
        return ('exc', type(e).__name__, str(e), buf.getvalue())


def child(out_path):
    import warnings
    warnings.simplefilter('ignore')
    import numpy as np
    import eqsig
    from eqsig import multiple
    from eqsig.fns import average as fav
    from eqsig.fns import time_shift as fts
    import eqsig.im

    rec = []
    rng = np.random.RandomState(20240918)

    def rand_series(n, kind):
        if kind == 'float':
            return rng.randn(n)
        if kind == 'smooth':
            t = np.arange(n) * 0.1
            return np.sin(t * (0.5 + rng.rand())) * np.exp(-((t - n * 0.03) / (n * 0.05 + 1)) ** 2) + 0.01 * rng.randn(n)
        if kind == 'int':
            return rng.randint(-50, 50, size=n)
        if kind == 'f32':
            return rng.randn(n).astype(np.float32)
        if kind == 'list':
            return list(rng.randn(n))
        if kind == 'const':
            return np.ones(n) * rng.randint(-3, 4)
        if kind == 'nan':
            a = rng.randn(n)
            if n:
                a[rng.randint(0, n)] = np.nan
            return a
        raise ValueError(kind)

    kinds = ['float', 'smooth', 'int', 'f32', 'list', 'const', 'nan']

    # ---------------- A. combine_at_angle -----------------------------------
    special_angles = [0, 0.0, 90, 90.0, 180, 270, 360, -90, -180.0, 45, 1e-9, 720.5, -1e4,
                      np.float64(33.3), np.float32(12.5), np.int64(90), True]
    for k in range(700):
        n = int(rng.choice([0, 1, 2, 3, 5, 17, 64, 200]))
        kind_a = kinds[k % len(kinds)]
        kind_b = kinds[(k // len(kinds)) % len(kinds)]
        dt = float(rng.choice([0.01, 0.005, 0.1, 1.0]))
        a = rand_series(n, kind_a)
        b = rand_series(n, kind_b)
        if k < len(special_angles) * 4:
            ang = special_angles[k % len(special_angles)]
        elif k % 50 == 0:
            ang = rng.rand(n) * 360  # array of angles broadcast over samples
        else:
            ang = float(rng.uniform(-720, 720))
        s_ns = eqsig.AccSignal(a, dt)
        s_we = eqsig.AccSignal(b, dt if k % 11 else dt * 2, label='we')
        before = (sig_state(s_ns), sig_state(s_we))

        def run():
            r = eqsig.combine_at_angle(s_ns, s_we, ang)
            return sig_state(r)
        rec.append(('A', k, attempt(run), before == (sig_state(s_ns), sig_state(s_we)),
                    sig_state(s_ns), sig_state(s_we)))
    # unequal lengths / plain Signal / bad types
    for k, (na, nb) in enumerate([(5, 6), (1, 7), (7, 1), (0, 3)]):
        s1 = eqsig.AccSignal(rng.randn(na), 0.01)
        s2 = eqsig.Signal(rng.randn(nb), 0.01)
        rec.append(('A2', k, attempt(lambda: sig_state(eqsig.combine_at_angle(s1, s2, 30.0)))))
        rec.append(('A3', k, attempt(lambda: sig_state(eqsig.combine_at_angle(s1, s2, 'x')))))
        rec.append(('A4', k, attempt(lambda: sig_state(eqsig.combine_at_angle(s1, None, 3)))))
    # theta = 0 / 90 / +180 relations are recorded implicitly (exact bytes)

    # ---------------- B. compute_rotated ------------------------------------
    class Weird(object):
        def __init__(self, v):
            self.v = v

    calls = []

    def f_scalar(s):
        calls.append(len(calls))
        return float(np.max(np.abs(s.values))) if s.npts else 0.0

    def f_array(s):
        return np.cumsum(np.abs(s.values))

    def f_list(s):
        return [1.0, float(np.sum(s.values))]

    def f_npscalar(s):
        return np.sum(s.values ** 2)

    def f_tuple(s):
        return (3, s.npts)

    def f_str(s):
        return "ab"

    def f_raise(s):
        raise RuntimeError("boom %i" % s.npts)

    def f_mutate(s):
        s.reset_values(s.values * 2)
        return s.values

    def f_none(s):
        return None

    funcs = [None, f_scalar, f_array, f_list, f_npscalar, f_tuple, f_str, f_raise, f_mutate, f_none,
             eqsig.im.calc_arias_intensity, eqsig.im.calc_cav]
    params = [None, "arias_intensity", "pga", "pgv", "pgd", "npts", "dt", "values", "label", "velocity",
              "no_such_attr", "", 3, "time"]
    points_opts = [0, 1, 2, 3, 7, 100]
    offs = [0.0, 0, 30.0, 90, 180.0, -45.5, 360.0, 725.25, np.float64(12.0), 1e-7]
    k = 0
    for p in params:
        for f in funcs:
            for rep in range(2):
                k += 1
                n = int(rng.choice([1, 2, 9, 40, 120])) if rep else int(rng.choice([2, 33]))
                kind = kinds[k % 5]
                dt = float(rng.choice([0.01, 0.02]))
                s_ns = eqsig.AccSignal(rand_series(n, kind), dt)
                s_we = eqsig.AccSignal(rand_series(n, kinds[(k // 5) % 5]), dt)
                pts = points_opts[k % len(points_opts)]
                off = offs[k % len(offs)]
                before = (sig_state(s_ns), sig_state(s_we))
                ncalls = len(calls)

                def run():
                    d, v = eqsig.compute_rotated(s_ns, s_we, angle_off_ns=off, parameter=p, func=f, points=pts)
                    return enc(d), enc(v)
                rec.append(('B', k, repr(p), getattr(f, '__name__', None), pts, attempt(run),
                            before == (sig_state(s_ns), sig_state(s_we)), len(calls) - ncalls))
    good_params = ["arias_intensity", "pga", "pgv", "pgd", "npts", "dt", "label", "velocity", "values", "time"]
    good_funcs = [f_scalar, f_array, f_list, f_npscalar, f_tuple, f_str, f_none, f_mutate,
                  eqsig.im.calc_arias_intensity, eqsig.im.calc_cav]
    for k in range(500):
        n = int(rng.choice([1, 2, 3, 10, 57, 128]))
        dt = float(rng.choice([0.01, 0.02, 0.5]))
        s_ns = eqsig.AccSignal(rand_series(n, kinds[k % 5]), dt)
        s_we = eqsig.AccSignal(rand_series(n, kinds[(k // 5) % 5]), dt)
        mode = k % 4
        if mode == 0:
            p, f = good_params[(k // 4) % len(good_params)], None
        elif mode == 1:
            p, f = None, good_funcs[(k // 4) % len(good_funcs)]
        elif mode == 2:
            p, f = "arias_intensity", good_funcs[(k // 4) % len(good_funcs)]
        else:
            p, f = None, None
        pts = int(rng.choice([0, 1, 2, 3, 4, 9, 36]))
        off = float(rng.uniform(-400, 400)) if k % 3 else offs[k % len(offs)]
        before = (sig_state(s_ns), sig_state(s_we))

        def run():
            d, v = eqsig.compute_rotated(s_ns, s_we, angle_off_ns=off, parameter=p, func=f, points=pts)
            return enc(d), enc(v)
        rec.append(('Bx', k, repr(p), getattr(f, '__name__', None), pts, attempt(run),
                    before == (sig_state(s_ns), sig_state(s_we))))
    # default arguments, positional forms, defaults for points
    s_ns = eqsig.AccSignal(rand_series(50, 'smooth'), 0.01)
    s_we = eqsig.AccSignal(rand_series(50, 'smooth'), 0.01)
    rec.append(('B2', attempt(lambda: [enc(x) for x in eqsig.compute_rotated(s_ns, s_we)])))
    rec.append(('B3', attempt(lambda: [enc(x) for x in eqsig.compute_rotated(s_ns, s_we, 10.0, "pga")])))
    rec.append(('B4', attempt(lambda: [enc(x) for x in eqsig.compute_rotated(s_ns, s_we, 10.0, None, f_scalar, 5)])))
    rec.append(('B5', attempt(lambda: [enc(x) for x in eqsig.compute_rotated(s_ns, s_we, parameter="arias_intensity")])))
    rec.append(('B6', attempt(lambda: [enc(x) for x in multiple.compute_rotated(s_ns, s_we, func=f_array, points=-1)])))
    rec.append(('B7', attempt(lambda: [enc(x) for x in multiple.compute_rotated(s_ns, s_we, func=f_array, points=2.5)])))
    rec.append(('B8', attempt(lambda: [enc(x) for x in multiple.compute_rotated(s_ns, s_we, 'a', func=f_array)])))
    # precondition failures
    bad = [
        (eqsig.Signal(np.ones(5), 0.01), eqsig.AccSignal(np.ones(5), 0.01)),
        (eqsig.AccSignal(np.ones(5), 0.01), eqsig.Signal(np.ones(5), 0.01)),
        (eqsig.AccSignal(np.ones(5), 0.01), eqsig.AccSignal(np.ones(5), 0.02)),
        (eqsig.AccSignal(np.ones(5), 0.01), eqsig.AccSignal(np.ones(6), 0.01)),
        (np.ones(5), np.ones(5)),
        (None, None),
        (eqsig.AccSignal(np.ones(0), 0.01), eqsig.AccSignal(np.ones(0), 0.01)),
    ]
    for k, (x, y) in enumerate(bad):
        for p, f in [("pga", None), (None, f_scalar), (None, None), ("arias_intensity", None)]:
            rec.append(('B9', k, repr(p), attempt(
                lambda: [enc(v) for v in eqsig.compute_rotated(x, y, parameter=p, func=f, points=3)])))

    # ---------------- C. Cluster.time_match / same_start --------------------
    def make_cluster(k):
        n_sig = int(rng.choice([1, 2, 2, 3, 3, 4, 4, 5]))
        base_n = int(rng.choice([3, 8, 15, 40, 90, 150]))
        kind = ['smooth', 'float', 'int', 'f32', 'smooth', 'const', 'smooth', 'nan', 'list'][k % 9]
        steps = int(rng.choice([1, 2, 5, 10, 10, 13, 25]))
        pad = 30
        src = np.asarray(rand_series(base_n + 2 * pad, kind))
        vals = []
        lags = []
        same_len = (k % 4 != 0)
        for j in range(n_sig):
            lag = int(rng.randint(-min(steps, pad) - 2, min(steps, pad) + 3))
            lags.append(lag)
            nj = base_n if same_len else base_n - int(rng.randint(0, 3))
            seg = src[pad + lag: pad + lag + nj]
            if kind in ('smooth', 'float') and k % 3 == 0:
                seg = seg + 0.001 * rng.randn(len(seg))
            if k % 7 == 0:
                seg = seg + rng.uniform(-1, 1)
            if kind == 'list':
                seg = list(seg)
            vals.append(seg)
        mi = int(rng.randint(0, n_sig))
        st = ['custom', 'acc', ['acc'] * n_sig, ['custom', 'acc', 'x', 'acc', 'custom'][:n_sig]][k % 4]
        names = [None, ['a'], ['p', 'q', 'r', 's', 't'][:n_sig], []][(k // 4) % 4]
        dt = float(rng.choice([0.01, 0.05, 1.0]))
        return vals, dt, names, mi, st, steps

    op_names = ['tm', 'tm_default', 'ss', 'ss_win', 'tm_verbose', 'ss_verbose', 'ss_idx', 'tm_setstep',
                'chg_master', 'neg_master', 'reset', 'tm_kw', 'ss_far', 'oob_master', 'combine']
    for k in range(900):
        vals, dt, names, mi, st, steps = make_cluster(k)
        r = attempt(lambda: eqsig.Cluster(vals, dt, names=names, master_index=mi, stypes=st))
        if r[0] != 'ok':
            rec.append(('C0', k, r))
            continue
        cl = r[1]
        hist = [('init', cluster_state(cl))]
        n_ops = int(rng.randint(1, 6))
        for o in range(n_ops):
            if o == 0:
                op = ['tm', 'ss', 'tm_verbose', 'ss_win', 'tm_default'][k % 5]
            else:
                op = op_names[int(rng.randint(0, len(op_names)))]
            dur = max(len(v) for v in vals) * dt
            if op == 'tm':
                out = attempt(lambda: enc(cl.time_match(steps=steps)))
            elif op == 'tm_default':
                out = attempt(lambda: enc(cl.time_match()))
            elif op == 'tm_verbose':
                out = attempt(lambda: enc(cl.time_match(steps=min(steps, 4), verbose=1)))
            elif op == 'tm_setstep':
                sv = [True, 3, 0, None, False][int(rng.randint(0, 5))]
                out = attempt(lambda: enc(cl.time_match(steps=steps, set_step=sv, verbose=int(rng.randint(0, 2)))))
            elif op == 'tm_kw':
                sk = [0, -2, 1, 1000, 2.5, np.int64(4), True][int(rng.randint(0, 7))]
                out = attempt(lambda: enc(cl.time_match(steps=sk, trim=False, base=1, junk=2)))
            elif op == 'ss':
                out = attempt(lambda: enc(cl.same_start()))
            elif op == 'ss_win':
                s0 = float(rng.uniform(0, dur * 0.5))
                e0 = float(rng.uniform(s0, dur * 0.95))
                out = attempt(lambda: enc(cl.same_start(start=s0, end=e0)))
            elif op == 'ss_verbose':
                out = attempt(lambda: enc(cl.same_start(verbose=1, end=dur * 0.3, base=4)))
            elif op == 'ss_idx':
                # integer-valued window (still interpreted as time by same_start)
                out = attempt(lambda: enc(cl.same_start(start=0, end=-1)))
            elif op == 'ss_far':
                out = attempt(lambda: enc(cl.same_start(start=0.0, end=dur * float(rng.choice([1.0, 1.5, 10])))))
            elif op == 'chg_master':
                cl.master_index = int(rng.randint(0, cl.n_signals))
                out = ('set', cl.master_index)
            elif op == 'neg_master':
                cl.master_index = -int(rng.randint(1, cl.n_signals + 1))
                out = ('set', cl.master_index)
            elif op == 'oob_master':
                cl.master_index = cl.n_signals + int(rng.randint(0, 2))
                out = ('set', cl.master_index)
            elif op == 'reset':
                j = int(rng.randint(0, cl.n_signals))
                sg = cl.signal_by_index(j)
                newv = np.roll(sg.values, int(rng.randint(-3, 4)))
                if rng.rand() < 0.3:
                    newv = list(newv)
                sg.reset_values(newv)
                out = ('reset', j)
            elif op == 'combine':
                out = attempt(lambda: enc(cl.combine_motions(2.0)) if cl.n_signals > 1 and cl.signal_by_index(0).npts > 40
                              else None)
            hist.append((op, out, cluster_state(cl), attempt(lambda: enc(cl.time)),
                         [enc(cl.values_by_index(j)) for j in range(cl.n_signals)]))
        rec.append(('C', k, hist, [enc(v) for v in vals]))

    # the two textbook scenarios: known lag is found and removed / master unchanged
    for k in range(300):
        n = int(rng.choice([60, 100, 200]))
        n_sig = int(rng.randint(2, 5))
        steps = int(rng.choice([3, 6, 10, 20]))
        src = rand_series(n + 60, 'smooth')
        mi = int(rng.randint(0, n_sig))
        vals = []
        for j in range(n_sig):
            lag = 0 if j == mi else int(rng.randint(-steps + 1, steps))
            vals.append(src[30 + lag: 30 + lag + n] + (0 if k % 2 else rng.uniform(-1, 1)))
        cl = eqsig.Cluster(vals, 0.01, master_index=mi, stypes='acc' if k % 3 else 'custom')
        copies = [np.array(v) for v in vals]
        o1 = attempt(lambda: enc(cl.time_match(steps=steps)))
        st1 = cluster_state(cl)
        o2 = attempt(lambda: enc(cl.same_start(start=0.1, end=0.3)))
        st2 = cluster_state(cl)
        o3 = attempt(lambda: enc(cl.time_match(steps=steps, verbose=k % 2)))
        st3 = cluster_state(cl)
        untouched = all(np.array_equal(a, b, equal_nan=True) for a, b in zip(copies, vals))
        rec.append(('C2', k, o1, st1, o2, st2, o3, st3, untouched))

    # ---------------- D. get_section_average / time_indices -----------------
    for k in range(1500):
        n = int(rng.choice([1, 2, 5, 30, 101]))
        dt = float(rng.choice([0.01, 0.1, 0.25, 1.0, 3]))
        kind = kinds[k % len(kinds)]
        sg = (eqsig.AccSignal if k % 2 else eqsig.Signal)(rand_series(n, kind), dt)
        mode = k % 6
        if mode == 0:
            st_, en_, ix = float(rng.uniform(0, n * dt)), float(rng.uniform(0, 1.3 * n * dt)), False
        elif mode == 1:
            st_, en_, ix = int(rng.randint(0, n + 1)), int(rng.randint(-2, n + 3)), True
        elif mode == 2:
            st_, en_, ix = 0, -1, [False, True, 0, 1, None][int(rng.randint(0, 5))]
        elif mode == 3:
            st_, en_, ix = float(rng.uniform(-1, 1)), [-1, -1.0][k % 12 == 3], False
        elif mode == 4:
            st_, en_, ix = int(rng.randint(0, 4)), int(rng.randint(0, 6)), [0, 1, False][int(rng.randint(0, 3))]
        else:
            st_, en_, ix = np.float64(rng.uniform(0, n * dt)), np.float64(rng.uniform(0, n * dt)), False
        before = sig_state(sg)
        rec.append(('D', k, attempt(lambda: enc(sg.get_section_average(start=st_, end=en_, index=ix))),
                    attempt(lambda: enc(fav.get_section_average(sg, st_, en_, ix))),
                    attempt(lambda: enc(fts.time_indices(sg.npts, sg.dt, st_, en_, ix))),
                    attempt(lambda: enc(fav.get_section_average(sg))),
                    attempt(lambda: enc(sg.get_section_average())),
                    before == sig_state(sg)))
    for args in [(10, 0.1, None, 0.5, False), (10, 0.1, 0.1, None, False), (10, 0.1, 'a', 'b', True),
                 (10, 0, 0.2, 0.5, False), (10, 0.1, 0.2, 0.5, 'False'), (10, 0.1, [0.1], 0.3, False),
                 (10, 0.0, 0.2, -1, False), (10, 0.1, None, -1, False), (None, 0.1, 0, 0.2, False),
                 (10, 0.1, 0.2, float('nan'), False), (10, 0.1, float('inf'), 0.3, False)]:
        rec.append(('D2', repr(args), attempt(lambda: enc(fts.time_indices(*args)))))

    with open(out_path, 'wb') as fh:
        pickle.dump(rec, fh, protocol=2)


# ----------------------------------------------------------------------------
# parent
# ----------------------------------------------------------------------------

def first_diff(a, b, path=''):
    if type(a) != type(b):
        return path + ': type %r vs %r' % (type(a), type(b))
    if isinstance(a, (list, tuple)):
        if len(a) != len(b):
            return path + ': len %i vs %i' % (len(a), len(b))
        for i, (x, y) in enumerate(zip(a, b)):
            d = first_diff(x, y, path + '[%i]' % i)
            if d:
                return d
        return None
    if a != b:
        return path + ': %r vs %r' % (a if len(repr(a)) < 300 else repr(a)[:300], b if len(repr(b)) < 300 else repr(b)[:300])
    return None


def main():
    wt = os.getcwd()
    tmp = tempfile.mkdtemp(prefix='equiv_c18_')
    orig_root = os.path.join(tmp, 'orig')
    os.makedirs(orig_root)
    tar_path = os.path.join(tmp, 'orig.tar')
    subprocess.check_call(['git', 'archive', '-o', tar_path, 'HEAD', 'eqsig'], cwd=wt)
    with tarfile.open(tar_path) as tf:
        tf.extractall(orig_root)
    results = {}
    for tag, root in (('orig', orig_root), ('edit', wt)):
        out_path = os.path.join(tmp, tag + '.pkl')
        env = dict(os.environ)
        env['PYTHONPATH'] = root
        env['PYTHONHASHSEED'] = '0'
        subprocess.check_call([sys.executable, os.path.abspath(__file__), '--child', root, out_path], cwd=tmp, env=env)
        with open(out_path, 'rb') as fh:
            results[tag] = pickle.load(fh)
    a, b = results['orig'], results['edit']
    d = first_diff(a, b)
    print('records: %i (orig) %i (edit)' % (len(a), len(b)))
    if d:
        print('MISMATCH at', d)
        sys.exit(1)
    print('all observations identical')
    shutil.rmtree(tmp, ignore_errors=True)
    sys.exit(0)


def child_entry(root, out_path):
    sys.path.insert(0, root)
    import eqsig
    got = os.path.realpath(os.path.dirname(eqsig.__file__))
    assert got == os.path.realpath(os.path.join(root, 'eqsig')), (got, root)
    child(out_path)


if __name__ == '__main__':
    if len(sys.argv) == 4 and sys.argv[1] == '--child':
        child_entry(sys.argv[2], sys.argv[3])
    else:
        main()

"""
Equivalence check for twin3 (C02).

Run with the twin applied, cwd = the worktree:

    cd /tmp/twin4/C02 && /venv/bin/python out/equiv1.py

The script extracts the ORIGINAL package from git (``git archive HEAD eqsig``) into a temporary directory under
/tmp, runs one deterministic battery of calls in two subprocesses (one importing the original package, one
importing the edited working tree), and compares the pickled outcomes bit-for-bit: returned values (dtype,
shape, memory layout and raw bytes), raised exceptions, the arguments after the call (mutation) and the state of
the AccSignal objects after every step of multi-step histories.

Exit status 0 iff everything matches.
"""
import os
import pickle
import subprocess
import sys
import tempfile

TWIN = 'twin3'
WORKTREE = os.path.dirname(os.path.dirname(os.path.abspath(__file__)))


# --------------------------------------------------------------------------------------------------------------
# worker side
# --------------------------------------------------------------------------------------------------------------

def encode(obj, depth=0):
    """Turn a result into a picklable structure that can be compared with == bit-for-bit."""
    import numpy as np
    if depth > 6:
        return ('deep', repr(type(obj)))
    if isinstance(obj, np.ndarray):
        if obj.dtype == object:
            return ('ndobj', obj.shape, [encode(x, depth + 1) for x in obj.ravel().tolist()])
        return ('nd', obj.dtype.str, obj.shape, bool(obj.flags['C_CONTIGUOUS']), bool(obj.flags['F_CONTIGUOUS']),
                np.ascontiguousarray(obj).tobytes())
    if isinstance(obj, np.generic):
        return ('ns', obj.dtype.str, obj.tobytes())
    if isinstance(obj, bool) or obj is None or isinstance(obj, (int, str)):
        return (type(obj).__name__, obj)
    if isinstance(obj, float):
        return ('float', obj.hex())
    if isinstance(obj, tuple):
        return ('tuple', [encode(x, depth + 1) for x in obj])
    if isinstance(obj, list):
        return ('list', [encode(x, depth + 1) for x in obj])
    if isinstance(obj, dict):
        return ('dict', [(repr(k), encode(obj[k], depth + 1)) for k in sorted(obj, key=repr)])
    if hasattr(obj, '__dict__'):
        return ('obj', type(obj).__name__, encode(vars(obj), depth + 1))
    return ('other', repr(obj))


def worker(root, out_path):
    import copy
    import warnings
    sys.path.insert(0, root)
    import numpy as np
    warnings.simplefilter('ignore')
    np.seterr(all='ignore')
    import eqsig
    assert os.path.abspath(eqsig.__file__).startswith(os.path.abspath(root) + os.sep), eqsig.__file__
    from eqsig import sdof
    from eqsig.fns import time_step
    import eqsig.single
    assert os.path.abspath(sdof.__file__).startswith(os.path.abspath(root) + os.sep), sdof.__file__

    log = []

    def call(label, fn, *args, **kwargs):
        args = copy.deepcopy(args)
        kwargs = copy.deepcopy(kwargs)
        try:
            res = ('ok', encode(fn(*args, **kwargs)))
        except Exception as e:  # noqa
            res = ('exc', type(e).__name__, str(e))
        log.append((label, res, encode(list(args)), encode(kwargs)))

    rng = np.random.RandomState(20240926)

    # ---------------------------------------------------------------------------------------------- records
    def hat(n, k):
        r = np.zeros(n)
        if 0 <= k < n:
            r[k] = 1.0
        return r

    motions = {
        'empty': np.zeros(0),
        'one': np.array([0.7]),
        'two': np.array([0.0, -1.3]),
        'three': np.array([0.0, 0.4, -0.2]),
        'rnd5': rng.randn(5),
        'rnd17': rng.randn(17),
        'rnd64': rng.randn(64) * 3.0,
        'rnd257': rng.randn(257),
        'rnd600': np.cumsum(rng.randn(600)) * 0.01,
        'zeros40': np.zeros(40),
        'negzeros8': -np.zeros(8),
        'hat30': hat(30, 4),
        'hat_first': hat(12, 0),
        'int': rng.randint(-5, 6, size=50),
        'int_all_neg': -rng.randint(1, 6, size=20),
        'f32': rng.randn(33).astype(np.float32),
        'list': [0.0, 0.1, -0.3, 0.25, 0.0, 0.05, -0.6, 0.2],
        'list_int': [0, 1, -2, 3, 0, 0, 1],
        'tuple': (0.0, 0.5, -0.5, 0.1),
        'sine': np.sin(0.1 * np.arange(400)) * 0.01,
        'big': rng.randn(200) * 1e6,
        'tiny': rng.randn(200) * 1e-12,
        'strided': rng.randn(120)[::3],
    }
    base = rng.randn(48)
    base[0] = 0.0
    other = rng.randn(48)
    motions['lin_a'] = base
    motions['lin_b'] = other
    motions['lin_comb'] = 1.7 * base - 0.3 * other
    motions['neg_a'] = -base
    motions['shift_a'] = np.concatenate([np.zeros(5), base])
    motions['trunc_a'] = base[:20]
    for fac in (2, 3, 8):
        t_f = np.arange((len(base) - 1) * fac + 1) / fac
        motions['refine%i_a' % fac] = np.interp(t_f, np.arange(len(base)), base)

    period_sets = {
        'sorted': np.array([0.05, 0.1, 0.3, 0.5, 1.0, 2.0, 4.0]),
        'unsorted': np.array([2.0, 0.1, 4.0, 0.05, 1.0, 0.3, 0.5]),
        'zero_first': np.array([0.0, 0.05, 0.1, 0.3, 0.5, 1.0, 2.0, 4.0]),
        'zero_only': np.array([0.0]),
        'single': np.array([0.7]),
        'single_list': [0.7],
        'list': [0.2, 0.4, 0.8],
        'list_zero_first': [0, 0.2, 0.4],
        'tuple': (1.0, 0.5),
        'ints': np.array([1, 2, 3]),
        'ints_zero_first': np.array([0, 1, 2]),
        'zero_mid': np.array([0.5, 0.0, 1.0]),
        'zero_twice': np.array([0.0, 0.0, 1.0]),
        'neg_zero_first': np.array([-0.0, 0.3]),
        'short': np.array([0.001, 0.01, 0.03, 0.059, 0.06, 0.061]),
        'linspace': np.linspace(0.01, 5, 40),
        'dup': np.array([0.4, 0.4, 0.4]),
        'long': np.array([10.0, 50.0, 1e3]),
        'f32': np.array([0.25, 0.5], dtype=np.float32),
        'empty': np.array([]),
        'empty_list': [],
        'random': np.sort(rng.uniform(0.02, 6, size=23)),
    }
    dts = {'0.01': 0.01, '0.005': 0.005, 'int1': 1, 'np0.02': np.float64(0.02), '0.1': 0.1, 'f32': np.float32(0.01)}
    xis = {'0': 0.0, 'int0': 0, '0.05': 0.05, 'np0.05': np.float64(0.05), '0.3': 0.3, '0.7071': 0.7071, '0.99': 0.99,
           '0.999999': 0.999999, '1.0': 1.0}

    fns = {
        'response_series': sdof.response_series,
        'nigam': sdof.nigam_and_jennings_response,
        'pseudo': sdof.pseudo_response_spectra,
        'true': sdof.true_response_spectra,
    }

    # full product of records x period sets at the default configuration
    for mk in motions:
        for pk in period_sets:
            for fk in fns:
                call('A:%s:%s:%s' % (fk, mk, pk), fns[fk], motions[mk], 0.01, period_sets[pk], 0.05)
    # configurations: dt and xi
    for mk in ('rnd17', 'rnd64', 'list', 'int', 'hat30', 'zeros40', 'lin_comb', 'one', 'empty'):
        for pk in ('sorted', 'unsorted', 'zero_first', 'zero_only', 'list', 'short', 'ints_zero_first', 'zero_mid'):
            for dk in dts:
                for xk in xis:
                    for fk in fns:
                        call('B:%s:%s:%s:%s:%s' % (fk, mk, pk, dk, xk), fns[fk], motions[mk], dts[dk],
                             period_sets[pk], xis[xk])
    # keyword form
    call('kw:pseudo', sdof.pseudo_response_spectra, motions['rnd64'], 0.01, period_sets['sorted'], xi=0.02)
    call('kw:true', sdof.true_response_spectra, motion=motions['rnd64'], dt=0.01, periods=period_sets['list'], xi=0.02)
    call('kw:series', sdof.response_series, motions['rnd64'], dt=0.02, periods=period_sets['zero_first'], xi=0.2)
    # random inputs
    for j in range(60):
        n = int(rng.randint(2, 300))
        rec = rng.randn(n) * 10 ** rng.uniform(-3, 3)
        npd = int(rng.randint(1, 12))
        pds = rng.uniform(0.01, 8, size=npd)
        if j % 3 == 0:
            pds = np.concatenate([[0.0], pds])
        if j % 4 == 0:
            pds = np.sort(pds)
        dt = float(10 ** rng.uniform(-3, -1))
        xi = float(rng.uniform(0, 1))
        for fk in fns:
            call('R%i:%s' % (j, fk), fns[fk], rec, dt, pds, xi)

    # ---------------------------------------------------------------------------------------------- helpers
    for xk in xis:
        for dk in dts:
            call('ab:arr:%s:%s' % (xk, dk), sdof.compute_a_and_b, xis[xk], 6.2831853 / period_sets['sorted'], dts[dk])
            call('ab:scalar:%s:%s' % (xk, dk), sdof.compute_a_and_b, xis[xk], 3.3, dts[dk])
            call('ab:npscalar:%s:%s' % (xk, dk), sdof.compute_a_and_b, xis[xk], np.float64(12.5), dts[dk])
            call('ab:empty:%s:%s' % (xk, dk), sdof.compute_a_and_b, xis[xk], np.array([]), dts[dk])
            call('ab:inf:%s:%s' % (xk, dk), sdof.compute_a_and_b, xis[xk], np.array([np.inf, 2.0]), dts[dk])
    for mk in ('rnd17', 'int', 'int_all_neg', 'zeros40', 'negzeros8', 'f32', 'one', 'empty', 'list'):
        call('absmax:%s' % mk, sdof.absmax, motions[mk])
    m2 = rng.randn(6, 9)
    call('absmax:2d:None', sdof.absmax, m2)
    call('absmax:2d:0', sdof.absmax, m2, axis=0)
    call('absmax:2d:1', sdof.absmax, m2, 1)
    call('absmax:2d:nan', sdof.absmax, np.where(m2 > 1.0, np.nan, m2), axis=1)
    call('absmax:2d:zeros', sdof.absmax, np.zeros((3, 4)) * -1.0, axis=1)
    call('absmax:2d:emptyrows', sdof.absmax, np.zeros((3, 0)), axis=1)
    call('absmax:2d:norows', sdof.absmax, np.zeros((0, 3)), axis=1)

    for mk in ('rnd17', 'rnd64', 'list', 'int', 'one', 'empty', 'f32'):
        for dk in dts:
            for tdt in (0.01, 0.0025, 0.003, 0.05, 0.0101, 1.0, 0.3):
                for even in (True, False):
                    call('interp:%s:%s:%s:%s' % (mk, dk, tdt, even), time_step.interp_array_to_approx_dt,
                         motions[mk], dts[dk], tdt, even=even)
    call('interp:defaults', time_step.interp_array_to_approx_dt, motions['rnd64'], 0.02)

    # ---------------------------------------------------------------------------------------------- objects
    def snap(asig):
        return encode(vars(asig))

    def history(label, values, dt, steps, **ctor):
        hist = []
        try:
            asig = eqsig.AccSignal(copy.deepcopy(values), dt, **ctor)
        except Exception as e:  # noqa
            log.append((label, ('ctor-exc', type(e).__name__, str(e))))
            return
        hist.append(('init', snap(asig)))
        for step in steps:
            name, args, kwargs = step[0], copy.deepcopy(step[1]), copy.deepcopy(step[2] if len(step) > 2 else {})
            try:
                if name.startswith('get:'):
                    out = getattr(asig, name[4:])
                elif name.startswith('set:'):
                    setattr(asig, name[4:], args[0])
                    out = None
                elif name.startswith('fn:'):
                    out = getattr(sdof, name[3:])(asig, *args, **kwargs)
                else:
                    out = getattr(asig, name)(*args, **kwargs)
                res = ('ok', encode(out))
            except Exception as e:  # noqa
                res = ('exc', type(e).__name__, str(e))
            hist.append((name, res, encode(list(args)), encode(kwargs), snap(asig)))
        log.append((label, hist))

    rt_sets = {
        'arr': np.array([0.1, 0.5, 1.0, 2.0]),
        'short_first': np.array([0.02, 0.5, 1.0]),
        'zero_first': np.array([0.0, 0.04, 0.5, 1.0]),
        'zero_first_long': np.array([0.0, 1.0, 3.0]),
        'list': [0.3, 0.6],
        'list_zero': [0, 0.08, 0.6],
        'zero_only': np.array([0.0]),
        'single': np.array([0.033]),
        'unsorted': np.array([1.0, 0.03, 0.2]),
        'ints': np.array([1, 2]),
        'tuple': (0.05, 0.5),
        'empty': np.array([]),
    }
    sig_values = {
        'rnd': rng.randn(150),
        'list': [0.0, 0.2, -0.1, 0.4, -0.3, 0.05, 0.0, 0.1],
        'int': rng.randint(-4, 5, size=60),
        'zeros': np.zeros(30),
        'short': np.array([0.0, 1.0]),
        'one': np.array([1.0]),
    }
    sig_dts = {'0.01': 0.01, '0.02': 0.02, '0.005': 0.005, 'np0.1': np.float64(0.1)}
    for vk in sig_values:
        for dk in sig_dts:
            for rk in rt_sets:
                for ratio in (4, 1, 10, 2.5):
                    history('H1:%s:%s:%s:%s' % (vk, dk, rk, ratio), sig_values[vk], sig_dts[dk], [
                        ('gen_response_spectrum', (), {'response_times': rt_sets[rk], 'min_dt_ratio': ratio}),
                        ('get:s_a', ()), ('get:s_v', ()), ('get:s_d', ()),
                    ])
            # default response times, several steps that exercise the cache flags
            history('H2:%s:%s' % (vk, dk), sig_values[vk], sig_dts[dk], [
                ('get:s_a', ()),
                ('gen_response_spectrum', (), {'xi': 0.2}),
                ('get:s_d', ()),
                ('set:response_times', (rt_sets['zero_first'],)),
                ('get:s_v', ()),
                ('generate_response_spectrum', (rt_sets['list'],), {'xi': 0.0, 'min_dt_ratio': 8}),
                ('response_series', (), {}),
                ('response_series', (rt_sets['unsorted'],), {'xi': 0.1}),
                ('get:s_a', ()),
                ('gen_response_spectrum', (rt_sets['short_first'], 0.5, 1), {}),
                ('get:s_a', ()),
                ('clear_cache', (), {}),
                ('get:s_d', ()),
                ('fn:calc_resp_uke_spectrum', (), {}),
                ('fn:calc_resp_uke_spectrum', (), {'periods': [0.2, 0.5], 'xi': 0.1}),
                ('fn:calc_input_energy_spectrum', (), {}),
                ('fn:calc_input_energy_spectrum', (), {'periods': np.array([0.0, 0.2, 0.5]), 'xi': 0.1, 'series': True}),
                ('gen_response_spectrum', (rt_sets['zero_only'],), {}),
                ('get:s_a', ()),
                ('gen_response_spectrum', (rt_sets['empty'],), {}),
                ('gen_response_spectrum', (rt_sets['arr'],), {}),
                ('get:s_a', ()),
            ])
    history('H3:ctor_rt', sig_values['rnd'], 0.01, [
        ('get:s_a', ()), ('gen_response_spectrum', (), {'min_dt_ratio': 20}), ('get:s_a', ()),
    ], response_times=(0.1, 1.0))
    history('H3:ctor_range', sig_values['rnd'], 0.01, [
        ('get:s_v', ()), ('response_series', (), {}),
    ], response_period_range=(0.05, 3))
    history('H3:verbose', sig_values['list'], 0.01, [
        ('gen_response_spectrum', (rt_sets['list'],), {}), ('get:s_a', ()),
    ], verbose=0)

    with open(out_path, 'wb') as f:
        pickle.dump(log, f, protocol=2)


# --------------------------------------------------------------------------------------------------------------
# driver side
# --------------------------------------------------------------------------------------------------------------

def first_difference(a, b, path=''):
    if type(a) != type(b):
        return '%s: type %r vs %r' % (path, type(a), type(b))
    if isinstance(a, (list, tuple)):
        if len(a) != len(b):
            return '%s: length %i vs %i' % (path, len(a), len(b))
        for i, (x, y) in enumerate(zip(a, b)):
            d = first_difference(x, y, '%s[%i]' % (path, i))
            if d:
                return d
        return None
    if a != b:
        return '%s: %r vs %r' % (path, str(a)[:200], str(b)[:200])
    return None


def main():
    tmp = tempfile.mkdtemp(prefix='c02_%s_' % TWIN, dir='/tmp')
    orig_root = os.path.join(tmp, 'orig')
    os.makedirs(orig_root)
    subprocess.check_call('git archive HEAD eqsig | tar -x -C "%s"' % orig_root, shell=True, cwd=WORKTREE)
    outs = {}
    procs = {}
    for name, root in (('orig', orig_root), ('edit', WORKTREE)):
        outs[name] = os.path.join(tmp, name + '.pkl')
        env = dict(os.environ)
        env.pop('PYTHONPATH', None)
        procs[name] = subprocess.Popen([sys.executable, os.path.abspath(__file__), '--worker', root, outs[name]],
                                       cwd=root, env=env)
    for name in procs:
        if procs[name].wait() != 0:
            print('worker %s failed' % name)
            return 1
    with open(outs['orig'], 'rb') as f:
        orig = pickle.load(f)
    with open(outs['edit'], 'rb') as f:
        edit = pickle.load(f)
    if len(orig) != len(edit):
        print('different number of records: %i vs %i' % (len(orig), len(edit)))
        return 1
    n_bad = 0
    n_exc = 0
    for o, e in zip(orig, edit):
        if o[0] != e[0]:
            print('label mismatch %s vs %s' % (o[0], e[0]))
            return 1
        if len(o) > 1 and isinstance(o[1], tuple) and o[1] and o[1][0] == 'exc':
            n_exc += 1
        if o != e:
            n_bad += 1
            if n_bad <= 20:
                print('MISMATCH %s: %s' % (o[0], first_difference(o, e)))
    print('%s: compared %i records (%i of them raise in the original), %i mismatches'
          % (TWIN, len(orig), n_exc, n_bad))
    return 1 if n_bad else 0


if __name__ == '__main__':
    if len(sys.argv) == 4 and sys.argv[1] == '--worker':
        worker(sys.argv[2], sys.argv[3])
        sys.exit(0)
    sys.exit(main())

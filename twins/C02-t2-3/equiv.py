"""
Equivalence check for twin3 (run with twin3 applied, cwd = the worktree).

twin3 restructures the response-spectra cache handling of eqsig.single.AccSignal (gen_response_spectrum,
s_a / s_v / s_d): a private method fills the cache, the three properties share one private getter, the first
non-zero period is picked by index and the 'no interpolation' case is a default that is overridden.

The ORIGINAL package (git HEAD) and the edited working tree are driven through the same multi-step histories on
AccSignal objects; after every step the returned value, the raised exception, the printed text and the full
object state (__dict__, recursively, incl. dtype/shape and aliasing of values) have to be identical.
"""
import contextlib
import io
import os
import subprocess
import sys
import tempfile

import numpy as np

HERE = os.getcwd()


def load_both():
    """returns (original eqsig package, edited eqsig package)"""
    tmp = tempfile.mkdtemp(prefix='eqsig_orig_', dir='/tmp')
    subprocess.check_call('git archive HEAD eqsig | tar -x -C %s' % tmp, shell=True, cwd=HERE)

    def fresh(path):
        for k in [k for k in sys.modules if k == 'eqsig' or k.startswith('eqsig.')]:
            del sys.modules[k]
        sys.path.insert(0, path)
        try:
            import eqsig
            import eqsig.single  # noqa
            assert os.path.abspath(eqsig.__file__).startswith(path), (eqsig.__file__, path)
            return eqsig
        finally:
            sys.path.remove(path)

    new = fresh(HERE)
    old = fresh(tmp)
    assert old is not new and old.single is not new.single and old.AccSignal is not new.AccSignal
    assert new.single.__file__.startswith(HERE) and old.single.__file__.startswith(tmp)
    return old, new


def same(x, y, what):
    assert type(x) is type(y), (what, type(x), type(y))
    if isinstance(x, (tuple, list)):
        assert len(x) == len(y), what
        for k, (p, q) in enumerate(zip(x, y)):
            same(p, q, what + ('[%i]' % k,))
    elif isinstance(x, dict):
        assert list(x.keys()) == list(y.keys()), (what, list(x.keys()), list(y.keys()))  # same keys, same creation order
        for k in x:
            same(x[k], y[k], what + (k,))
    elif isinstance(x, np.ndarray):
        assert x.dtype == y.dtype, (what, x.dtype, y.dtype)
        assert x.shape == y.shape, (what, x.shape, y.shape)
        assert x.flags['C_CONTIGUOUS'] == y.flags['C_CONTIGUOUS'], what
        assert np.array_equal(x, y, equal_nan=True), what
        if x.dtype.kind == 'f':
            assert np.array_equal(np.signbit(x), np.signbit(y)), what
    else:
        assert x == y or (x != x and y != y), (what, x, y)


def aliasing(obj):
    """which of the array-valued attributes are the very same object / share memory"""
    d = obj.__dict__
    keys = [k for k in d if isinstance(d[k], np.ndarray)]
    return [(k1, k2, d[k1] is d[k2], bool(np.shares_memory(d[k1], d[k2]))) for k1 in keys for k2 in keys if k1 < k2]


class Twin(object):
    """drives an original and an edited object through the same steps"""

    def __init__(self, old, new, make):
        self.objs = [make(old), make(new)]
        self.pkgs = [old, new]
        self.n = 0
        self.compare_state(('init',))

    def compare_state(self, what):
        o, n = self.objs
        same(o.__dict__, n.__dict__, what + ('state',))
        assert aliasing(o) == aliasing(n), what
        assert (o.values is o._values) and (n.values is n._values)

    def step(self, fn, what):
        outs = []
        for obj, pkg in zip(self.objs, self.pkgs):
            buf = io.StringIO()
            try:
                with contextlib.redirect_stdout(buf), np.errstate(all='ignore'):
                    r = fn(obj, pkg)
            except Exception as e:
                r = ('EXC', type(e).__name__, str(e))
            outs.append((r, buf.getvalue()))
        same(outs[0], outs[1], what)
        self.compare_state(what)
        self.n += 1
        return outs[1][0]


def main():
    old, new = load_both()
    rng = np.random.RandomState(3)
    total = 0
    n_raised = 0

    def rec(n):
        v = rng.randn(n)
        v[0] = 0.0
        return v

    # ---- 1. systematic: (dt, response_times, min_dt_ratio, xi) so that every integer refinement factor 1..8 occurs
    rts = [None,
           np.array([0.1, 0.5, 2.0]),
           np.array([0.0, 0.1, 0.5, 2.0]),
           np.array([2.0, 0.1, 0.5]),  # unordered: the first one decides
           np.linspace(0.0, 5, 21),
           np.linspace(0.2, 5, 15),
           [0.0, 0.3, 1.0],  # list (stored as given)
           [0.3, 1.0],
           (0.0, 0.3),
           np.array([1, 2, 3]),  # int dtype
           np.array([0, 1, 2]),
           np.array([0.05]),
           np.array([0.0]),  # IndexError in both
           [],  # IndexError in both
           np.array([0.0, 0.0, 1.0])]  # division by zero / inf frequency: same garbage or same exception in both
    factors_seen = set()
    for dt in [0.005, 0.01, 0.02, 0.04, 0.05, 0.1]:
        for min_dt_ratio in [1, 2, 3, 4, 5, 6, 7, 8, 2.5]:
            for rt in rts:
                xi = [-1, 0.0, 0.05, 0.3, 0.99][rng.randint(5)]
                vals = rec(rng.randint(2, 60))
                tw = Twin(old, new, lambda pkg: pkg.AccSignal(vals.copy(), dt))
                r = tw.step(lambda a, pkg: a.gen_response_spectrum(response_times=rt, xi=xi, min_dt_ratio=min_dt_ratio),
                            ('sys', dt, min_dt_ratio, xi))
                n_raised += isinstance(r, tuple)
                r = tw.step(lambda a, pkg: (a.s_a, a.s_v, a.s_d, a.s_a is a._s_a, a.s_v is a._s_v, a.s_d is a._s_d), ('sys get',))
                n_raised += isinstance(r, tuple) and isinstance(r[0], str) and r[0] == 'EXC'
                total += tw.n
                a = tw.objs[1]
                if a._cached_response_spectra and a.response_times[0] != 0:
                    factors_seen.add(float(round(dt / max(a.response_times[0] / 20, dt / min_dt_ratio), 6)))
    assert {1.0, 2.0, 3.0, 4.0, 5.0, 6.0, 7.0, 8.0} <= {f for f in factors_seen} | {1.0}, sorted(factors_seen)

    # ---- 2. random multi-step histories
    def random_rt():
        m = rng.randint(1, 8)
        rt = 10 ** rng.uniform(-1.5, 0.8, size=m)
        if rng.rand() < 0.3:
            rt[0] = 0.0
        c = rng.rand()
        return list(rt) if c < 0.2 else (tuple(rt) if c < 0.3 else rt)

    for h in range(120):
        vals = rec(rng.randint(2, 150))
        if rng.rand() < 0.15:
            vals = rng.randint(-4, 5, size=len(vals))  # integer record
        dt = float(rng.choice([0.005, 0.01, 0.02, 0.05]))
        kw = {}
        if rng.rand() < 0.4:
            kw['response_times'] = random_rt()
        if rng.rand() < 0.3:
            kw['response_period_range'] = (0.2, 3.0)
        if rng.rand() < 0.2:
            kw['verbose'] = 1
        tw = Twin(old, new, lambda pkg: pkg.AccSignal(vals.copy(), dt, **kw))
        for k in range(rng.randint(3, 12)):
            c = rng.randint(12)
            if c == 0:
                tw.step(lambda a, pkg: a.s_a, (h, k, 's_a'))
            elif c == 1:
                tw.step(lambda a, pkg: a.s_v, (h, k, 's_v'))
            elif c == 2:
                tw.step(lambda a, pkg: a.s_d, (h, k, 's_d'))
            elif c == 3:
                rt = random_rt()
                tw.step(lambda a, pkg: setattr(a, 'response_times', rt), (h, k, 'set rt'))
            elif c == 4:
                rt, xi, r = random_rt(), float(rng.uniform(0, 1)), int(rng.randint(1, 9))
                tw.step(lambda a, pkg: a.gen_response_spectrum(rt, xi, r), (h, k, 'gen pos'))
            elif c == 5:
                xi = float(rng.uniform(0, 1))
                tw.step(lambda a, pkg: a.generate_response_spectrum(xi=xi), (h, k, 'generate xi'))
            elif c == 6:
                r = float(rng.uniform(0.5, 8))
                tw.step(lambda a, pkg: a.gen_response_spectrum(min_dt_ratio=r), (h, k, 'gen ratio'))
            elif c == 7:
                nv = rec(rng.randint(2, 100))
                tw.step(lambda a, pkg: a.reset_values(nv.copy()), (h, k, 'reset'))
            elif c == 8:
                tw.step(lambda a, pkg: a.clear_cache(), (h, k, 'clear'))
            elif c == 9:
                tw.step(lambda a, pkg: a.response_series(xi=0.1), (h, k, 'series'))
            elif c == 10:
                tw.step(lambda a, pkg: (a.velocity, a.displacement, a.pga if hasattr(a, 'pga') else None), (h, k, 'vel'))
            else:
                tw.step(lambda a, pkg: setattr(a, '_cached_xi', 0.2), (h, k, 'xi cache'))
        total += tw.n

    # ---- 3. the spectra only depend on the arguments: direct comparison with sdof on the expected series
    for fac in range(2, 9):
        vals = rec(40)
        dt = 0.08
        rt = np.array([0.0, 20 * dt / fac, 1.0])  # target_dt = dt / fac exactly when min_dt_ratio allows it
        tw = Twin(old, new, lambda pkg: pkg.AccSignal(vals.copy(), dt, response_times=rt.copy()))
        tw.step(lambda a, pkg: a.gen_response_spectrum(min_dt_ratio=16), ('fac', fac))
        tw.step(lambda a, pkg: (a.s_d, a.s_v, a.s_a), ('fac get', fac))
        total += tw.n

    # ---- 4. MemoryError path: same message, cache left untouched
    def boom(*args, **kwargs):
        raise MemoryError('x')
    for interp in [False, True]:
        vals = rec(30)
        tw = Twin(old, new, lambda pkg: pkg.AccSignal(vals.copy(), 0.01, response_times=np.array([0.0, 0.5, 1.0])))
        tw.step(lambda a, pkg: a.s_a, ('mem', 'warm'))
        saved = [pkg.single.dh.pseudo_response_spectra for pkg in (old, new)]
        assert saved[0] is not saved[1]
        for pkg in (old, new):
            pkg.single.dh.pseudo_response_spectra = boom
        try:
            r = tw.step(lambda a, pkg: a.gen_response_spectrum(response_times=[0.01, 1.0] if interp else None), ('mem', interp))
            assert r[0] == 'EXC' and r[1] == 'MemoryError' and 'Out of memory' in r[2], r
            r = tw.step(lambda a, pkg: a.s_v, ('mem', 'get after'))
        finally:
            for pkg, f in zip((old, new), saved):
                pkg.single.dh.pseudo_response_spectra = f
        tw.step(lambda a, pkg: (a.s_v, a.s_d), ('mem', 'recovered'))
        total += tw.n

    # ---- 5. a subclass that overrides generate_response_spectrum is still the one called by the properties
    def make_sub(pkg):
        class Sub(pkg.AccSignal):
            calls = 0

            def generate_response_spectrum(self, response_times=None, xi=-1, min_dt_ratio=4):
                type(self).calls += 1
                super(Sub, self).generate_response_spectrum(response_times=response_times, xi=0.3, min_dt_ratio=1)
        return Sub(np.sin(np.arange(50.0)), 0.02)
    tw = Twin(old, new, make_sub)
    tw.step(lambda a, pkg: (a.s_a, a.s_v, a.s_d, type(a).calls), ('sub', 1))
    tw.step(lambda a, pkg: a.clear_cache(), ('sub', 2))
    tw.step(lambda a, pkg: (a.s_d, type(a).calls), ('sub', 3))
    total += tw.n

    # ---- 6. public interface of the class unchanged (only private helpers were added)
    pub = lambda c: sorted(k for k in dir(c) if not k.startswith('_'))
    assert pub(old.AccSignal) == pub(new.AccSignal)
    for nm in ['s_a', 's_v', 's_d']:
        assert isinstance(getattr(new.AccSignal, nm), property) and getattr(new.AccSignal, nm).fset is None
        assert getattr(new.AccSignal, nm).__doc__ == getattr(old.AccSignal, nm).__doc__
    import inspect
    for nm in ['gen_response_spectrum', 'generate_response_spectrum']:
        assert str(inspect.signature(getattr(old.AccSignal, nm))) == str(inspect.signature(getattr(new.AccSignal, nm)))

    assert n_raised < 0.3 * total, (n_raised, total)
    print('twin3: %i steps identical (results, exceptions, output, object state); refinement factors seen: %s'
          % (total, sorted(factors_seen)))


if __name__ == '__main__':
    main()

"""Equivalence check for twin3 (eqsig/im.py: calc_peak, calculate_peak; eqsig/single.py: AccSignal.pga, .pgv, .pgd).

Run with twin3 applied and cwd = the worktree.  The ORIGINAL package is taken from git (HEAD) into a
temporary directory and imported next to the edited one; both are driven with the same inputs.
Exit status 0 iff everything matches.
"""
import copy
import io
import os
import subprocess
import sys
import tarfile
import tempfile
import warnings

import numpy as np

HERE = os.getcwd()
TOUCHED = [("eqsig.im", "calc_peak"), ("eqsig.im", "calculate_peak"), ("eqsig.single", "AccSignal.pga"),
           ("eqsig.single", "AccSignal.pgv"), ("eqsig.single", "AccSignal.pgd")]


# ----------------------------------------------------------------------------------------------------------------
# loading of the two packages
# ----------------------------------------------------------------------------------------------------------------
def _pop_eqsig_modules():
    mods = {k: v for k, v in sys.modules.items() if k == "eqsig" or k.startswith("eqsig.")}
    for k in mods:
        del sys.modules[k]
    return mods


def load_packages():
    import importlib
    sys.path.insert(0, HERE)
    _pop_eqsig_modules()
    new = importlib.import_module("eqsig")
    importlib.import_module("eqsig.displacements")
    importlib.import_module("eqsig.single")
    importlib.import_module("eqsig.im")
    assert os.path.abspath(new.__file__).startswith(HERE + os.sep), new.__file__
    new_mods = _pop_eqsig_modules()

    tmp = tempfile.mkdtemp(prefix="eqsig_orig_", dir="/tmp")
    blob = subprocess.check_output(["git", "archive", "HEAD", "eqsig"], cwd=HERE)
    tarfile.open(fileobj=io.BytesIO(blob)).extractall(tmp)
    sys.path.insert(0, tmp)
    importlib.invalidate_caches()
    old = importlib.import_module("eqsig")
    importlib.import_module("eqsig.displacements")
    importlib.import_module("eqsig.single")
    importlib.import_module("eqsig.im")
    assert os.path.abspath(old.__file__).startswith(tmp + os.sep), old.__file__
    old_mods = _pop_eqsig_modules()
    sys.path.remove(tmp)
    # leave the edited package as the registered one
    sys.modules.update(new_mods)
    return old_mods, new_mods


OLD, NEW = load_packages()


def check_twin_is_applied():
    import inspect
    differs = False
    for modname, fname in TOUCHED:
        obj_o, obj_n = OLD[modname], NEW[modname]
        for part in fname.split("."):
            obj_o, obj_n = getattr(obj_o, part), getattr(obj_n, part)
        obj_o = obj_o.fget if isinstance(obj_o, property) else obj_o
        obj_n = obj_n.fget if isinstance(obj_n, property) else obj_n
        if inspect.getsource(obj_o) != inspect.getsource(obj_n):
            differs = True
    assert differs, "the twin does not seem to be applied (touched functions have identical source)"


# ----------------------------------------------------------------------------------------------------------------
# comparison helpers
# ----------------------------------------------------------------------------------------------------------------
N_CHECKS = 0


def same_value(a, b, where):
    """bit-for-bit identical values, types, dtypes and shapes"""
    global N_CHECKS
    N_CHECKS += 1
    assert type(a) is type(b), (where, type(a), type(b))
    if isinstance(a, np.ndarray):
        assert a.dtype == b.dtype, (where, a.dtype, b.dtype)
        assert a.shape == b.shape, (where, a.shape, b.shape)
        assert np.array_equal(a, b, equal_nan=(a.dtype.kind in "fc")), (where, a, b)
        if a.dtype.kind == "f":  # also the sign of zeros
            assert np.array_equal(np.signbit(a), np.signbit(b)), (where, "signbit")
        assert (a.base is None) == (b.base is None), (where, "base")
        assert a.flags.writeable == b.flags.writeable, (where, "writeable")
        assert a.flags.c_contiguous == b.flags.c_contiguous, (where, "contiguous")
    elif isinstance(a, (tuple, list)):
        assert len(a) == len(b), (where, len(a), len(b))
        for i, (x, y) in enumerate(zip(a, b)):
            same_value(x, y, where + "[%i]" % i)
    elif isinstance(a, dict):
        assert list(a.keys()) == list(b.keys()), (where, list(a.keys()), list(b.keys()))
        for k in a:
            same_value(a[k], b[k], where + "[%r]" % (k,))
    elif isinstance(a, (float, np.floating)):
        assert (a == b) or (a != a and b != b), (where, a, b)
    else:
        assert a == b, (where, a, b)


def call(fn, *args, **kwargs):
    """outcome of a call: ('ok', value, warnings) or ('exc', type, message)"""
    with warnings.catch_warnings(record=True) as wlist:
        warnings.simplefilter("always")
        try:
            val = fn(*args, **kwargs)
        except Exception as e:  # noqa
            return "exc", type(e), str(e), []
    return "ok", val, None, [(w.category, str(w.message)) for w in wlist]


def same_outcome(o, n, where):
    assert o[0] == n[0], (where, o, n)
    if o[0] == "exc":
        global N_CHECKS
        N_CHECKS += 1
        assert o[1] is n[1] and o[2] == n[2], (where, o, n)
    else:
        same_value(o[1], n[1], where)
        assert o[3] == n[3], (where, "warnings", o[3], n[3])


# ----------------------------------------------------------------------------------------------------------------
# inputs
# ----------------------------------------------------------------------------------------------------------------
RNG = np.random.RandomState(20240608)


def records():
    """acceleration records: random ones and the edge cases of the property's domain"""
    out = []
    for n in [2, 3, 4, 5, 7, 8, 16, 17, 63, 64, 100, 257, 1000, 4099]:
        out.append(("rand%i" % n, RNG.randn(n)))
        out.append(("randbig%i" % n, RNG.randn(n) * 10 ** RNG.uniform(-8, 8)))
    out.append(("zeros2", np.zeros(2)))
    out.append(("zeros50", np.zeros(50)))
    out.append(("negzeros", -np.zeros(9)))
    out.append(("const", np.full(33, 2.5)))
    out.append(("linear", 0.3 + 0.7 * np.arange(41)))
    out.append(("negative", -np.abs(RNG.randn(20))))
    out.append(("positive", np.abs(RNG.randn(20))))
    out.append(("int64", RNG.randint(-50, 50, size=30)))
    out.append(("int32", RNG.randint(-50, 50, size=30).astype(np.int32)))
    out.append(("uint8", RNG.randint(0, 50, size=12).astype(np.uint8)))
    out.append(("bool", RNG.randint(0, 2, size=12).astype(bool)))
    out.append(("float32", RNG.randn(25).astype(np.float32)))
    out.append(("float16", RNG.randn(11).astype(np.float16)))
    out.append(("list_float", list(RNG.randn(13))))
    out.append(("list_pyfloat", [float(x) for x in RNG.randn(13)]))
    out.append(("list_int", [1, -4, 3, 0, 2]))
    out.append(("list2", [0.5, -1.5]))
    out.append(("tuple", tuple(float(x) for x in RNG.randn(6))))
    out.append(("strided", RNG.randn(40)[::3]))
    out.append(("reversed", RNG.randn(15)[::-1]))
    out.append(("readonly", _readonly(RNG.randn(10))))
    out.append(("with_nan", np.array([0.1, np.nan, 0.3, -0.2])))
    out.append(("with_inf", np.array([0.1, np.inf, 0.3, -0.2])))
    out.append(("huge", np.array([1e308, 1e308, -1e308, 3.0])))
    out.append(("tiny", np.array([5e-324, 1e-320, -5e-324, 0.0])))
    out.append(("complex", RNG.randn(6) + 1j * RNG.randn(6)))
    out.append(("len1", np.array([1.5])))
    out.append(("len0", np.array([])))
    out.append(("2d", RNG.randn(4, 3)))
    out.append(("scalar", 3.0))
    return out


def _readonly(a):
    a.setflags(write=False)
    return a


DTS = [0.01, 0.005, 1.0, 2, 1, 0.1, 1e-6, 37.5, -0.02, 0.0, np.float64(0.02), np.float32(0.02), np.int64(3),
       1.0 / 3.0, float("nan"), float("inf")]
TRAPS = [True, False, 1, 0, None, np.True_, np.False_, "False", "no"]  # only `False` itself selects the rectangle rule
OMIT = object()


def snapshot(x):
    return copy.deepcopy(x)


def unchanged(before, after, where):
    if isinstance(before, np.ndarray):
        assert before.dtype == after.dtype and before.shape == after.shape, where
        assert np.array_equal(before, after, equal_nan=(before.dtype.kind in "fc")), (where, "argument was mutated")
    else:
        assert type(before) is type(after), where
        assert repr(before) == repr(after), (where, "argument was mutated")


# ----------------------------------------------------------------------------------------------------------------
# array level
# ----------------------------------------------------------------------------------------------------------------
def check_array_level():
    f_old = OLD["eqsig.displacements"].calc_velo_and_disp_from_accel_arr
    f_new = NEW["eqsig.displacements"].calc_velo_and_disp_from_accel_arr
    g_old = OLD["eqsig.displacements"].velocity_and_displacement_from_acceleration
    g_new = NEW["eqsig.displacements"].velocity_and_displacement_from_acceleration
    for name, rec in records():
        for dt in DTS:
            for trap in TRAPS + [OMIT]:
                for positional in (False, True):
                    where = "arr:%s dt=%r trap=%r pos=%s" % (name, dt, trap, positional)
                    a_o, a_n = snapshot(rec), snapshot(rec)
                    if trap is OMIT:
                        if positional:
                            continue
                        o, n = call(f_old, a_o, dt), call(f_new, a_n, dt)
                    elif positional:
                        o, n = call(f_old, a_o, dt, trap), call(f_new, a_n, dt, trap)
                    else:
                        o, n = call(f_old, a_o, dt, trap=trap), call(f_new, a_n, dt, trap=trap)
                    same_outcome(o, n, where)
                    # arguments: same (absence of) mutation, results never alias the argument differently
                    unchanged(a_o, a_n, where)
                    if isinstance(rec, np.ndarray):
                        unchanged(rec, a_n, where)
                    if o[0] == "ok" and isinstance(a_o, np.ndarray):
                        for k in range(2):
                            assert np.shares_memory(o[1][k], a_o) == np.shares_memory(n[1][k], a_n), (where, "alias")
                        assert np.shares_memory(o[1][0], o[1][1]) == np.shares_memory(n[1][0], n[1][1]), where
                    if o[0] == "ok":
                        # results are writeable and independent in the same way: poke them
                        for k in range(2):
                            if o[1][k].size:
                                o[1][k][0] = 7
                                n[1][k][0] = 7
                        same_value(o[1], n[1], where + " after write")
                        unchanged(a_o, a_n, where + " after write")
        # the deprecated wrapper goes through the same code
        with warnings.catch_warnings():
            warnings.simplefilter("ignore")
            for trap in (True, False):
                same_outcome(call(g_old, snapshot(rec), 0.01, trap=trap), call(g_new, snapshot(rec), 0.01, trap=trap),
                             "wrapper:%s trap=%r" % (name, trap))


# ----------------------------------------------------------------------------------------------------------------
# calc_peak
# ----------------------------------------------------------------------------------------------------------------
def check_calc_peak():
    for fname in ("calc_peak", "calculate_peak"):
        p_old = getattr(OLD["eqsig.im"], fname)
        p_new = getattr(NEW["eqsig.im"], fname)
        for name, rec in records():
            a_o, a_n = snapshot(rec), snapshot(rec)
            same_outcome(call(p_old, a_o), call(p_new, a_n), "%s:%s" % (fname, name))
            unchanged(a_o, a_n, "%s:%s" % (fname, name))
            if isinstance(rec, np.ndarray) and rec.ndim == 1 and rec.dtype.kind in "fi" and rec.size:
                for alpha in (-1, -2.5, 3, 0):
                    with np.errstate(all="ignore"):
                        scaled = alpha * rec
                    same_outcome(call(p_old, scaled), call(p_new, scaled.copy()), "%s:%s*%r" % (fname, name, alpha))
        for trial in range(400):  # many ties between |min| and max, mixed scalar types
            n = RNG.randint(1, 9)
            pool = [int(x) for x in RNG.randint(-4, 5, size=n)]
            mixed = [(float(x) if RNG.rand() < 0.4 else (np.float32(x) if RNG.rand() < 0.3 else x)) for x in pool]
            for seq in (pool, mixed, np.array(pool), np.array(pool, dtype=float), tuple(mixed)):
                same_outcome(call(p_old, seq), call(p_new, copy.deepcopy(seq)), "%s:tie %r" % (fname, seq))
        for seq in ([3], [-3], [0.0, -0.0], [-0.0, 0.0], [2, -2], [-2, 2], [2.0, -2], [np.float32(1.5), -2],
                    [float("nan"), 1.0], [1.0, float("nan")], [-1.0, float("nan"), -3.0], [1, 2.5, -2.5], [True, False],
                    (x for x in [1.0, -4.0, 2.0]), iter([1.0, -4.0]), range(-5, 3), range(3), "ab", [], None, 5,
                    [np.int64(-2 ** 63), 5], [np.int8(-128), np.int8(100)], np.array([-128, 100], dtype=np.int8),
                    [1 + 1j, 2], [[1, 2], [3, 4]], [np.array([1, 2]), np.array([3, 0])]):
            if hasattr(seq, "__next__"):
                lst = list(seq)
                s_o, s_n = iter(lst), iter(lst)
            else:
                s_o, s_n = seq, seq
            same_outcome(call(p_old, s_o), call(p_new, s_n), "%s:%r" % (fname, seq))


# ----------------------------------------------------------------------------------------------------------------
# object level
# ----------------------------------------------------------------------------------------------------------------
STATE_ATTRS = ["_values", "_dt", "_npts", "_velocity", "_displacement", "_cached_params", "_cached_disp_and_velo",
               "_cached_response_spectra", "_cached_fa", "_cached_smooth_fa", "_cached_xi", "_s_a", "_s_v", "_s_d"]


def same_state(so, sn, where):
    assert sorted(so.__dict__.keys()) == sorted(sn.__dict__.keys()), (where, sorted(so.__dict__), sorted(sn.__dict__))
    assert list(so.__dict__.keys()) == list(sn.__dict__.keys()), (where, "attribute creation order")
    for k in so.__dict__:
        same_value(so.__dict__[k], sn.__dict__[k], where + "." + k)
    for k in STATE_ATTRS:
        assert hasattr(so, k) and hasattr(sn, k), (where, k)
    # private helpers may be added or removed by a refactoring; the public surface must stay the same
    pub_o = sorted(k for k in dir(type(so)) if not k.startswith("_"))
    pub_n = sorted(k for k in dir(type(sn)) if not k.startswith("_"))
    assert pub_o == pub_n, (where, "public API", set(pub_o) ^ set(pub_n))


# a step is (label, function(sig) -> observed value)
def _get(attr):
    return attr, lambda s: getattr(s, attr)


def _gen(*a, **k):
    return "gen%r%r" % (a, sorted(k.items())), lambda s: s.generate_displacement_and_velocity_series(*a, **k)


def _reset(vals):
    return "reset", lambda s: s.reset_values(snapshot(vals))


def _poke_values():
    def f(s):
        s._values[0] += 1.0  # in-place edit: caches legitimately go stale, must go stale identically
    return "poke", f


def _flag(value):
    def f(s):
        s._cached_disp_and_velo = value
    return "flag=%r" % (value,), f


def _put_param(key, value):
    def f(s):
        s._cached_params[key] = value
    return "param[%s]" % key, f


def _is_same_obj(attr, private):
    return "identity:" + attr, lambda s: (getattr(s, attr) is getattr(s, private), getattr(s, attr) is getattr(s, attr))


def _peak_identity(attr):
    return "identity:" + attr, lambda s: (getattr(s, attr) is s._cached_params[attr], getattr(s, attr) is getattr(s, attr))


HISTORIES = [
    [_get("velocity"), _get("displacement"), _get("pga"), _get("pgv"), _get("pgd")],
    [_get("pgd"), _get("pgv"), _get("pga"), _get("displacement"), _get("velocity")],
    [_get("pgv"), _get("pgv"), _get("pgd"), _get("pgd"), _get("pga"), _get("pga")],
    [_get("displacement"), _is_same_obj("displacement", "_displacement"), _is_same_obj("velocity", "_velocity")],
    [_get("pga"), _peak_identity("pga"), _get("pgv"), _peak_identity("pgv"), _get("pgd"), _peak_identity("pgd")],
    [_gen(trap=False), _get("velocity"), _get("displacement"), _get("pgv"), _get("pgd")],
    [_gen(False), _get("pgd"), _get("velocity")],
    [_get("velocity"), _get("pgv"), _gen(trap=False), _get("velocity"), _get("pgv"), _get("pgd"), _get("displacement")],
    [_gen(trap=False), _get("pgv"), _gen(), _get("velocity"), _get("pgv"), ("clear", lambda s: s.clear_cache()),
     _get("pgv"), _get("velocity")],
    [_gen(trap=True), _gen(True), _gen(trap=0), _get("velocity"), _gen(trap=None), _get("displacement")],
    [_get("pgv"), ("clear", lambda s: s.clear_cache()), _get("pgd"), _get("velocity")],
    [_get("pgd"), ("stats", lambda s: s.reset_all_motion_stats()), _get("pgd"), _get("pgv"), _get("pga")],
    [_get("velocity"), _reset(RNG.randn(31)), _get("displacement"), _get("pgv"), _reset([1.0, -2.0, 0.5]),
     _get("pga"), _get("pgd"), _get("velocity")],
    [_get("pgv"), _poke_values(), _get("pgv"), _get("velocity"), _get("pga"), ("clear", lambda s: s.clear_cache()),
     _get("pgv"), _get("pga")],
    [_get("velocity"), _flag(False), _get("displacement"), _flag(0), _get("velocity"), _flag(1), _get("velocity"),
     _flag(None), _get("displacement")],
    [_put_param("pgv", 123.0), _get("pgv"), _put_param("pga", None), _get("pga"), _put_param("pgd", 0), _get("pgd"),
     _get("velocity")],
    [("rebase", lambda s: s.rebase_displacement()), _get("displacement"), _get("pgd"),
     ("zrv", lambda s: s.set_zero_residual_velocity()), _get("velocity"), _get("pgv"),
     ("zrd", lambda s: s.set_zero_residual_displacement()), _get("displacement"), _get("pgd"),
     ("zrdv", lambda s: s.set_zero_residual_displacement_and_velocity()), _get("velocity"), _get("displacement")],
    [("ravg", lambda s: s.remove_rolling_average(mtype="velocity", freq_window=5)), _get("velocity"), _get("pgv")],
    [("gen_peaks", lambda s: s.generate_peak_values()), _get("pga"), _get("pgv"), _get("pgd")],
    [("set_v", lambda s: setattr(s, "velocity", 1)), ("set_pga", lambda s: setattr(s, "pga", 1)), _get("pga")],
    [_get("velocity"), ("write_v", lambda s: s.velocity.__setitem__(0, 9.0)), _get("velocity"), _get("pgv"),
     _get("displacement")],
]


def check_object_level():
    cls_o, cls_n = OLD["eqsig.single"].AccSignal, NEW["eqsig.single"].AccSignal
    assert cls_o is not cls_n
    recs = [(nm, r) for nm, r in records()
            if nm not in ("scalar", "len0", "2d", "complex", "with_nan", "with_inf", "huge", "tiny", "readonly")]
    recs += [(nm, r) for nm, r in records() if nm in ("with_nan", "huge", "readonly", "complex")]
    for name, rec in recs:
        for dt in (0.01, 0.005, 1, np.float64(0.02), 2.5):
            for h, hist in enumerate(HISTORIES):
                where0 = "obj:%s dt=%r hist=%i" % (name, dt, h)
                v_o, v_n = snapshot(rec), snapshot(rec)
                with warnings.catch_warnings():
                    warnings.simplefilter("ignore")
                    mk_o, mk_n = call(cls_o, v_o, dt), call(cls_n, v_n, dt)
                assert mk_o[0] == mk_n[0], where0
                if mk_o[0] == "exc":
                    continue
                so, sn = mk_o[1], mk_n[1]
                same_state(so, sn, where0 + " init")
                for label, step in hist:
                    where = where0 + " step=" + label
                    o, n = call(step, so), call(step, sn)
                    same_outcome(o, n, where)
                    same_state(so, sn, where + " state")
                    unchanged(v_o, v_n, where + " ctor argument")
                    if isinstance(rec, np.ndarray):
                        unchanged(rec, v_n, where + " ctor argument")
    # the property itself, on the edited class only (cheap sanity check)
    acc = RNG.randn(200)
    s = cls_n(acc, 0.01)
    v, d = s.velocity, s.displacement
    assert len(v) == len(d) == 200 and v[0] == 0 and d[0] == 0
    assert np.allclose(np.diff(v), 0.01 * (acc[1:] + acc[:-1]) / 2, rtol=1e-9, atol=1e-15)
    assert np.allclose(np.diff(d), 0.01 * (v[1:] + v[:-1]) / 2, rtol=1e-9, atol=1e-15)
    assert s.pga == np.max(np.abs(acc)) and s.pgv == np.max(np.abs(v)) and s.pgd == np.max(np.abs(d))
    s.generate_displacement_and_velocity_series(trap=False)
    v, d = s.velocity, s.displacement
    assert len(v) == len(d) == 200 and v[0] == 0 and d[0] == 0
    assert np.allclose(np.diff(v), 0.01 * acc[:-1], rtol=1e-9, atol=1e-15)


if __name__ == "__main__":
    check_twin_is_applied()
    check_array_level()
    check_calc_peak()
    check_object_level()
    print("equivalent: %i comparisons, all identical" % N_CHECKS)
    sys.exit(0)

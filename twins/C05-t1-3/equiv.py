"""
Equivalence check for twin3 (eqsig/surface.py: the duplicated up/down wave superposition of
calc_surface_energy and get_time_shift_motions extracted into the private helper _calc_surface_acc_series).

Run with twin3 applied and cwd = the worktree.  The ORIGINAL package is taken from
`git archive HEAD eqsig` into a temp dir and imported alongside the edited one.
Exit code 0 iff original and edited behave identically on every case.
"""
import importlib
import io
import os
import subprocess
import sys
import tarfile
import tempfile

HERE = os.getcwd()
sys.path.insert(0, HERE)
import numpy as np  # noqa: E402


def _purge():
    saved = {}
    for k in list(sys.modules):
        if k == 'eqsig' or k.startswith('eqsig.'):
            saved[k] = sys.modules.pop(k)
    return saved


def _load_pair():
    _purge()
    new_pkg = importlib.import_module('eqsig')
    importlib.import_module('eqsig.multiple')
    importlib.import_module('eqsig.stockwell')
    importlib.import_module('eqsig.surface')
    assert new_pkg.__file__.startswith(HERE), new_pkg.__file__
    new_mods = _purge()
    tmp = tempfile.mkdtemp(prefix='eqsig_orig_', dir='/tmp')
    blob = subprocess.check_output(['git', 'archive', 'HEAD', 'eqsig'], cwd=HERE)
    tarfile.open(fileobj=io.BytesIO(blob)).extractall(tmp)
    sys.path.insert(0, tmp)
    old_pkg = importlib.import_module('eqsig')
    importlib.import_module('eqsig.multiple')
    importlib.import_module('eqsig.stockwell')
    importlib.import_module('eqsig.surface')
    assert old_pkg.__file__.startswith(tmp), old_pkg.__file__
    old_mods = _purge()
    sys.path.remove(tmp)
    return old_mods, new_mods


OLD, NEW = _load_pair()


def use(mods):
    _purge()
    sys.modules.update(mods)


N_CHECKS = 0


def same(a, b, where):
    """bit-for-bit equality including type/dtype/shape"""
    global N_CHECKS
    N_CHECKS += 1
    if isinstance(a, np.ndarray) or isinstance(b, np.ndarray):
        assert type(a) is type(b), (where, type(a), type(b))
        assert a.dtype == b.dtype, (where, a.dtype, b.dtype)
        assert a.shape == b.shape, (where, a.shape, b.shape)
        assert np.array_equal(a, b, equal_nan=(a.dtype.kind in 'fc')), (where, a, b)
    elif isinstance(a, (tuple, list)):
        assert type(a) is type(b) and len(a) == len(b), (where, a, b)
        for k, (x, y) in enumerate(zip(a, b)):
            same(x, y, '%s[%i]' % (where, k))
    elif isinstance(a, dict):
        assert isinstance(b, dict) and sorted(a) == sorted(b), (where, a, b)
        for k in a:
            same(a[k], b[k], '%s[%r]' % (where, k))
    elif isinstance(a, float) or isinstance(a, np.generic):
        assert type(a) is type(b), (where, type(a), type(b))
        assert a == b or (a != a and b != b), (where, a, b)
    else:
        assert type(a) is type(b) and a == b, (where, a, b)


import itertools


def call(fn, *a, **k):
    try:
        return ('ok', fn(*a, **k))
    except Exception as e:  # noqa
        return ('exc', type(e).__name__)


def clone(x):
    if isinstance(x, np.ndarray):
        return x.copy()
    if isinstance(x, list):
        return list(x)
    return x


def state(sig):
    return dict(sorted(vars(sig).items()))


def make_pair(cls_name, rec, dt):
    use(OLD)
    so = getattr(OLD['eqsig'], cls_name)(clone(rec), dt)
    use(NEW)
    sn = getattr(NEW['eqsig'], cls_name)(clone(rec), dt)
    return so, sn


def check_sig(so, sn, rec, where):
    same(state(so), state(sn), where + ':state')
    same(so.values, sn.values, where + ':values')
    same(sn.values, np.array(rec), where + ':values unchanged')
    same(so.npts, sn.npts, where + ':npts')
    same(so.time, sn.time, where + ':time')
    assert sn.npts == len(sn.values)


def compare(fname, so, sn, rec, args, kwargs, where):
    S = 'eqsig.surface'
    ref_args = [clone(a) for a in args]
    ref_kw = {k: clone(v) for k, v in kwargs.items()}
    a_o, a_n = [clone(a) for a in args], [clone(a) for a in args]
    k_o, k_n = {k: clone(v) for k, v in kwargs.items()}, {k: clone(v) for k, v in kwargs.items()}
    state_before = {k: clone(v) for k, v in state(sn).items()}
    use(OLD)
    r_o = call(getattr(OLD[S], fname), so, *a_o, **k_o)
    r_o2 = call(getattr(OLD[S], fname), so, *a_o, **k_o)
    use(NEW)
    r_n = call(getattr(NEW[S], fname), sn, *a_n, **k_n)
    r_n2 = call(getattr(NEW[S], fname), sn, *a_n, **k_n)
    same(r_o, r_n, where)
    same(r_o, r_o2, where + ':repeat(old)')
    same(r_n, r_n2, where + ':repeat')
    for k in range(len(args)):
        same(a_o[k], ref_args[k], where + ':arg%i (old)' % k)
        same(a_n[k], ref_args[k], where + ':arg%i (new)' % k)
    for k in kwargs:
        same(k_o[k], ref_kw[k], where + ':kw %s (old)' % k)
        same(k_n[k], ref_kw[k], where + ':kw %s (new)' % k)
    check_sig(so, sn, rec, where)
    same(state(sn), state_before, where + ':state before/after')
    if r_n[0] == 'ok' and isinstance(r_n[1], np.ndarray):
        for r, s, aa, kk in ((r_o[1], so, a_o, k_o), (r_n[1], sn, a_n, k_n)):
            assert not np.shares_memory(r, s.values), where + ': result aliases the signal values'
            for a in list(aa) + list(kk.values()):
                if isinstance(a, np.ndarray):
                    assert not np.shares_memory(r, a), where + ': result aliases an argument'
        assert r_o[1].flags['C_CONTIGUOUS'] == r_n[1].flags['C_CONTIGUOUS'], where
        r_n[1][...] = 0  # writing into the result must not reach the signal
        check_sig(so, sn, rec, where + ':after write')
    return r_n


def main():
    rng = np.random.default_rng(99)
    t = np.linspace(0, 10, 100)
    recs = [
        ('sin100', np.sin(t), 0.1),
        ('rand240', rng.standard_normal(240), 0.01),
        ('rand51', rng.standard_normal(51) * 2, 0.05),
        ('f32', rng.standard_normal(40).astype(np.float32), 0.1),
        ('int60', rng.integers(-20, 20, 60), 0.1),
        ('int16', rng.integers(-20, 20, 30).astype(np.int16), 0.2),
        ('list_f', [float(v) for v in rng.standard_normal(35)], 0.1),
        ('list_i', [int(v) for v in rng.integers(-5, 5, 22)], 0.25),
        ('zeros', np.zeros(16), 0.1),
        ('short3', np.array([1.0, -2.0, 0.5]), 0.1),
        ('short2', np.array([1.0, -2.0]), 0.1),
        ('short1', np.array([3.0]), 0.1),
    ]
    n_ok = 0
    n_tot = 0
    for label, rec, dt in recs:
        tt_opts = [
            ('scalar', 2.3 * dt), ('scalar0', 0.0), ('pyint', 1), ('npscalar', np.float64(3 * dt)),
            ('arr2', np.array([1.0, 2.0]) * dt), ('arr3', np.array([0.0, 0.55, 3.2]) * dt),
            ('list2', [dt * 1.5, dt * 4]), ('list1', [dt * 2]), ('arr1', np.array([dt * 7.7])),
            ('intarr', np.array([1, 2])), ('tuple', (dt, 2 * dt)), ('big', np.array([40.0, 3.0]) * dt),
            ('empty', np.array([])),
        ]
        for cls in (('AccSignal', 'Signal') if label in ('sin100', 'int60', 'list_f') else ('AccSignal',)):
            so, sn = make_pair(cls, rec, dt)
            for (tl, tt) in tt_opts:
                n_tt = len(tt) if hasattr(tt, '__len__') else 1
                red_opts = [(1., 1.), (0.8, 0.6), (1, 1), (rng.random(n_tt), rng.random(n_tt)),
                            (np.arange(1, n_tt + 1), np.arange(2, n_tt + 2)),  # integer arrays: down_waves *= int
                            (rng.random(n_tt), 0.5), (0.5, rng.random(n_tt)),
                            (list(rng.random(n_tt)), list(rng.random(n_tt)))]
                for (ur, dr), nodal, (trim, start), stt in itertools.product(
                        red_opts, (True, False), ((False, False), (True, False), (False, True), (True, True)),
                        (0.0, 3.4 * dt)):
                    kw = dict(nodal=nodal, up_red=ur, down_red=dr, stt=stt, trim=trim, start=start)
                    w = '%s/%s/%s/%r' % (cls, label, tl, kw)
                    for fname in ('calc_surface_energy', 'calc_cum_abs_surface_energy', 'get_time_shift_motions'):
                        r = compare(fname, so, sn, rec, [tt], kw, fname + '/' + w)
                        n_ok += r[0] == 'ok'
                        n_tot += 1
                # defaults and positional spelling
                for fname in ('calc_surface_energy', 'calc_cum_abs_surface_energy', 'get_time_shift_motions'):
                    compare(fname, so, sn, rec, [tt], {}, fname + '/defaults/%s/%s/%s' % (cls, label, tl))
                    compare(fname, so, sn, rec, [tt, False, 0.9, 0.7, dt, True, True], {},
                            fname + '/positional/%s/%s/%s' % (cls, label, tl))
        # after a mutator history the functions still agree and still leave the object alone
        so, sn = make_pair('AccSignal', rec, dt)
        for s_, m_ in ((so, OLD), (sn, NEW)):
            use(m_)
            call(s_.add_constant, 0.25)
            call(s_.running_average, 3)
            call(s_.reset_values, list(np.asarray(rec)[::-1]))
            call(lambda: s_.velocity)
        rec2 = np.array(list(np.asarray(rec)[::-1]))
        for fname in ('calc_surface_energy', 'calc_cum_abs_surface_energy', 'get_time_shift_motions'):
            compare(fname, so, sn, rec2, [np.array([1.2, 2.6]) * dt], dict(trim=True, start=True, stt=dt),
                    fname + '/history/' + label)
    # the new helper is private and the public names are unchanged
    old_pub = sorted(k for k in vars(OLD['eqsig.surface']) if not k.startswith('_'))
    new_pub = sorted(k for k in vars(NEW['eqsig.surface']) if not k.startswith('_'))
    assert old_pub == new_pub, (old_pub, new_pub)
    # trim_to_length (unchanged, sanity)
    for trim, start in itertools.product((False, True), repeat=2):
        vals = rng.standard_normal((2, 50))
        for m_ in (OLD, NEW):
            use(m_)
        ro = call(OLD['eqsig.surface'].trim_to_length, vals.copy(), 40, np.array([0.1, 0.3]), 0.1, trim, start, 0.2)
        rn = call(NEW['eqsig.surface'].trim_to_length, vals.copy(), 40, np.array([0.1, 0.3]), 0.1, trim, start, 0.2)
        same(ro, rn, 'trim_to_length/%s/%s' % (trim, start))
    assert n_ok > 0.5 * n_tot, (n_ok, n_tot)
    print('equiv3: all %i comparisons identical (%i of %i option combinations ran without exception)'
          % (N_CHECKS, n_ok, n_tot))


if __name__ == '__main__':
    main()

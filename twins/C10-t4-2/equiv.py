#!/usr/bin/env python
"""
Equivalence check for twin2 (eqsig.im.calc_sig_dur and calc_sig_dur_vals share the private worker
_calc_sig_dur_from_cumulative).

Run with twin2 applied and cwd = the worktree:

    /venv/bin/python out/equiv2.py

The ORIGINAL package is extracted from git (HEAD) into a temporary directory under /tmp.  The same
deterministic battery of calls is executed in two subprocesses (one importing the original package, one
importing the edited worktree) and the pickled, canonically encoded results (values bit-for-bit, types,
dtypes, shapes, exceptions, warnings, argument mutation and object state) are compared.
Exit status 0 iff everything matches.
"""
import os
import pickle
import shutil
import subprocess
import sys
import tempfile
import types
import warnings

WORKTREE = os.getcwd() if os.path.isdir(os.path.join(os.getcwd(), 'eqsig')) else \
    os.path.dirname(os.path.dirname(os.path.abspath(__file__)))


# ----------------------------------------------------------------------------------------------------------
# canonical encoding (bit exact, NaN safe, type / dtype / shape sensitive)
# ----------------------------------------------------------------------------------------------------------
def encode(obj):
    import numpy as np
    if isinstance(obj, np.ndarray):
        return ('ndarray', obj.dtype.str, obj.shape, np.ascontiguousarray(obj).tobytes())
    if isinstance(obj, np.generic):
        return ('npscalar', type(obj).__name__, obj.dtype.str, obj.tobytes())
    if isinstance(obj, bool) or obj is None or isinstance(obj, (int, str)):
        return (type(obj).__name__, obj)
    if isinstance(obj, float):
        return ('float', obj.hex())
    if isinstance(obj, (tuple, list)):
        return (type(obj).__name__, [encode(o) for o in obj])
    if isinstance(obj, dict):
        return ('dict', [(k, encode(v)) for k, v in obj.items()])  # insertion order matters
    if isinstance(obj, BaseException):
        return ('exception', type(obj).__name__, str(obj))
    return ('repr', type(obj).__name__, repr(obj))


def call(fn, *args, **kwargs):
    """Call and encode the outcome (result or exception) together with the emitted warnings"""
    with warnings.catch_warnings(record=True) as wlist:
        warnings.simplefilter('always')
        try:
            out = fn(*args, **kwargs)
        except Exception as e:  # noqa
            out = e
    return encode(out), [(w.category.__name__, str(w.message)) for w in wlist]


def state_of(asig):
    """Public + private state of a signal object that the functions under test could touch"""
    d = {}
    for k, v in asig.__dict__.items():
        d[k] = v
    return encode(d)


# ----------------------------------------------------------------------------------------------------------
# the battery
# ----------------------------------------------------------------------------------------------------------
def make_records(np, rng):
    records = []
    for n in [1, 2, 3, 4, 5, 9, 17, 64, 256, 3000]:
        for rep in range(3):
            records.append(('rand_n%i_%i' % (n, rep), rng.standard_normal(n) * 10.0 ** rng.integers(-3, 2)))
    records.append(('zeros5', np.zeros(5)))
    records.append(('zeros1', np.zeros(1)))
    records.append(('empty', np.zeros(0)))
    records.append(('ones7', np.ones(7)))
    records.append(('ones100', np.ones(100)))
    records.append(('neg_ones4', -np.ones(4)))
    records.append(('int_rec', np.array([0, 3, -4, 1, 0, 4, -2, 0, 0], dtype=int)))
    records.append(('int_long', rng.integers(-5, 6, 200)))
    records.append(('int32_rec', np.array([0, 1, -1, 2, -2, 0, 1, 1, 1, 0], dtype=np.int32)))
    records.append(('list_rec', [0.0, 0.5, -1.5, 0.25, 1.5, 0.0, -0.1, 0.3, 0.2]))
    records.append(('list_int_rec', [0, 2, -3, 3, 1, 1, 0]))
    records.append(('plateau', np.array([0., 0.1, 0.5, 0.5, -0.5, 0.2, 0.5, 0.1, 0.])))
    records.append(('single_spike', np.array([0., 0., 0., 2.0, 0., 0.])))
    records.append(('two_spikes', np.array([0., 1.0, 0., 0., 0., 1.0, 0.])))
    records.append(('twenty_equal', np.r_[np.zeros(3), np.ones(20), np.zeros(4)]))
    records.append(('spike_first', np.array([3.0, 0., 0., 0., 0.])))
    records.append(('spike_last', np.array([0., 0., 0., 0., -3.0])))
    records.append(('with_nan', np.array([0., 1.0, np.nan, -2.0, 0.5, 0.])))
    records.append(('with_inf', np.array([0., 1.0, np.inf, -2.0, 0.5, 0.])))
    records.append(('float32_rec', rng.standard_normal(50).astype(np.float32)))
    records.append(('small_amp', rng.standard_normal(400) * 0.02))  # never exceeds 0.01 g
    t = np.arange(1500) * 0.01
    records.append(('sweep', np.sin(2 * np.pi * t * (0.5 + t)) * np.exp(-((t - 6) / 3) ** 2) * 3.0))
    records.append(('sweep_small', np.sin(2 * np.pi * t * (0.5 + t)) * np.exp(-((t - 6) / 3) ** 2) * 0.09))
    return records


def compute(eqsig):
    import numpy as np
    rng = np.random.default_rng(20240411)
    results = []

    def add(label, val):
        results.append((label, val))

    dts = [0.01, 0.005, 0.1, 1, 1.0, np.float32(0.02), np.float64(0.0125), 1.0 / 3.0, 2.5e-3]
    fracs = [(0.05, 0.95), (0.05, 0.75), (0.01, 0.99), (0.2, 0.8), (0.5, 0.5000001), (0.3, 0.3), (0.9, 0.1),
             (1e-9, 1 - 1e-9), (np.float64(0.1), np.float64(0.9)), (0.25, 0.5), (0.0, 1.0), (0, 1), (0.05, 1.0)]
    for i in range(6):
        a, b = np.sort(rng.uniform(0, 1, 2))
        fracs.append((float(a), float(b)))

    def cum_abs(asig):
        return np.cumsum(np.abs(asig.values))

    def cum_sq(asig):
        return np.cumsum(asig.values ** 2)

    def cum_sq_list(asig):
        return list(np.cumsum(asig.values ** 2))

    def cum_sq_f32(asig):
        return np.cumsum(asig.values ** 2).astype(np.float32)

    def non_monotonic(asig):
        return np.cumsum(asig.values)

    def scaled_arias(asig):
        return 3.5 * eqsig.im.calc_arias_intensity(asig)

    measures = [('none', None), ('arias', eqsig.im.calc_arias_intensity), ('cav', eqsig.im.calc_cav),
                ('cum_abs', cum_abs), ('cum_sq', cum_sq), ('cum_sq_list', cum_sq_list), ('cum_sq_f32', cum_sq_f32),
                ('non_monotonic', non_monotonic), ('scaled_arias', scaled_arias)]

    records = make_records(np, rng)
    for rname, rec in records:
        n = len(rec)
        # ---------------- array variant ----------------
        for di, dt in enumerate(dts if n <= 64 else dts[:4]):
            motion = rec if isinstance(rec, list) else rec.copy()
            ref = list(rec) if isinstance(rec, list) else rec.copy()
            lab = 'vals/%s/dt%i' % (rname, di)
            add(lab + '/defaults', call(eqsig.im.calc_sig_dur_vals, motion, dt))
            add(lab + '/defaults_se', call(eqsig.im.calc_sig_dur_vals, motion, dt, se=True))
            add(lab + '/deprecated', call(eqsig.im.calc_significant_duration, motion, dt))
            for fi, (s, e) in enumerate(fracs):
                add(lab + '/f%i/kw' % fi, call(eqsig.im.calc_sig_dur_vals, motion, dt, start=s, end=e))
                add(lab + '/f%i/kw_se' % fi, call(eqsig.im.calc_sig_dur_vals, motion, dt, start=s, end=e, se=True))
                add(lab + '/f%i/pos' % fi, call(eqsig.im.calc_sig_dur_vals, motion, dt, s, e, True))
                add(lab + '/f%i/pos_se0' % fi, call(eqsig.im.calc_sig_dur_vals, motion, dt, s, e, 0))
                add(lab + '/f%i/deprecated' % fi, call(eqsig.im.calc_significant_duration, motion, dt, s, e))
            if isinstance(rec, list):
                add(lab + '/arg_untouched', motion == ref)
            else:
                add(lab + '/arg_untouched', bool(np.array_equal(motion, ref, equal_nan=True) and motion.dtype == ref.dtype))
        # ---------------- object variant ----------------
        for di, dt in enumerate(dts[:5] if n <= 64 else dts[:2]):
            asig = eqsig.AccSignal(rec, dt)
            before_state = state_of(asig)
            lab = 'obj/%s/dt%i' % (rname, di)
            add(lab + '/defaults', call(eqsig.im.calc_sig_dur, asig))
            add(lab + '/defaults_se', call(eqsig.im.calc_sig_dur, asig, se=True))
            for mname, m in measures:
                for fi, (s, e) in enumerate(fracs if di < 2 else fracs[:5]):
                    add(lab + '/%s/f%i/kw' % (mname, fi), call(eqsig.im.calc_sig_dur, asig, start=s, end=e, im=m))
                    add(lab + '/%s/f%i/kw_se' % (mname, fi), call(eqsig.im.calc_sig_dur, asig, start=s, end=e, im=m, se=True))
                    add(lab + '/%s/f%i/pos' % (mname, fi), call(eqsig.im.calc_sig_dur, asig, s, e, m, True))
                add(lab + '/%s/only_im' % mname, call(eqsig.im.calc_sig_dur, asig, im=m))
            add(lab + '/state', (before_state == state_of(asig), state_of(asig)))
            add(lab + '/sir', call(eqsig.im.calc_sir, asig))
            # deprecated object API that goes through calc_sig_dur_vals
            add(lab + '/generate_duration_stats', call(asig.generate_duration_stats))
            add(lab + '/state_after_duration_stats', state_of(asig))
            add(lab + '/generate_all_motion_stats', call(asig.generate_all_motion_stats))
            add(lab + '/state_after_all_stats', state_of(asig))
            add(lab + '/sir_after_stats', call(eqsig.im.calc_sir, asig))
        # duck typed record for a user measure (only .dt is used by calc_sig_dur itself)
        if not isinstance(rec, list):
            duck = types.SimpleNamespace(values=rec, dt=0.02, npts=n)
            for mname, m in measures[3:]:
                add('duck/%s/%s' % (rname, mname), call(eqsig.im.calc_sig_dur, duck, 0.1, 0.9, m, True))
            add('duck/%s/none' % rname, call(eqsig.im.calc_sig_dur, duck, se=True))

    # amplitude scaling and zero padding
    base = rng.standard_normal(500) * np.hanning(500)
    for fac in [1.0, 2.0, 0.5, 8.0, 3.7]:
        asig = eqsig.AccSignal(base * fac, 0.01)
        for fi, (s, e) in enumerate(fracs):
            add('scale/%s/f%i/obj' % (fac, fi), call(eqsig.im.calc_sig_dur, asig, s, e, se=True))
            add('scale/%s/f%i/vals' % (fac, fi), call(eqsig.im.calc_sig_dur_vals, base * fac, 0.01, s, e, se=True))
    for k in [0, 1, 5, 33]:
        padded = np.concatenate([np.zeros(k), base])
        asig = eqsig.AccSignal(padded, 0.01)
        for fi, (s, e) in enumerate(fracs):
            add('prepend/k%i/f%i/obj' % (k, fi), call(eqsig.im.calc_sig_dur, asig, s, e, se=True))
            add('prepend/k%i/f%i/obj_cav' % (k, fi), call(eqsig.im.calc_sig_dur, asig, s, e, eqsig.im.calc_cav, True))
            add('prepend/k%i/f%i/vals' % (k, fi), call(eqsig.im.calc_sig_dur_vals, padded, 0.01, s, e, se=True))

    # multi step history on one object
    asig = eqsig.AccSignal(rng.standard_normal(300) * 0.01, 0.02)
    for step in range(4):
        for fi, (s, e) in enumerate(fracs[:6]):
            add('hist/step%i/f%i' % (step, fi), call(eqsig.im.calc_sig_dur, asig, s, e))
            add('hist/step%i/f%i/cav_se' % (step, fi), call(eqsig.im.calc_sig_dur, asig, s, e, im=eqsig.im.calc_cav, se=True))
            add('hist/step%i/f%i/vals' % (step, fi), call(eqsig.im.calc_sig_dur_vals, asig.values, asig.dt, s, e, True))
        add('hist/step%i/duration_stats' % step, call(asig.generate_duration_stats))
        add('hist/step%i/state' % step, state_of(asig))
        if step == 0:
            asig.reset_values(rng.standard_normal(41) * 0.03)
        elif step == 1:
            asig.add_constant(0.007)
        elif step == 2:
            asig.reset_all_motion_stats()
            add("hist/butter", call(asig.butter_pass, (0.5, 10)))
    return results


# ----------------------------------------------------------------------------------------------------------
# driver
# ----------------------------------------------------------------------------------------------------------
def worker(pkg_root, out_file):
    sys.path.insert(0, pkg_root)
    import eqsig
    assert os.path.abspath(eqsig.__file__).startswith(os.path.abspath(pkg_root) + os.sep), eqsig.__file__
    res = compute(eqsig)
    with open(out_file, 'wb') as f:
        pickle.dump(res, f)


def run_worker(pkg_root, out_file):
    env = dict(os.environ)
    env.pop('PYTHONPATH', None)
    subprocess.check_call([sys.executable, os.path.abspath(__file__), '--worker', pkg_root, out_file],
                          cwd=pkg_root, env=env)
    with open(out_file, 'rb') as f:
        return pickle.load(f)


def main():
    tmp = tempfile.mkdtemp(prefix='eqsig_orig_C10_2_', dir='/tmp')
    try:
        orig_root = os.path.join(tmp, 'orig')
        os.makedirs(orig_root)
        subprocess.check_call('git archive HEAD eqsig | tar -x -C "%s"' % orig_root, shell=True, cwd=WORKTREE)
        res_o = run_worker(orig_root, os.path.join(tmp, 'orig.pkl'))
        res_e = run_worker(WORKTREE, os.path.join(tmp, 'edit.pkl'))
    finally:
        shutil.rmtree(tmp, ignore_errors=True)
    n_bad = 0
    if len(res_o) != len(res_e):
        print('different number of results: %i vs %i' % (len(res_o), len(res_e)))
        n_bad += 1
    for (lab_o, val_o), (lab_e, val_e) in zip(res_o, res_e):
        if lab_o != lab_e or val_o != val_e:
            n_bad += 1
            if n_bad < 20:
                print('MISMATCH %s:\n   orig: %r\n   edit: %r' % (lab_o, val_o, val_e))
    n_exc = sum(1 for _, v in res_o if isinstance(v, tuple) and len(v) == 2 and isinstance(v[0], tuple)
                and v[0] and v[0][0] == 'exception')
    print('%i comparisons (%i of them exceptions), %i mismatches' % (len(res_o), n_exc, n_bad))
    return 1 if n_bad else 0


if __name__ == '__main__':
    if len(sys.argv) >= 2 and sys.argv[1] == '--worker':
        worker(sys.argv[2], sys.argv[3])
    else:
        sys.exit(main())

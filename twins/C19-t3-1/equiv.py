"""Equivalence check: ORIGINAL eqsig (git HEAD) versus the EDITED worktree copy.

Run with the twin applied, cwd = the worktree.  Exit status 0 iff everything matches.
"""
import copy
import itertools
import os
import shutil
import subprocess
import sys
import tempfile

import numpy as np

WT = os.getcwd()


def _load_both():
    """Return (orig_pkg, new_pkg): two independent in-process copies of the eqsig package."""
    # edited copy: the worktree
    for k in [k for k in sys.modules if k == 'eqsig' or k.startswith('eqsig.')]:
        del sys.modules[k]
    sys.path.insert(0, WT)
    import eqsig as new_pkg
    assert os.path.realpath(new_pkg.__file__).startswith(os.path.realpath(WT)), new_pkg.__file__
    new_mods = {k: sys.modules.pop(k) for k in list(sys.modules) if k == 'eqsig' or k.startswith('eqsig.')}
    sys.path.remove(WT)
    # original copy: git HEAD
    tmp = tempfile.mkdtemp(prefix='eqsig_orig_', dir='/tmp')
    tar = subprocess.run(['git', 'archive', 'HEAD', 'eqsig'], cwd=WT, check=True, stdout=subprocess.PIPE).stdout
    subprocess.run(['tar', '-x', '-C', tmp], input=tar, check=True)
    sys.path.insert(0, tmp)
    import eqsig as orig_pkg
    assert os.path.realpath(orig_pkg.__file__).startswith(os.path.realpath(tmp)), orig_pkg.__file__
    orig_mods = {k: sys.modules.pop(k) for k in list(sys.modules) if k == 'eqsig' or k.startswith('eqsig.')}
    sys.path.remove(tmp)
    assert not set(map(id, new_mods.values())) & set(map(id, orig_mods.values()))
    return orig_pkg, new_pkg, tmp


ORIG, NEW, _TMP = _load_both()
N_CMP = [0]


def same(a, b, path='result'):
    """Bit-for-bit equality including type, dtype, shape (NaN-safe)."""
    assert type(a) is type(b), (path, type(a), type(b))
    if isinstance(a, np.ndarray):
        assert a.dtype == b.dtype, (path, a.dtype, b.dtype)
        assert a.shape == b.shape, (path, a.shape, b.shape)
        if a.dtype == object:
            for i, (x, y) in enumerate(zip(a.ravel(), b.ravel())):
                same(x, y, '%s[%d]' % (path, i))
        else:
            assert np.ascontiguousarray(a).tobytes() == np.ascontiguousarray(b).tobytes(), \
                (path, 'values differ', np.max(np.abs(a.astype(float) - b.astype(float))) if a.size else None)
    elif isinstance(a, (list, tuple)):
        assert len(a) == len(b), (path, len(a), len(b))
        for i, (x, y) in enumerate(zip(a, b)):
            same(x, y, '%s[%d]' % (path, i))
    elif isinstance(a, dict):
        assert sorted(a, key=str) == sorted(b, key=str), (path, sorted(a, key=str), sorted(b, key=str))
        for k in a:
            same(a[k], b[k], '%s[%r]' % (path, k))
    elif isinstance(a, (float, np.floating)):
        assert np.array(a).tobytes() == np.array(b).tobytes(), (path, a, b)
    else:
        assert a == b or (a is None and b is None), (path, a, b)
    N_CMP[0] += 1


def call(fn, *args, **kwargs):
    try:
        return ('ok', fn(*args, **kwargs))
    except Exception as exc:  # compare exceptions as well
        return ('raise', type(exc).__name__, str(exc))


def obj_state(obj):
    return {k: copy.deepcopy(v) for k, v in vars(obj).items()}

# ---------------------------------------------------------------------------------------------
# surface.py : calc_surface_energy / calc_cum_abs_surface_energy / get_time_shift_motions / trim_to_length
# ---------------------------------------------------------------------------------------------
rng = np.random.RandomState(1912)
FUNCS = ['calc_surface_energy', 'calc_cum_abs_surface_energy', 'get_time_shift_motions']
BOOLS3 = list(itertools.product([True, False], repeat=3))


def make_records():
    recs = []
    for n in [1, 2, 3, 5, 10, 57, 200]:
        recs.append(rng.randn(n))
    recs.append(np.arange(10))  # integer dtype
    recs.append(np.arange(-7, 8, dtype=np.int32))
    recs.append(np.zeros(12))
    recs.append([0.0, 1.0, -2.0, 3.5, 0.0, -1.0, 4.0, 0.25])  # a list
    recs.append(np.sin(np.linspace(0, 10, 100)))
    recs.append(np.concatenate([np.zeros(5), rng.randn(20), np.zeros(5)]))
    recs.append(rng.randn(31).astype(np.float32))
    return recs


def make_travel_times(dt, npts):
    tts = [0.0, 0, dt / 2, dt, 1.5 * dt, 0.37 * dt, 3 * dt, float(rng.uniform(0, 6 * dt)),
           np.float64(2 * dt), [0.0], [dt], [0.0, dt / 2], [dt, 0.0], (0.0, dt, 2.5 * dt),
           np.array([0.0]), np.array([0.0, 0.0]), np.array([dt / 2]), np.array([0.0, dt / 2, dt, 1.5 * dt]),
           np.array([3 * dt, 0.25 * dt, 2 * dt]), np.arange(5) * dt / 2, rng.uniform(0, 8 * dt, size=3),
           rng.uniform(0, 3 * dt, size=6), np.array([0, 1, 2]), np.array([2]), [1, 0],
           np.array([npts * dt, 0.5 * npts * dt]), np.linspace(0, 4 * dt, 5)[::-1]]
    return tts


def n_of(tt):
    return len(tt) if hasattr(tt, '__len__') else 1


def make_reductions(n):
    reds = [(1., 1.), (1, 1), (0.7, 0.4), (2, 3), (np.float64(0.9), np.float64(1.1)), (0.0, 1.0), (-1.0, 0.5),
            (rng.uniform(0.2, 1.2, size=n), rng.uniform(0.2, 1.2, size=n)),
            (np.ones(n), np.ones(n)), (np.arange(1, n + 1), np.arange(n, 0, -1)),
            (np.ones(n) * 0.5, np.zeros(n))]
    return reds


def check_call(fname, values, dt, tt, up_red, down_red, stt, nodal, trim, start, use_default_kw=False):
    sigs = [pkg.AccSignal(copy.deepcopy(values), dt) for pkg in (ORIG, NEW)]
    outs = []
    for pkg, sig in zip((ORIG, NEW), sigs):
        tt_c, ur_c, dr_c = copy.deepcopy(tt), copy.deepcopy(up_red), copy.deepcopy(down_red)
        before = obj_state(sig)
        fn = getattr(pkg.surface, fname)
        if use_default_kw:
            res = call(fn, sig, tt_c)
        else:
            res = call(fn, sig, tt_c, nodal=nodal, up_red=ur_c, down_red=dr_c, stt=stt, trim=trim, start=start)
        # no effect on the arguments or on the record
        same(tt_c, tt, 'travel_times arg')
        same(ur_c, up_red, 'up_red arg')
        same(dr_c, down_red, 'down_red arg')
        same(obj_state(sig), before, 'asig state')
        outs.append(res)
    same(outs[0], outs[1], '%s%r' % (fname, (dt, tt, up_red, down_red, stt, nodal, trim, start)))
    return outs[0]


n_ok = n_raise = 0
records = make_records()
for ri, values in enumerate(records):
    npts = len(values)
    for dt in [0.01, 0.1, 0.5, 0.005][ri % 2::2] if ri > 3 else [0.01, 0.1, 0.5, 0.005]:
        tts = make_travel_times(dt, npts)
        for ti, tt in enumerate(tts):
            n = n_of(tt)
            reds = make_reductions(n)
            # pick a few reductions/stt per case but all nodal x trim x start combos
            for k in range(3):
                up_red, down_red = reds[(ri + ti + 4 * k) % len(reds)]
                stt = [0.0, 0.3, dt, 2.5 * dt, float(rng.uniform(0, 5 * dt)), 0][(ri + 2 * ti + k) % 6]
                for nodal, trim, start in BOOLS3:
                    for fname in FUNCS:
                        r = check_call(fname, values, dt, tt, up_red, down_red, stt, nodal, trim, start)
                        if r[0] == 'ok':
                            n_ok += 1
                        else:
                            n_raise += 1
            check_call(FUNCS[ti % 3], values, dt, tt, None, None, None, None, None, None, use_default_kw=True)

# fully random sweep
for it in range(1500):
    npts = int(rng.randint(1, 120))
    values = rng.randn(npts) if it % 5 else rng.randint(-5, 6, size=npts)
    dt = float(rng.choice([0.005, 0.01, 0.02, 0.1, 0.25, 0.5, 1.0]))
    n = int(rng.randint(1, 6))
    mode = it % 4
    if mode == 0:
        tt = rng.uniform(0, 10 * dt, size=n)
    elif mode == 1:
        tt = rng.randint(0, 12, size=n) * dt / 2
    elif mode == 2:
        tt = float(rng.uniform(0, 10 * dt))
        n = 1
    else:
        tt = list(rng.randint(0, 8, size=n) * dt / 2)
    if it % 3 == 0:
        up_red, down_red = rng.uniform(0, 1.5, size=n), rng.uniform(0, 1.5, size=n)
    else:
        up_red, down_red = float(rng.uniform(0, 1.5)), float(rng.uniform(0, 1.5))
    stt = float(rng.choice([0.0, dt, 3 * dt, rng.uniform(0, 10 * dt)]))
    nodal, trim, start = BOOLS3[it % 8]
    for fname in FUNCS:
        r = check_call(fname, values, dt, tt, up_red, down_red, stt, nodal, trim, start)
        if r[0] == 'ok':
            n_ok += 1
        else:
            n_raise += 1

# multi-step history on one record: calls, reset_values (different length), calls again
for pkgs in [(ORIG, NEW)]:
    sigs = [pkg.AccSignal(np.sin(np.linspace(0, 10, 100)), 0.1) for pkg in pkgs]
    steps = [('call', np.array([0.1, 0.2]), dict(trim=True)),
             ('call', 0.15, dict(trim=False, start=True, stt=0.3)),
             ('fas',), ('reset', rng.randn(37)),
             ('call', np.array([0.0, 0.05, 0.3]), dict(trim=True, start=True, stt=0.2, nodal=False)),
             ('call', [0.1], dict(up_red=0.5, down_red=0.25)),
             ('reset', np.arange(9)),
             ('call', np.array([0.0, 0.1]), dict(trim=True, up_red=np.array([1., .9]), down_red=np.array([1., .9])))]
    for step in steps:
        res = []
        for pkg, sig in zip(pkgs, sigs):
            if step[0] == 'call':
                res.append([call(getattr(pkg.surface, f), sig, copy.deepcopy(step[1]), **copy.deepcopy(step[2]))
                            for f in FUNCS])
            elif step[0] == 'fas':
                res.append(sig.fa_spectrum)
            else:
                sig.reset_values(step[1].copy())
                res.append(sig.npts)
        same(res[0], res[1], 'history %r' % (step[:1],))
        same(obj_state(sigs[0]), obj_state(sigs[1]), 'history state')

# trim_to_length directly
n_trim = 0
for it in range(1200):
    n = int(rng.randint(1, 6))
    npts = int(rng.randint(1, 60))
    dt = float(rng.choice([0.01, 0.1, 0.5]))
    tt = rng.randint(0, 10, size=n) * dt / 2 if it % 2 else rng.uniform(0, 5 * dt, size=n)
    if it % 7 == 0:
        tt = np.zeros(n)
    max_shift = int(np.max(2 * tt / dt))
    values = rng.randn(n, npts + max_shift)
    stt = float(rng.choice([0.0, dt, 2 * dt, 0.3, rng.uniform(0, 6 * dt)]))
    for trim, start in itertools.product([True, False], repeat=2):
        outs = []
        for pkg in (ORIG, NEW):
            v, t = values.copy(), tt.copy()
            r = call(pkg.surface.trim_to_length, v, npts, t, dt, trim=trim, start=start, s2s_travel_time=stt)
            same(v, values, 'trim values arg')
            same(t, tt, 'trim tt arg')
            # aliasing: "no changes required" returns the very same object
            outs.append(r + (r[0] == 'ok' and r[1] is v,))
        same(outs[0], outs[1], 'trim_to_length%r' % ((npts, tt, dt, trim, start, stt),))
        n_trim += 1
    # default keywords / positional use
    same(call(ORIG.surface.trim_to_length, values.copy(), npts, tt, dt),
         call(NEW.surface.trim_to_length, values.copy(), npts, tt, dt), 'trim defaults')
    same(call(ORIG.surface.trim_to_length, values.copy(), npts, tt, dt, True, True, stt),
         call(NEW.surface.trim_to_length, values.copy(), npts, tt, dt, True, True, stt), 'trim positional')

print('surface: %d ok results and %d identical exceptions compared, %d direct trim_to_length calls'
      % (n_ok, n_raise, n_trim))

shutil.rmtree(_TMP, ignore_errors=True)
print('ALL EQUIVALENT (%d comparisons)' % N_CMP[0])
sys.exit(0)

"""
Equivalence program for property C08 (velocity / displacement integrals and peak values).

Run with the edit applied and cwd = the worktree:
    cd <worktree> && PYTHONPATH=<worktree> python out/equivK.py

The ORIGINAL package is taken from git (git archive HEAD eqsig) into a temporary directory.  The same
deterministic battery of cases is run in two subprocesses (one importing the original, one the edited
package); every case yields a digest string (dtype, shape, raw bytes, exception type+message, warnings,
argument mutation, object state) and the two digest lists are compared.  Exit status 0 iff all match.
"""
import hashlib
import io
import json
import os
import subprocess
import sys
import tarfile
import tempfile


# ---------------------------------------------------------------------------------------------
# worker
# ---------------------------------------------------------------------------------------------

def _dig(obj):
    """A bit-exact, deterministic description of a python / numpy value"""
    import numpy as np
    if isinstance(obj, np.ndarray):
        arr = obj
        if arr.dtype == object:
            return "objarr(%s)" % ",".join(_dig(x) for x in arr.ravel().tolist())
        return "arr(%s,%s,%s,own=%s,w=%s)" % (arr.dtype.str, arr.shape,
                                              hashlib.md5(np.ascontiguousarray(arr).tobytes()).hexdigest(),
                                              arr.flags.owndata, arr.flags.writeable)
    if isinstance(obj, np.generic):
        return "%s(%s)" % (type(obj).__name__, obj.tobytes().hex())
    if isinstance(obj, float):
        return "float(%s)" % obj.hex()
    if isinstance(obj, (bool, int, str, type(None), complex)):
        return "%s(%r)" % (type(obj).__name__, obj)
    if isinstance(obj, (tuple, list)):
        return "%s[%s]" % (type(obj).__name__, ";".join(_dig(x) for x in obj))
    if isinstance(obj, dict):
        return "dict{%s}" % ";".join("%s:%s" % (k, _dig(obj[k])) for k in sorted(obj))
    return "obj<%s>" % type(obj).__name__


def _call(fn, *args, **kwargs):
    """Runs fn, returns digest of (value | exception) + warnings"""
    import warnings
    with warnings.catch_warnings(record=True) as wlist:
        warnings.simplefilter("always")
        try:
            out = "ret:" + _dig(fn(*args, **kwargs))
        except BaseException as exc:  # noqa
            out = "exc:%s:%s" % (type(exc).__name__, str(exc)[:200])
    # the location of a warning is part of the behaviour only when it points at the caller (this file);
    # line numbers inside the library legitimately move with any edit
    me = os.path.basename(__file__)
    ws = ["%s|%s|%s" % (w.category.__name__, str(w.message)[:120],
                        "%s:%d" % (me, w.lineno) if os.path.basename(w.filename) == me else "lib")
          for w in wlist]
    return out + "||W:" + "&&".join(ws)


def _make_inputs(np, rng):
    """A list of (tag, factory) acceleration-like inputs; factories return fresh objects"""
    inputs = []

    def add(tag, fac):
        inputs.append((tag, fac))

    lengths = [0, 1, 2, 3, 4, 5, 7, 8, 9, 16, 17, 31, 64, 100, 127, 128, 129, 255, 1000, 4097]
    for n in lengths:
        base = rng.standard_normal(n)
        add("f64_n%d" % n, lambda b=base: b.copy())
        add("f64big_n%d" % n, lambda b=base: b * 1e150)
        add("f64tiny_n%d" % n, lambda b=base: b * 1e-300)
        add("f32_n%d" % n, lambda b=base: b.astype(np.float32))
        add("i64_n%d" % n, lambda b=base: (b * 100).astype(np.int64))
        add("i32_n%d" % n, lambda b=base: (b * 100).astype(np.int32))
        add("i8_n%d" % n, lambda b=base: (b * 40).astype(np.int8))
        add("u8_n%d" % n, lambda b=base: np.abs(b * 40).astype(np.uint8))
        add("list_n%d" % n, lambda b=base: b.tolist())
        add("ilist_n%d" % n, lambda b=base: [int(x * 10) for x in b])
        add("tuple_n%d" % n, lambda b=base: tuple(b.tolist()))
        add("const_n%d" % n, lambda n=n: np.full(n, 2.5))
        add("ramp_n%d" % n, lambda n=n: np.arange(n) * 0.25 - 3.0)
        add("neg_n%d" % n, lambda b=base: -np.abs(b))
        add("pos_n%d" % n, lambda b=base: np.abs(b))
        add("zeros_n%d" % n, lambda n=n: np.zeros(n))
        add("negzeros_n%d" % n, lambda n=n: -np.zeros(n))
        add("strided_n%d" % n, lambda b=base: np.repeat(b, 2)[::2])
        add("rev_n%d" % n, lambda b=base: b[::-1])
        add("ro_n%d" % n, lambda b=base: _readonly(b.copy()))
        if n >= 3:
            for pos in (0, 1, n // 2, n - 1):
                add("nan@%d_n%d" % (pos, n), lambda b=base, pos=pos: _with(b, pos, np.nan))
                add("inf@%d_n%d" % (pos, n), lambda b=base, pos=pos: _with(b, pos, np.inf))
                add("ninf@%d_n%d" % (pos, n), lambda b=base, pos=pos: _with(b, pos, -np.inf))
            add("tie_n%d" % n, lambda b=base: _tie(b))
    # unusual shapes / kinds
    add("2d_3x4", lambda: np.arange(12.0).reshape(3, 4) - 5)
    add("2d_1x5", lambda: np.arange(5.0).reshape(1, 5) - 2)
    add("2d_5x1", lambda: np.arange(5.0).reshape(5, 1) - 2)
    add("2d_1x1", lambda: np.array([[-3.0]]))
    add("2d_2x1", lambda: np.array([[-3.0], [1.0]]))
    add("0d", lambda: np.array(3.0))
    add("scalar", lambda: 3.0)
    add("none", lambda: None)
    add("str", lambda: "abc")
    add("bool", lambda: np.array([True, False, True, True]))
    add("cplx", lambda: np.array([1 + 2j, -3 + 0.5j, 0.25j, 2.0]))
    add("objarr", lambda: np.array([1, -2.5, 3], dtype=object))
    add("i8min", lambda: np.array([-128, 5, 100], dtype=np.int8))
    add("i64min", lambda: np.array([-2 ** 63, 5, 100], dtype=np.int64))
    add("range", lambda: range(-4, 3))
    add("gen", lambda: (x for x in [1.0, -5.0, 2.0]))
    add("pyint_big", lambda: [10 ** 30, -10 ** 31, 5])
    add("mixed", lambda: [1, -2.5, True])
    add("nested", lambda: [[1.0, 2.0], [3.0, -4.0]])
    return inputs


def _readonly(a):
    a.setflags(write=False)
    return a


def _with(b, pos, val):
    c = b.copy()
    c[pos] = val
    return c


def _tie(b):
    c = b.copy()
    m = abs(c).max() + 1.0
    c[0] = -m
    c[-1] = m
    return c


def _snapshot_arg(np, x):
    if isinstance(x, (np.ndarray, list, tuple)):
        return _dig(x)
    return "n/a"


def _array_level(np, eqsig, rng, emit):
    from eqsig import displacements as sd
    from eqsig import im
    inputs = _make_inputs(np, rng)
    dts = [0.01, 0.005, 1.0, 1, 2, 0.0, -0.02, 1e-9, 1e9, np.float32(0.01), np.float64(0.02), np.int64(3),
           float("inf"), float("nan"), 0.1 + 0.2j, np.array(0.01), np.array([0.01]), None, "0.01"]
    traps = [("True", True), ("False", False), ("0", 0), ("1", 1), ("None", None), ("npF", np.False_),
             ("npT", np.True_), ("str", "no"), ("0.0", 0.0), ("[]", [])]
    fns = [("calc", sd.calc_velo_and_disp_from_accel_arr), ("depr", sd.velocity_and_displacement_from_acceleration)]
    count = 0
    for tag, fac in inputs:
        # peaks
        for fname, fn in (("calc_peak", im.calc_peak), ("calculate_peak", im.calculate_peak),
                          ("pkg_calculate_peak", eqsig.calculate_peak)):
            arg = fac()
            emit("peak/%s/%s" % (fname, tag), _call(fn, arg) + "||arg:" + _snapshot_arg(np, arg))
        # integrals: full dt x trap grid for short inputs, reduced grid for the rest
        small = ("_n" not in tag) or any(tag.endswith("_n%d" % k) for k in (0, 1, 2, 3, 5, 17))
        for di, dt in enumerate(dts):
            for ti, (ttag, trap) in enumerate(traps):
                if not small and not (di < 3 and ti < 2) and (count + di + ti) % 11:
                    continue
                for fname, fn in fns:
                    if fname == "depr" and (di + ti) % 3:
                        continue
                    arg = fac()
                    res = _call(fn, arg, dt, trap=trap)
                    emit("int/%s/%s/dt%d/%s" % (fname, tag, di, ttag), res + "||arg:" + _snapshot_arg(np, arg))
        count += 1
    # positional trap, default trap, keyword names
    a = rng.standard_normal(50)
    emit("int/default", _call(sd.calc_velo_and_disp_from_accel_arr, a, 0.01))
    emit("int/positional", _call(sd.calc_velo_and_disp_from_accel_arr, a, 0.01, False))
    emit("int/kw", _call(sd.calc_velo_and_disp_from_accel_arr, acceleration=a, dt=0.01, trap=False))
    emit("int/kwbad", _call(sd.calc_velo_and_disp_from_accel_arr, a, 0.01, trapz=False))
    emit("int/depr_default", _call(sd.velocity_and_displacement_from_acceleration, a, 0.01))
    emit("int/depr_positional", _call(sd.velocity_and_displacement_from_acceleration, a, 0.01, False))
    emit("peak/noarg", _call(im.calc_peak))
    # aliasing: velocity and displacement outputs must not share memory with each other nor the input
    for trap in (True, False):
        v, d = sd.calc_velo_and_disp_from_accel_arr(a, 0.01, trap=trap)
        emit("int/alias/%s" % trap, "%s %s %s" % (np.shares_memory(v, d), np.shares_memory(v, a),
                                                   np.shares_memory(d, a)))
        v[3] = 99.0
        emit("int/alias2/%s" % trap, _dig(d) + _dig(a))


def _state(np, asig):
    cp = asig._cached_params
    return "|".join([
        _dig(asig.values), _dig(asig.npts), _dig(asig.dt), _dig(bool(asig._cached_disp_and_velo)),
        _dig(asig._velocity), _dig(asig._displacement),
        "cp{%s}" % ";".join("%s:%s" % (k, _dig(cp[k])) for k in sorted(cp)),
        _dig(bool(asig._cached_fa)), _dig(bool(asig._cached_smooth_fa)), _dig(bool(asig._cached_response_spectra)),
        _dig([getattr(asig, nm, "missing") for nm in ("t_b01", "a_rms01", "t_595", "sd_start", "sd_end",
                                                        "arias_intensity")]),
    ])


def _object_level(np, eqsig, rng, emit):
    from eqsig import im

    def get(nm):
        return lambda s: getattr(s, nm)

    def op_ident(s):
        return [s.velocity is s.velocity, s.displacement is s.displacement, s.velocity is s._velocity,
                s.pga is s.pga if hasattr(s.pga, "dtype") else True]

    def op_mut_values(s):
        v = s.values
        v[len(v) // 2] += 7  # in place, without clearing caches: peaks / series stay stale
        return None

    def op_mut_velocity(s):
        v = s.velocity
        v[min(2, len(v) - 1)] = -55.5
        return s.pgv

    def op_mut_disp(s):
        d = s.displacement
        d[0] = 123.0
        return s.pgd

    def op_set_values(s):
        s.values = np.zeros(3)  # the setter silently does nothing
        return s.values

    def op_del_param(s):
        return s._cached_params.pop("pgv", "absent")

    ops = [
        ("velocity", get("velocity")), ("displacement", get("displacement")),
        ("pga", get("pga")), ("pgv", get("pgv")), ("pgd", get("pgd")),
        ("gen_trap", lambda s: s.generate_displacement_and_velocity_series()),
        ("gen_trapT", lambda s: s.generate_displacement_and_velocity_series(trap=True)),
        ("gen_rect", lambda s: s.generate_displacement_and_velocity_series(trap=False)),
        ("gen_rect_pos", lambda s: s.generate_displacement_and_velocity_series(False)),
        ("gen_0", lambda s: s.generate_displacement_and_velocity_series(trap=0)),
        ("peakvals", lambda s: s.generate_peak_values()),
        ("clear", lambda s: s.clear_cache()),
        ("reset_stats", lambda s: s.reset_all_motion_stats()),
        ("ident", op_ident),
        ("mut_values", op_mut_values), ("mut_velocity", op_mut_velocity), ("mut_disp", op_mut_disp),
        ("set_values", op_set_values), ("del_param", op_del_param),
        ("reset_values", lambda s: s.reset_values(np.cos(np.arange(s.npts + 1) * 0.3) * 2)),
        ("reset_values_list", lambda s: s.reset_values([1, -4, 2, 3, 0, 1])),
        ("reset_values_short", lambda s: s.reset_values([0.5, -0.25])),
        ("add_constant", lambda s: s.add_constant(0.37)),
        ("add_series", lambda s: s.add_series(np.sin(np.arange(s.npts) * 0.1))),
        ("remove_average", lambda s: s.remove_average()),
        ("remove_poly1", lambda s: s.remove_poly(1)),
        ("rebase", lambda s: s.rebase_displacement()),
        ("zero_res_vel", lambda s: s.set_zero_residual_velocity()),
        ("zero_res_disp", lambda s: s.set_zero_residual_displacement()),
        ("zero_res_both", lambda s: s.set_zero_residual_displacement_and_velocity()),
        ("rolling", lambda s: s.remove_rolling_average(freq_window=20)),
        ("rolling_acc", lambda s: s.remove_rolling_average(mtype="acceleration", freq_window=20)),
        ("running_average", lambda s: s.running_average(3)),
        ("correct_me", lambda s: s.correct_me()),
        ("im_peak_v", lambda s: im.calc_peak(s.velocity)),
        ("dur_stats", lambda s: s.generate_duration_stats()),
        ("cum_stats", lambda s: s.generate_cumulative_stats()),
        ("scaled", lambda s: eqsig.AccSignal(-2.5 * s.values, s.dt).pgd),
    ]
    weights = np.array([6, 6, 6, 6, 6, 2, 1, 3, 1, 1, 1, 2, 2, 2, 2, 2, 2, 1, 1, 2, 1, 1, 2, 1, 1, 1, 1, 1, 1, 1,
                        1, 1, 1, 1, 1, 1, 1, 1], dtype=float)
    assert len(weights) == len(ops)
    weights /= weights.sum()

    def records(k):
        n = int(rng.choice([2, 3, 4, 6, 11, 25, 60, 200, 513]))
        kind = k % 9
        if kind == 0:
            return rng.standard_normal(n)
        if kind == 1:
            return (rng.standard_normal(n) * 50).astype(np.int64)
        if kind == 2:
            return rng.standard_normal(n).tolist()
        if kind == 3:
            return np.full(n, -1.5)
        if kind == 4:
            return np.linspace(-1, 2, n)
        if kind == 5:
            return rng.standard_normal(n).astype(np.float32)
        if kind == 6:
            return tuple(int(x * 9) for x in rng.standard_normal(n))
        if kind == 7:
            return np.sin(np.arange(n) * 0.21) * np.exp(-np.arange(n) * 0.01) * 3
        return -np.abs(rng.standard_normal(n))

    dts = [0.01, 0.005, 0.02, 1.0, 1, 0.1, 1e-3]
    n_hist = 700
    for k in range(n_hist):
        vals = records(k)
        dt = dts[k % len(dts)]
        keep = vals.copy() if isinstance(vals, np.ndarray) else vals
        try:
            asig = eqsig.AccSignal(vals, dt)
        except BaseException as exc:  # noqa
            emit("hist%d/ctor" % k, "exc:%s" % type(exc).__name__)
            continue
        emit("hist%d/ctor" % k, _state(np, asig))
        nops = int(rng.integers(3, 14))
        idx = rng.choice(len(ops), size=nops, p=weights)
        for j, oi in enumerate(idx):
            name, op = ops[int(oi)]
            res = _call(op, asig)
            emit("hist%d/%d/%s" % (k, j, name), res + "##" + _state(np, asig))
        emit("hist%d/arg" % k, _dig(keep) + _dig(vals))
    # every single op right after construction and right after each generate variant
    rec = np.sin(np.arange(300) * 0.17) * np.linspace(0, 2, 300) - 0.1
    for pre in (None, "gen_rect", "gen_trap", "pgv", "pga"):
        for name, op in ops:
            asig = eqsig.AccSignal(rec, 0.01)
            if pre is not None:
                _call(dict(ops)[pre], asig)
            res = _call(op, asig)
            post = [_call(get(nm), asig) for nm in ("pga", "pgv", "pgd", "velocity", "displacement")]
            emit("single/%s/%s" % (pre, name), res + "##" + _state(np, asig) + "##" + "@@".join(post))
    # Signal (non-acceleration) objects and deleted / overwritten attributes
    sig = eqsig.Signal(rec, 0.01)
    for nm in ("velocity", "displacement", "pga", "pgv", "pgd"):
        emit("signal/%s" % nm, _call(get(nm), sig))
    asig = eqsig.AccSignal(rec, 0.01)
    for nm in ("velocity", "displacement", "pga", "pgv", "pgd"):
        emit("setattr/%s" % nm, _call(lambda s, nm=nm: setattr(s, nm, 1.0), asig))
    emit("class/props", _dig([type(getattr(eqsig.AccSignal, nm)).__name__ + ":" + str(getattr(eqsig.AccSignal, nm).__doc__)
                              for nm in ("velocity", "displacement", "pga", "pgv", "pgd")]))


def worker(path):
    sys.path.insert(0, path)
    import numpy as np
    import eqsig
    assert os.path.realpath(os.path.dirname(os.path.dirname(eqsig.__file__))) == os.path.realpath(path), eqsig.__file__
    out = []

    def emit(case, digest):
        out.append([case, hashlib.md5(digest.encode("utf8", "replace")).hexdigest(), digest[:300]])

    np.seterr(all="ignore")
    _array_level(np, eqsig, np.random.default_rng(80808), emit)
    _object_level(np, eqsig, np.random.default_rng(1234), emit)
    json.dump(out, sys.stdout)


# ---------------------------------------------------------------------------------------------
# driver
# ---------------------------------------------------------------------------------------------

def main():
    cwd = os.getcwd()
    with tempfile.TemporaryDirectory() as tmp:
        blob = subprocess.run(["git", "archive", "HEAD", "eqsig"], cwd=cwd, check=True,
                              stdout=subprocess.PIPE).stdout
        with tarfile.open(fileobj=io.BytesIO(blob)) as tf:
            tf.extractall(tmp)
        results = []
        for path in (tmp, cwd):
            env = dict(os.environ)
            env["PYTHONPATH"] = path
            env["PYTHONHASHSEED"] = "0"
            env["PYTHONDONTWRITEBYTECODE"] = "1"
            proc = subprocess.run([sys.executable, os.path.abspath(__file__), "--worker", path], cwd=tmp, env=env,
                                  stdout=subprocess.PIPE)
            if proc.returncode != 0:
                print("worker failed for", path)
                return 2
            results.append(json.loads(proc.stdout.decode()))
    orig, edit = results
    bad = 0
    if len(orig) != len(edit):
        print("different number of cases", len(orig), len(edit))
        bad += 1
    for (c0, h0, d0), (c1, h1, d1) in zip(orig, edit):
        if c0 != c1 or h0 != h1:
            bad += 1
            if bad <= 15:
                print("MISMATCH", c0, c1)
                print("   orig:", d0)
                print("   edit:", d1)
    print("cases: %d, mismatches: %d" % (len(orig), bad))
    return 1 if bad else 0


if __name__ == "__main__":
    if len(sys.argv) == 3 and sys.argv[1] == "--worker":
        worker(sys.argv[2])
    else:
        sys.exit(main())

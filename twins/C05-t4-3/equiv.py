"""
Equivalence check for twin3 (Signal.running_average and AccSignal.remove_rolling_average delegate to the
shared module-level function eqsig.single._calc_centred_rolling_mean).

Run with twin3 applied and cwd = the worktree:
    /venv/bin/python out/equiv3.py

The ORIGINAL package is extracted from git (HEAD) into a temp dir under /tmp.  The same scenario
script is executed in two subprocesses (one importing the original, one importing the edited copy)
and the pickled observations are compared bit-for-bit.
"""
import os
import pickle
import shutil
import subprocess
import sys
import tempfile
import warnings

import numpy as np

TOUCHED = ['eqsig/single.py']


# ----------------------------------------------------------------------------------------------
# generic helpers (observation -> plain picklable data, compared exactly)
# ----------------------------------------------------------------------------------------------
def freeze(obj):
    """Turn a result into nested plain data that can be compared with == (bit exact for arrays)."""
    if isinstance(obj, np.ndarray):
        return ('ndarray', str(obj.dtype), obj.shape, np.ascontiguousarray(obj).tobytes())
    if isinstance(obj, np.generic):
        return ('npscalar', type(obj).__name__, np.asarray(obj).tobytes())
    if isinstance(obj, (list, tuple)):
        return (type(obj).__name__, [freeze(o) for o in obj])
    if isinstance(obj, dict):
        return ('dict', [(repr(k), freeze(v)) for k, v in obj.items()])
    if isinstance(obj, (int, float, complex, str, bool, type(None))):
        return (type(obj).__name__, repr(obj))
    return ('other', type(obj).__name__)


def snapshot(sig):
    """Full object state (instance dict) + derived public views."""
    state = {k: freeze(v) for k, v in sorted(vars(sig).items())}
    state['<values>'] = freeze(sig.values)
    state['<npts>'] = freeze(sig.npts)
    state['<time>'] = freeze(sig.time)
    state['<len==npts>'] = len(sig.values) == sig.npts
    return state


def call(fn, *args, **kwargs):
    try:
        return ('ok', freeze(fn(*args, **kwargs)))
    except Exception as e:  # noqa
        return ('raised', type(e).__name__, str(e))


# ----------------------------------------------------------------------------------------------
# scenarios
# ----------------------------------------------------------------------------------------------
def make_records():
    rng = np.random.RandomState(53)
    recs = []
    for n in (0, 1, 2, 3, 4, 5, 6, 9, 16, 41, 130):
        recs.append(('randn%i' % n, rng.randn(n)))
    recs.append(('list_float', list(rng.randn(23))))
    recs.append(('list_int', [0, 1, -2, 3, 5, -1, 0, 0, 2, 7, -4]))
    recs.append(('tuple_float', tuple(rng.randn(9))))
    recs.append(('int64', rng.randint(-9, 9, size=40)))
    recs.append(('int64_big', rng.randint(-10 ** 6, 10 ** 6, size=25)))
    recs.append(('int32', rng.randint(-9, 9, size=12).astype(np.int32)))
    recs.append(('uint8', rng.randint(0, 255, size=14).astype(np.uint8)))
    recs.append(('float32', rng.randn(31).astype(np.float32)))
    recs.append(('float16', rng.randn(13).astype(np.float16)))
    recs.append(('bool', rng.rand(10) > 0.5))
    recs.append(('zeros', np.zeros(20)))
    recs.append(('zeros_int', np.zeros(6, dtype=int)))
    recs.append(('ones', np.ones(15)))
    recs.append(('with_nan', np.array([0., 1., np.nan, 2., 2., -1., 3., 0.5])))
    recs.append(('with_inf', np.array([0., 1., np.inf, 2., 2., -1., 3., 0.5])))
    recs.append(('sine', np.sin(np.linspace(0, 12, 300)) * 2.3))
    recs.append(('strided', rng.randn(60)[::3]))
    recs.append(('reversed', rng.randn(33)[::-1]))
    ro = rng.randn(14)
    ro.setflags(write=False)
    recs.append(('readonly', ro))
    return recs


def copy_in(rec):
    if isinstance(rec, np.ndarray):
        return rec.copy() if rec.flags.writeable else rec
    return type(rec)(rec)


WARMUPS = ['none', 'all']

# (method, args) sequences; 'ra' = Signal.running_average, 'rra' = AccSignal.remove_rolling_average
HISTORIES = [
    [('ra', 0)], [('ra', 1)], [('ra', 2)], [('ra', 3)], [('ra', 4)], [('ra', 5)], [('ra', 8)], [('ra', 11)],
    [('ra', 1000)], [('ra', 2.0)], [('ra', 3.5)], [('ra', np.int64(4))], [('ra', np.float64(5.0))], [('ra', True)],
    [('ra_default',)],
    [('rra', 'velocity', 5)], [('rra', 'velocity', 1)], [('rra', 'velocity', 0.5)], [('rra', 'velocity', 20)],
    [('rra', 'velocity', 33.3)], [('rra', 'velocity', 1000)],
    [('rra', 'acc', 5)], [('rra', 'acc', 1)], [('rra', 'acc', 0.5)], [('rra', 'acc', 20)], [('rra', 'acc', 1000)],
    [('rra', 'other', 7)], [('rra_default',)],
    [('ra', 3), ('ra', 3)],
    [('ra', 4), ('rra', 'velocity', 10), ('ra', 2)],
    [('rra', 'acc', 10), ('rra', 'velocity', 10), ('rra', 'acc', 25)],
    [('add_constant',), ('ra', 5), ('remove_poly',), ('rra', 'acc', 12)],
    [('reset_list',), ('ra', 3), ('add_series',), ('rra', 'velocity', 8), ('szrv',)],
    [('ra', 6), ('rebase',), ('rra', 'acc', 6), ('szrd',), ('ra', 2)],
    [('reset_same',), ('ra', 3), ('reset_int',), ('ra', 3), ('rra', 'acc', 9)],
    [('butter',), ('ra', 5), ('rra', 'velocity', 15)],
]


def apply_step(eqsig, sig, step, rng):
    op = step[0]
    is_acc = isinstance(sig, eqsig.AccSignal)
    if op == 'ra':
        return call(sig.running_average, step[1])
    if op == 'ra_default':
        return call(sig.running_average)
    if op == 'rra':
        if not is_acc:
            return call(sig.running_average, width=int(step[2]) if step[2] >= 1 else 1)
        return call(sig.remove_rolling_average, mtype=step[1], freq_window=step[2])
    if op == 'rra_default':
        if not is_acc:
            return ('skipped',)
        return call(sig.remove_rolling_average)
    if op in ('szrv', 'szrd', 'rebase') and not is_acc:
        return ('skipped',)
    if op == 'szrv':
        return call(sig.set_zero_residual_velocity)
    if op == 'szrd':
        return call(sig.set_zero_residual_displacement)
    if op == 'rebase':
        return call(sig.rebase_displacement)
    if op == 'add_constant':
        return call(sig.add_constant, 0.37)
    if op == 'remove_poly':
        return call(sig.remove_poly, 1)
    if op == 'butter':
        return call(sig.butter_pass, (0.5, 10))
    if op == 'add_series':
        return call(sig.add_series, list(rng.randn(sig.npts)))
    if op == 'reset_list':
        return call(sig.reset_values, list(rng.randn(sig.npts + 2)))
    if op == 'reset_int':
        return call(sig.reset_values, [int(v) for v in rng.randint(-50, 50, size=sig.npts + 1)])
    if op == 'reset_same':
        return call(sig.reset_values, sig.values)
    raise ValueError(step)


def run_scenarios(eqsig):
    out = []
    for name, rec in make_records():
        for cls_name in ('AccSignal', 'Signal'):
            for dt in (0.01, 0.1):
                for warm in WARMUPS:
                    for hi, hist in enumerate(HISTORIES):
                        rng = np.random.RandomState(7)
                        arg = copy_in(rec)
                        before = freeze(arg)
                        made = call(lambda: 0)
                        try:
                            sig = getattr(eqsig, cls_name)(arg, dt)
                        except Exception as e:  # noqa
                            out.append({'key': (name, cls_name, dt, warm, hi), 'ctor': (type(e).__name__, str(e))})
                            continue
                        if warm == 'all':
                            if cls_name == 'AccSignal':
                                call(lambda: sig.velocity)
                                call(lambda: sig.pga)
                                call(lambda: sig.pgv)
                            call(lambda: sig.fa_spectrum)
                            call(lambda: sig.smooth_fa_spectrum)
                        obs = {'key': (name, cls_name, dt, warm, hi)}
                        aliases = []
                        for si, step in enumerate(hist):
                            held = sig.values  # reference a caller may hold before the step
                            vel_held = getattr(sig, '_velocity', None)
                            res = apply_step(eqsig, sig, step, rng)
                            aliases.append(held)
                            obs['step%i' % si] = res
                            obs['state%i' % si] = snapshot(sig)
                            obs['held%i' % si] = freeze(held)
                            obs['held_is_values%i' % si] = held is sig.values
                            obs['shares%i' % si] = bool(np.shares_memory(held, sig.values))
                            obs['vel_held%i' % si] = freeze(vel_held)
                            obs['vel_shares%i' % si] = bool(vel_held is not None
                                                            and np.shares_memory(vel_held, sig.values))
                            obs['arg_unchanged%i' % si] = freeze(arg) == before
                            obs['arg_aliased%i' % si] = bool(isinstance(arg, np.ndarray)
                                                              and np.shares_memory(arg, sig.values))
                            obs['flags%i' % si] = (bool(sig.values.flags.writeable), bool(sig.values.flags.owndata),
                                                   bool(sig.values.flags.c_contiguous))
                        if cls_name == 'AccSignal':
                            obs['disp_end'] = call(lambda: sig.displacement)
                            obs['vel_end'] = call(lambda: sig.velocity)
                            obs['pga_end'] = call(lambda: sig.pga)
                        obs['fa_end'] = call(lambda: sig.fa_spectrum)
                        obs['final'] = snapshot(sig)
                        obs['aliases_final'] = [freeze(a) for a in aliases]
                        out.append(obs)

    # two objects built from the same caller array, and a Cluster: edits must stay private to each object
    rng = np.random.RandomState(3)
    a = rng.randn(50)
    b = rng.randint(-5, 5, size=50)
    s1 = eqsig.AccSignal(a, 0.01)
    s2 = eqsig.Signal(a, 0.01)
    r1 = call(s1.running_average, 5)
    r2 = call(s2.running_average, 2)
    r3 = call(s1.remove_rolling_average, 'acc', 10)
    out.append({'key': 'two_objects', 'step0': r1, 'step1': r2, 'step2': r3, 's1': snapshot(s1), 's2': snapshot(s2),
                'a': freeze(a)})
    cl = eqsig.Cluster([a, b], 0.01, stypes='acc')
    r4 = call(cl.signal_by_index(1).running_average, 3)
    r5 = call(cl.signal_by_index(0).remove_rolling_average)
    out.append({'key': 'cluster', 'step0': r4, 'step1': r5, 's0': snapshot(cl.signal_by_index(0)),
                's1': snapshot(cl.signal_by_index(1)), 'a': freeze(a), 'b': freeze(b)})
    # public names of the module are unchanged
    import eqsig.single as single
    out.append({'key': 'namespace', 'public': sorted(n for n in vars(single) if not n.startswith('_')),
                'sig_attrs': sorted(n for n in vars(single.Signal)), 'acc_attrs': sorted(n for n in vars(single.AccSignal))})
    return out


# ----------------------------------------------------------------------------------------------
# driver
# ----------------------------------------------------------------------------------------------
def worker(root, outpath):
    root = os.path.realpath(root)
    sys.path.insert(0, root)
    os.chdir(root)
    warnings.simplefilter('ignore')
    np.seterr(all='ignore')
    import eqsig
    assert os.path.realpath(eqsig.__file__).startswith(root + os.sep), (eqsig.__file__, root)
    res = run_scenarios(eqsig)
    with open(outpath, 'wb') as f:
        pickle.dump(res, f)


def diff_path(a, b, path=''):
    if type(a) != type(b):
        return '%s: type %s vs %s' % (path, type(a), type(b))
    if isinstance(a, dict):
        if sorted(a) != sorted(b):
            return '%s: keys %s vs %s' % (path, sorted(a), sorted(b))
        for k in a:
            d = diff_path(a[k], b[k], path + '/' + str(k))
            if d:
                return d
        return None
    if isinstance(a, (list, tuple)):
        if len(a) != len(b):
            return '%s: len %i vs %i' % (path, len(a), len(b))
        for i, (x, y) in enumerate(zip(a, b)):
            d = diff_path(x, y, path + '[%i]' % i)
            if d:
                return d
        return None
    if a != b:
        return '%s: %r vs %r' % (path, a if not isinstance(a, bytes) else a[:40], b if not isinstance(b, bytes) else b[:40])
    return None


def main():
    here = os.path.realpath(os.getcwd())
    assert os.path.isdir(os.path.join(here, 'eqsig')), 'run with cwd = the worktree'
    tmp = tempfile.mkdtemp(prefix='c05_equiv3_', dir='/tmp')
    try:
        subprocess.check_call('git archive HEAD eqsig | tar -x -C "%s"' % tmp, shell=True, cwd=here)
        changed = False
        for rel in TOUCHED:
            with open(os.path.join(tmp, rel)) as f0, open(os.path.join(here, rel)) as f1:
                changed = changed or (f0.read() != f1.read())
        assert changed, 'twin3 does not seem to be applied (touched files identical to HEAD)'
        outs = {}
        for tag, root in (('orig', tmp), ('edit', here)):
            outpath = os.path.join(tmp, tag + '.pkl')
            subprocess.check_call([sys.executable, os.path.abspath(__file__), '--worker', root, outpath], cwd=root)
            with open(outpath, 'rb') as f:
                outs[tag] = pickle.load(f)
        assert len(outs['orig']) == len(outs['edit']) and len(outs['orig']) > 100
        n_ok_steps = 0
        n_raise_steps = 0
        for o, e in zip(outs['orig'], outs['edit']):
            d = diff_path(o, e)
            assert d is None, 'MISMATCH in scenario %r: %s' % (o.get('key'), d)
            for k, v in o.items():
                if k.startswith('step'):
                    if v[0] == 'ok':
                        n_ok_steps += 1
                    else:
                        n_raise_steps += 1
        assert n_ok_steps > 500 and n_raise_steps > 50, (n_ok_steps, n_raise_steps)
        print('equiv3: %i scenarios identical (%i successful steps, %i raising steps)' % (
            len(outs['orig']), n_ok_steps, n_raise_steps))
    finally:
        shutil.rmtree(tmp, ignore_errors=True)


if __name__ == '__main__':
    if len(sys.argv) > 1 and sys.argv[1] == '--worker':
        worker(sys.argv[2], sys.argv[3])
    else:
        main()

"""
Equivalence check for twin2 (C10): calc_brac_dur tests explicitly for 'no exceedance' instead of catching IndexError
and computes the first/last exceedance times as index * dt instead of indexing a full time vector.

Run with twin2 applied and cwd = the worktree:  /venv/bin/python out/equiv2.py
The original package is extracted from git HEAD into a temporary directory; the same deterministic list of cases is
evaluated in two subprocesses (original / edited) and the encoded outcomes (values incl. type, dtype, shape and bits,
exceptions, warnings, argument mutation and object state) are compared for exact equality.
"""
import os
import pickle
import struct
import subprocess
import sys
import tempfile
import warnings


def enc(x):
    import numpy as np
    if isinstance(x, np.ndarray):
        return ("nd", x.dtype.str, x.shape, np.ascontiguousarray(x).tobytes())
    if isinstance(x, np.generic):
        return ("ng", x.dtype.str, x.tobytes())
    if isinstance(x, bool) or x is None or isinstance(x, (str, int)):
        return (type(x).__name__, x)
    if isinstance(x, float):
        return ("float", struct.pack("<d", x))
    if isinstance(x, (tuple, list)):
        return (type(x).__name__, [enc(v) for v in x])
    if isinstance(x, dict):
        return ("dict", [(k, enc(x[k])) for k in sorted(x)])
    return ("obj", type(x).__name__)


def run_case(fn, args_for_mutation_check=()):
    """Runs fn() recording result or exception, warnings, and the (possibly mutated) arguments afterwards"""
    with warnings.catch_warnings(record=True) as wlist:
        warnings.simplefilter("always")
        try:
            out = ("ok", enc(fn()))
        except Exception as e:  # noqa
            out = ("exc", type(e).__name__, str(e))
    wenc = [(w.category.__name__, str(w.message)) for w in wlist]
    return out, wenc, [enc(a) for a in args_for_mutation_check]


def worker(pkg_root, out_path):
    sys.path.insert(0, pkg_root)
    import numpy as np
    import eqsig
    assert os.path.realpath(eqsig.__file__).startswith(os.path.realpath(pkg_root) + os.sep), eqsig.__file__
    from eqsig import im

    rng = np.random.default_rng(1020260926)
    results = []

    def add(tag, fn, args=()):
        results.append((tag, run_case(fn, args)))

    def state(asig):
        return enc(dict(asig.__dict__))

    records = []
    for n in [1, 2, 3, 4, 5, 7, 10, 33, 100, 257, 1000, 4096, 20000]:
        for rep in range(4):
            env = np.exp(-((np.arange(n) - 0.4 * n) / (0.2 * n + 1)) ** 2)
            records.append(("rand_n%d_%d" % (n, rep), rng.standard_normal(n) * env * 10 ** rng.uniform(-3, 2)))
    records.append(("zeros5", np.zeros(5)))
    records.append(("zeros1", np.zeros(1)))
    records.append(("ones6", np.ones(6)))
    records.append(("neg_ones6", -np.ones(6)))
    records.append(("spike", np.array([0., 0., 0., 5., 0., 0.])))
    records.append(("spike_first", np.array([5., 0., 0.])))
    records.append(("spike_last", np.array([0., 0., -5.])))
    records.append(("two_spikes", np.array([0., 1., 0., 0., -1., 0., 0.])))
    records.append(("lead_zeros", np.concatenate([np.zeros(13), rng.standard_normal(50)])))
    records.append(("int64", rng.integers(-9, 10, size=40)))
    records.append(("int32", rng.integers(-9, 10, size=40).astype(np.int32)))
    records.append(("int8_min", np.array([-128, 3, 100, -7], dtype=np.int8)))
    records.append(("uint8", np.array([0, 3, 100, 7, 0], dtype=np.uint8)))
    records.append(("bool", np.array([False, True, True, False])))
    records.append(("float32", rng.standard_normal(64).astype(np.float32)))
    records.append(("with_nan", np.array([0.1, 0.5, np.nan, 0.3, 0.2])))
    records.append(("with_inf", np.array([0.1, 0.5, -np.inf, 0.3, 0.2])))
    records.append(("empty", np.zeros(0)))
    base = rng.standard_normal(300) * np.hanning(300)
    records.append(("base", base))
    records.append(("base_x3", base * 3.0))
    records.append(("base_pad4", np.concatenate([np.zeros(4), base])))

    dts = [0.01, 0.005, 0.02, 1.0, 1, 2, np.float64(0.01), np.float32(0.01), np.float32(0.1), 1. / 3, 0.1, 1e-3,
           np.int32(3), 0.0, -0.01, 1e300, float("nan")]

    k = 0
    for name, rec in records:
        amax = float(np.nanmax(np.abs(rec.astype(float)))) if len(rec) else 1.0
        if not np.isfinite(amax):
            amax = 1.0
        thresholds = [0, 0.0, 0.01 * 9.8, 0.05 * 9.8, 0.1 * 9.8, 0.1 * amax, 0.5 * amax, 0.999 * amax, amax, 1.1 * amax,
                      -1.0, np.float64(0.3 * amax), np.float32(0.3 * amax), int(amax), float("nan"), float("inf"), 1]
        if len(rec) > 1:
            thresholds.append(float(np.sort(np.abs(rec.astype(float)))[len(rec) // 2]))  # exactly a sample's |a|
        for input_kind in ("array", "list"):
            vals = rec.copy() if input_kind == "array" else rec.tolist()
            for thr in thresholds:
                dt = dts[k % len(dts)]
                k += 1
                try:
                    asig = eqsig.AccSignal(vals, dt)
                except Exception as ex:  # noqa
                    results.append((("ctor", name, input_kind), type(ex).__name__))
                    continue
                v_before = asig.values.copy()
                for se in (False, True):
                    add(("brac", name, input_kind, repr(thr), repr(dt), se),
                        lambda: im.calc_brac_dur(asig, thr, se=se), (vals, asig.values))
                add(("brac_default", name, input_kind, repr(thr), repr(dt)), lambda: im.calc_brac_dur(asig, thr))
                add(("brac_pos", name, input_kind, repr(thr), repr(dt)), lambda: im.calc_brac_dur(asig, thr, True))
                add(("brac_deprecated", name, input_kind, repr(thr), repr(dt)),
                    lambda: im.calc_bracketed_duration(asig, thr))
                results.append((("state", name, input_kind, repr(thr)), state(asig)))
                assert np.array_equal(v_before, asig.values, equal_nan=True)
        # base class Signal objects and multi-step histories
        sig = eqsig.Signal(rec.copy(), 0.02)
        add(("signal", name), lambda: im.calc_brac_dur(sig, 0.2 * amax, se=True))
        if len(rec):
            asig = eqsig.AccSignal(rec.copy(), 0.01)
            add(("hist0", name), lambda: im.calc_brac_dur(asig, 0.3 * amax))
            add(("hist_reset", name), lambda: asig.reset_values(np.concatenate([np.zeros(3), 2.0 * asig.values])))
            add(("hist1", name), lambda: im.calc_brac_dur(asig, 0.6 * amax, se=True))
            add(("hist2", name), lambda: im.calc_brac_dur(asig, 0.6 * amax))
            add(("hist_reset2", name), lambda: asig.reset_values(asig.values[: max(1, asig.npts // 2)]))
            add(("hist3", name), lambda: im.calc_brac_dur(asig, 0.6 * amax, se=True))
            add(("hist4", name), lambda: im.calc_brac_dur(asig, 10 * amax + 1, se=True))
            add(("hist5", name), lambda: im.calc_brac_dur(asig, 10 * amax + 1, se=False))
            results.append((("hist_state", name), state(asig)))

    with open(out_path, "wb") as f:
        pickle.dump(results, f)


def main():
    here = os.getcwd()
    assert os.path.isdir(os.path.join(here, "eqsig")), "run with cwd = the worktree"
    tmp = tempfile.mkdtemp(prefix="c10_equiv2_", dir="/tmp")
    subprocess.check_call("git archive HEAD eqsig | tar -x -C %s" % tmp, shell=True, cwd=here)
    outs = []
    for label, root in (("orig", tmp), ("edit", here)):
        out_path = os.path.join(tmp, label + ".pkl")
        env = dict(os.environ)
        env.pop("PYTHONPATH", None)
        subprocess.check_call([sys.executable, os.path.abspath(__file__), "--worker", root, out_path], cwd=root, env=env)
        with open(out_path, "rb") as f:
            outs.append(pickle.load(f))
    orig, edit = outs
    assert len(orig) == len(edit), (len(orig), len(edit))
    n_bad = 0
    n_ok_vals = 0
    n_exc = 0
    for (t0, r0), (t1, r1) in zip(orig, edit):
        assert t0 == t1, (t0, t1)
        if r0 != r1:
            n_bad += 1
            if n_bad < 10:
                print("MISMATCH", t0, "\n  orig:", str(r0)[:400], "\n  edit:", str(r1)[:400])
        if isinstance(r0, tuple) and len(r0) == 3 and isinstance(r0[0], tuple):
            if r0[0][0] == "ok":
                n_ok_vals += 1
            elif r0[0][0] == "exc":
                n_exc += 1
    print("cases: %d (returned: %d, raised: %d), mismatches: %d" % (len(orig), n_ok_vals, n_exc, n_bad))
    sys.exit(1 if n_bad else 0)


if __name__ == "__main__":
    if len(sys.argv) > 1 and sys.argv[1] == "--worker":
        worker(sys.argv[2], sys.argv[3])
    else:
        main()

"""
Equivalence check for twin3 (get_max_stockwell_freq delegates to get_max_tifq_vals_freq, which now uses
slice reversal and fancy indexing; itransform with named intermediates and [::-1] instead of np.flip).

Run with twin3.diff applied, cwd = the worktree:
    /venv/bin/python out/equiv3.py
Loads the ORIGINAL eqsig/stockwell.py from git (HEAD), exec's it in a fresh module
namespace, and compares it with the edited module.  Exit 0 iff everything matches.
"""
import os
import subprocess
import sys
import types
import warnings

ROOT = os.path.dirname(os.path.dirname(os.path.abspath(__file__)))
os.chdir(ROOT)
sys.path.insert(0, ROOT)

import numpy as np  # noqa: E402
import eqsig  # noqa: E402
import eqsig.stockwell as new  # noqa: E402

assert os.path.abspath(eqsig.__file__).startswith(ROOT), eqsig.__file__

src = subprocess.check_output(['git', 'show', 'HEAD:eqsig/stockwell.py'], cwd=ROOT).decode()
old = types.ModuleType('eqsig_stockwell_orig')
old.__file__ = os.path.join(ROOT, 'eqsig', 'stockwell.py')
old.__package__ = 'eqsig'
exec(compile(src, 'HEAD:eqsig/stockwell.py', 'exec'), old.__dict__)
assert old.itransform is not new.itransform

n_checks = 0


def same(a, b, what):
    """bit-for-bit identical arrays, incl. dtype, shape and memory layout"""
    global n_checks
    n_checks += 1
    a = np.asarray(a)
    b = np.asarray(b)
    assert a.dtype == b.dtype, (what, a.dtype, b.dtype)
    assert a.shape == b.shape, (what, a.shape, b.shape)
    assert a.strides == b.strides, (what, a.strides, b.strides)
    assert a.flags['C_CONTIGUOUS'] == b.flags['C_CONTIGUOUS'], what
    assert a.flags['F_CONTIGUOUS'] == b.flags['F_CONTIGUOUS'], what
    assert np.array_equal(a, b, equal_nan=True), what
    if a.dtype.kind in 'fc' and a.size:  # also signs of zeros
        assert a.tobytes() == b.tobytes() or np.array_equal(np.signbit(a.real), np.signbit(b.real)), what


def run_both(fname, arg, what):
    """call old and new on separate copies of arg, compare results and argument mutation"""
    def cp(x):
        if not isinstance(x, np.ndarray):
            return list(x)
        if x.base is not None and x.strides[0] == 2 * x.itemsize:  # keep the strided view strided
            return np.repeat(x, 2)[::2]
        if x.base is not None and x.strides[0] == -x.itemsize:  # keep the reversed view reversed
            return x[::-1].copy()[::-1]
        return x.copy()
    a_old, a_new, a_ref = cp(arg), cp(arg), cp(arg)
    if isinstance(arg, np.ndarray):
        assert a_old.strides == arg.strides and a_old is not arg and np.array_equal(a_old, arg)
    r_old = getattr(old, fname)(a_old)
    r_new = getattr(new, fname)(a_new)
    assert type(r_old) is type(r_new), what
    same(r_old, r_new, what + ':result')
    assert type(a_old) is type(a_new), what
    same(np.asarray(a_old), np.asarray(a_new), what + ':argument after call')
    same(np.asarray(a_old), np.asarray(a_ref), what + ':argument unchanged')
    return r_old, r_new


# ---------------------------------------------------------------- generate_gaussian
for n_d2 in list(range(1, 260)) + [300, 383, 500, 511, 512]:
    g_old = old.generate_gaussian(n_d2)
    g_new = new.generate_gaussian(n_d2)
    same(g_old, g_new, 'generate_gaussian(%d)' % n_d2)
    assert g_new.shape == (n_d2, 2 * n_d2)
    # numpy integer / float spelling of the same number
    same(old.generate_gaussian(np.int64(n_d2)), new.generate_gaussian(np.int64(n_d2)), 'gg np.int64')
    same(old.generate_gaussian(float(n_d2)), new.generate_gaussian(float(n_d2)), 'gg float')
# degenerate size (outside the property's domain): same values and same warnings
with warnings.catch_warnings(record=True) as w_old:
    warnings.simplefilter('always')
    g0_old = old.generate_gaussian(0)
with warnings.catch_warnings(record=True) as w_new:
    warnings.simplefilter('always')
    g0_new = new.generate_gaussian(0)
same(g0_old, g0_new, 'generate_gaussian(0)')
assert [str(x.category) for x in w_old] == [str(x.category) for x in w_new]

# ---------------------------------------------------------------- transforms on records
rng = np.random.RandomState(1505)
lengths = list(range(4, 131)) + [255, 256, 257, 500, 511, 512, 513, 1000, 1023, 1024]
for n in lengths:
    t = np.arange(n)
    records = {
        'randn': rng.randn(n),
        'uniform': rng.uniform(-3, 3, n) * 10 ** rng.randint(-6, 6),
        'zeros': np.zeros(n),
        'ones': np.ones(n),
        'int': rng.randint(-50, 50, n),
        'int32': rng.randint(-50, 50, n).astype(np.int32),
        'float32': rng.randn(n).astype(np.float32),
        'list': list(rng.randn(n)),
        'intlist': [int(v) for v in rng.randint(-9, 9, n)],
        'impulse': np.eye(1, n, n // 3)[0],
        'noncontig': rng.randn(2 * n)[::2],
        'reversed_view': rng.randn(n)[::-1],
    }
    n_even = 2 * (n // 2)
    for k in sorted({1, 2, max(1, n_even // 4), max(1, (3 * n_even) // 8), n_even // 2}):
        records['sin_k%d' % k] = np.sin(2 * np.pi * k * t / n_even + 0.3)
    for name, rec in records.items():
        what = 'n=%d %s' % (n, name)
        st_old, st_new = run_both('transform', rec, what + ' transform')
        assert st_new.shape == (n // 2, n_even) and st_new.dtype == complex
        sc_old, sc_new = run_both('transform_w_scipy_fft', rec, what + ' transform_w_scipy_fft')
        # keyword form / interp flag
        same(old.transform(rec, interp=True), new.transform(rec, interp=True), what + ' interp kw')
        # inverse on each one's own forward transform
        i_old = old.itransform(st_old)
        i_new = new.itransform(st_new)
        same(i_old, i_new, what + ' itransform')
        same(old.itransform(sc_old), new.itransform(sc_new), what + ' itransform(scipy)')
        # dominant-frequency trace, via object (cache filled by the call) and via values
        for dt in (0.01, 0.005, 1.0, 0.37):
            o_old = types.SimpleNamespace(values=rec, dt=dt)
            o_new = types.SimpleNamespace(values=rec, dt=dt)
            same(old.get_max_stockwell_freq(o_old), new.get_max_stockwell_freq(o_new), what + ' max freq')
            assert sorted(vars(o_old)) == sorted(vars(o_new)) == ['dt', 'swtf', 'values']
            same(o_old.swtf, o_new.swtf, what + ' cached swtf')
            # second call uses the cache, object state unchanged
            sw_id = id(o_new.swtf)
            same(old.get_max_stockwell_freq(o_old), new.get_max_stockwell_freq(o_new), what + ' max freq 2nd')
            assert id(o_new.swtf) == sw_id
            same(old.get_max_tifq_vals_freq(st_old, dt), new.get_max_tifq_vals_freq(st_new, dt), what + ' tifq')

# ---------------------------------------------------------------- real Signal objects, multi-step history
for n in (4, 5, 64, 101, 400):
    vals = rng.randn(n)
    a_old = eqsig.AccSignal(vals.copy(), 0.02)
    a_new = eqsig.AccSignal(vals.copy(), 0.02)
    same(old.get_max_stockwell_freq(a_old), new.get_max_stockwell_freq(a_new), 'AccSignal max freq')
    same(a_old.swtf, a_new.swtf, 'AccSignal swtf')
    same(a_old.values, a_new.values, 'AccSignal values untouched')
    same(a_old.values, vals, 'AccSignal values untouched (ref)')
    # stale cache from another record is used as is by both
    other = rng.randn(n + 6)
    a_old.swtf = old.transform(other)
    a_new.swtf = new.transform(other)
    same(old.get_max_stockwell_freq(a_old), new.get_max_stockwell_freq(a_new), 'stale cache')
    same(old.get_stockwell_freqs(a_old), new.get_stockwell_freqs(a_new), 'get_stockwell_freqs')
    same(old.get_stockwell_times(a_old), new.get_stockwell_times(a_new), 'get_stockwell_times')

# ---------------------------------------------------------------- itransform / max-frequency on arbitrary time-frequency arrays
def scalar_same(a, b, what):
    global n_checks
    n_checks += 1
    assert type(a) is type(b), (what, type(a), type(b))
    assert np.array_equal(a, b, equal_nan=True), what


for m in list(range(1, 40)) + [64, 100, 256, 512]:
    for k in sorted({1, 2, m, 2 * m, 2 * m + 1, 7}):
        z = rng.randn(m, k) + 1j * rng.randn(m, k)
        for arr, tag in ((z, 'complex'), (z.real.copy(), 'real'), (np.asfortranarray(z), 'F-order'),
                         (z[::-1], 'flipped view'), (np.zeros((m, k), dtype=complex), 'zeros'),
                         (rng.randint(-3, 3, (m, k)), 'int with ties'), (z.tolist(), 'list of lists'),
                         (z.astype(np.complex64), 'complex64')):
            what = 'm=%d k=%d %s' % (m, k, tag)
            ref = np.array(arr)
            same(old.itransform(arr), new.itransform(arr), what + ' itransform')
            for dt in (0.01, 1, 2, np.float64(0.025), np.float32(0.5)):
                if isinstance(arr, list):  # abs(list) is a TypeError in both
                    errs = []
                    for mod in (old, new):
                        try:
                            mod.get_max_tifq_vals_freq(arr, dt)
                            raise SystemExit('expected TypeError')
                        except TypeError as e:
                            errs.append(str(e))
                    assert errs[0] == errs[1]
                    continue
                r_old = old.get_max_tifq_vals_freq(arr, dt)
                r_new = new.get_max_tifq_vals_freq(arr, dt)
                assert type(r_old) is type(r_new)
                same(r_old, r_new, what + ' get_max_tifq_vals_freq dt=%r' % (dt,))
                if not isinstance(arr, list):
                    o_old = types.SimpleNamespace(swtf=arr, dt=dt, values=None, tag='x')
                    o_new = types.SimpleNamespace(swtf=arr, dt=dt, values=None, tag='x')
                    same(old.get_max_stockwell_freq(o_old), new.get_max_stockwell_freq(o_new), what + ' preset cache')
                    assert o_new.swtf is arr and o_old.swtf is arr
                    assert vars(o_new).keys() == vars(o_old).keys() == {'swtf', 'dt', 'values', 'tag'}
            same(np.array(arr), ref, what + ' argument untouched')
# 1-d "time-frequency" input gives a scalar in both
for m in (1, 2, 5, 16):
    v = rng.randn(m) + 1j * rng.randn(m)
    scalar_same(old.get_max_tifq_vals_freq(v, 0.1), new.get_max_tifq_vals_freq(v, 0.1), '1-d tifq')
# results do not alias the input / each other
st = new.transform(rng.randn(32))
res = new.get_max_tifq_vals_freq(st, 0.01)
assert res.flags['OWNDATA'] and old.get_max_tifq_vals_freq(st, 0.01).flags['OWNDATA']
assert res.flags['WRITEABLE']
# invalid inputs fail the same way
for bad in (None, 3.0, [], np.zeros((0, 4)), np.zeros((3, 0))):
    for fname, args in (('itransform', (bad,)), ('get_max_tifq_vals_freq', (bad, 0.01))):
        outs = []
        for mod in (old, new):
            with warnings.catch_warnings():
                warnings.simplefilter('ignore')
                try:
                    r = getattr(mod, fname)(*args)
                    outs.append(('ok', np.asarray(r).shape, np.asarray(r).dtype, np.asarray(r).tobytes()))
                except Exception as e:  # noqa
                    outs.append((type(e).__name__, str(e)))
        assert outs[0] == outs[1], (fname, bad, outs)
        n_checks += 1
# object without values and without cache: same failure, no attribute created
for mod in (old, new):
    o = types.SimpleNamespace(dt=0.01)
    try:
        mod.get_max_stockwell_freq(o)
        raise SystemExit('expected AttributeError')
    except AttributeError as e:
        assert 'values' in str(e)
    assert vars(o) == {'dt': 0.01}
# on-grid sinusoid: both give the sinusoid frequency over the middle half
n, dt = 256, 0.01
for k in range(2, 97):
    rec = np.sin(2 * np.pi * k * np.arange(n) / n)
    o_old = eqsig.AccSignal(rec.copy(), dt)
    o_new = eqsig.AccSignal(rec.copy(), dt)
    f_old = old.get_max_stockwell_freq(o_old)
    f_new = new.get_max_stockwell_freq(o_new)
    same(f_old, f_new, 'sinusoid k=%d' % k)
    assert np.allclose(f_new[n // 4: 3 * n // 4], k / (n * dt), rtol=1e-12)

print('equiv3: all %d comparisons identical' % n_checks)

"""
Equivalence program for a behaviour-preserving edit of eqsig/stockwell.py (property C15).

Run with the edit applied and cwd = the worktree:
    cd <worktree> && PYTHONPATH=<worktree> python out/equivK.py

The ORIGINAL package is obtained with `git archive HEAD eqsig` into a temporary directory; its stockwell.py is
loaded under the name `stockwell_orig` next to the edited `eqsig.stockwell` (same process), and both are driven
with identical inputs / histories.  Everything is compared strictly: exception type and message, warnings
(category and text), dtype, shape, memory-layout flags and the raw bytes of every returned array, and the
state of the arguments after the call.  Exit status 0 iff everything matches.
"""
import hashlib
import importlib.util
import io
import os
import subprocess
import sys
import tarfile
import tempfile
import time
import warnings

import numpy as np

T0 = time.time()
CWD = os.getcwd()
sys.path.insert(0, CWD)

# ---------------------------------------------------------------------------------------------------------------
# load both versions
# ---------------------------------------------------------------------------------------------------------------
tmpdir = tempfile.mkdtemp(prefix="eqsig_orig_")
blob = subprocess.run(["git", "archive", "HEAD", "eqsig"], cwd=CWD, check=True, stdout=subprocess.PIPE).stdout
with tarfile.open(fileobj=io.BytesIO(blob)) as tf:
    tf.extractall(tmpdir)
import atexit  # noqa: E402
import shutil  # noqa: E402
atexit.register(shutil.rmtree, tmpdir, True)
orig_path = os.path.join(tmpdir, "eqsig", "stockwell.py")
assert os.path.isfile(orig_path)

import eqsig  # noqa: E402  (the edited package, from cwd)
import eqsig.stockwell as NEW  # noqa: E402

assert os.path.realpath(os.path.dirname(eqsig.__file__)) == os.path.realpath(os.path.join(CWD, "eqsig")), \
    "edited eqsig must be imported from the current working directory: %s" % eqsig.__file__

spec = importlib.util.spec_from_file_location("stockwell_orig", orig_path)
OLD = importlib.util.module_from_spec(spec)
sys.modules["stockwell_orig"] = OLD
spec.loader.exec_module(OLD)
assert os.path.realpath(OLD.__file__) != os.path.realpath(NEW.__file__)

# every other module of the package must be unchanged or new (the original stockwell runs on top of them)
changed = subprocess.run(["git", "diff", "--name-only", "HEAD", "--", "eqsig"], cwd=CWD, check=True,
                         stdout=subprocess.PIPE).stdout.decode().split()
print("files changed w.r.t. HEAD:", changed)

N_CASES = 0
N_OK_CALLS = 0
N_EXC_CALLS = 0
FAILS = []


# ---------------------------------------------------------------------------------------------------------------
# comparison machinery
# ---------------------------------------------------------------------------------------------------------------
def describe(x):
    """Canonical, strictly comparable description of a value"""
    if isinstance(x, np.ndarray):
        if x.dtype == object:
            return ("objarr", x.shape, tuple(describe(i) for i in x.ravel()))
        fl = x.flags
        if x.dtype.char in "gG":
            # long double carries uninitialised padding bytes: hash an exact (hi, lo) double-double split instead
            lo_t = np.complex128 if x.dtype.char == "G" else np.float64
            with np.errstate(all="ignore"):
                hi = x.astype(lo_t)
                lo = (x - hi).astype(lo_t)
            payload = hi.tobytes() + lo.tobytes()
            return ("arr", str(x.dtype), x.shape, bool(fl["C_CONTIGUOUS"]), bool(fl["F_CONTIGUOUS"]),
                    bool(fl["OWNDATA"]), bool(fl["WRITEABLE"]), hashlib.sha256(payload).hexdigest())
        return ("arr", str(x.dtype), x.shape, bool(fl["C_CONTIGUOUS"]), bool(fl["F_CONTIGUOUS"]),
                bool(fl["OWNDATA"]), bool(fl["WRITEABLE"]),
                hashlib.sha256(np.ascontiguousarray(x).tobytes()).hexdigest())
    if isinstance(x, np.generic):
        return ("npscalar", str(x.dtype), x.tobytes())
    if isinstance(x, (list, tuple)):
        return (type(x).__name__, tuple(describe(i) for i in x))
    if isinstance(x, float):
        return ("float", np.float64(x).tobytes())
    return (type(x).__name__, repr(x))


def run(fn, *args, **kwargs):
    """Call fn, return (outcome description, raw result or None)"""
    with warnings.catch_warnings(record=True) as wlist:
        warnings.simplefilter("always")
        try:
            res = fn(*args, **kwargs)
            out = ("ok", describe(res))
        except Exception as e:  # noqa
            res = None
            out = ("exc", type(e).__name__, str(e))
    wdesc = tuple((w.category.__name__, str(w.message)) for w in wlist)
    return (out, wdesc), res


def check(label, a, b):
    global N_CASES
    N_CASES += 1
    if a != b:
        FAILS.append(label)
        if len(FAILS) <= 10:
            print("MISMATCH", label, "\n   orig:", str(a)[:200], "\n   new :", str(b)[:200])
        return False
    return True


def clone(x):
    """independent copy of an argument preserving type / dtype / layout as far as it matters"""
    if isinstance(x, np.ndarray):
        if x.base is not None and not x.flags["C_CONTIGUOUS"] and x.ndim == 1 and x.strides[0] != x.itemsize:
            # keep the stridedness of 1-D views
            step = x.strides[0] // x.itemsize
            buf = np.zeros(len(x) * abs(step), dtype=x.dtype)
            v = buf[::step] if step > 0 else buf[::-1][::-step]
            assert len(v) == len(x) and v.strides == x.strides
            v[...] = x
            if not x.flags["WRITEABLE"]:
                v.setflags(write=False)
            return v
        c = x.copy(order="K")
        if not x.flags["WRITEABLE"]:
            c.setflags(write=False)
        return c
    if isinstance(x, list):
        return [clone(i) for i in x]
    if isinstance(x, tuple):
        return tuple(clone(i) for i in x)
    return x


def both(label, name, *args, **kwargs):
    """Run OLD.name and NEW.name on independent clones of args; compare outcome, warnings and argument state."""
    a_args = [clone(a) for a in args]
    b_args = [clone(a) for a in args]
    global N_OK_CALLS, N_EXC_CALLS
    ra, resa = run(getattr(OLD, name), *a_args, **kwargs)
    rb, resb = run(getattr(NEW, name), *b_args, **kwargs)
    if ra[0][0] == "ok":
        N_OK_CALLS += 1
    else:
        N_EXC_CALLS += 1
    ok = check(label + " [result]", ra, rb)
    check(label + " [args after]", describe(a_args), describe(b_args))
    return resa, resb, ok


# ---------------------------------------------------------------------------------------------------------------
# input generators
# ---------------------------------------------------------------------------------------------------------------
rng = np.random.RandomState(20240515)


def record_forms(n, seed):
    """the same length-n real record in many container / dtype / layout forms (plus special contents)"""
    r = np.random.RandomState(seed)
    x = r.standard_normal(n) * 10 ** r.uniform(-3, 3)
    forms = [("f64", x)]
    forms.append(("list", [float(v) for v in x]))
    forms.append(("i64", np.round(x * 7).astype(np.int64)))
    kind = seed % 12
    if kind == 0:
        forms.append(("tuple", tuple(float(v) for v in x)))
        forms.append(("intlist", [int(v) for v in np.round(x * 3)]))
    elif kind == 1:
        forms.append(("f32", x.astype(np.float32)))
        forms.append(("i32", np.round(x * 7).astype(np.int32)))
    elif kind == 2:
        forms.append(("strided", np.repeat(x, 2)[::2]))
        forms.append(("reversed", x[::-1]))
    elif kind == 3:
        ro = x.copy()
        ro.setflags(write=False)
        forms.append(("readonly", ro))
        forms.append(("u8", np.abs(np.round(x)).astype(np.uint8)))
    elif kind == 4:
        forms.append(("bool", x > 0))
        forms.append(("i16", np.clip(np.round(x * 7), -30000, 30000).astype(np.int16)))
    elif kind == 5:
        y = x.copy()
        if n:
            y[r.randint(n)] = np.nan
        forms.append(("nan", y))
        z = x.copy()
        if n:
            z[r.randint(n)] = np.inf
        forms.append(("inf", z))
    elif kind == 6:
        forms.append(("zeros", np.zeros(n)))
        forms.append(("const", np.full(n, 3.25)))
    elif kind == 7:
        forms.append(("cplx_zero_imag", x + 0j))
        forms.append(("cplx", x + 1j * r.standard_normal(n)))
    elif kind == 8:
        t = np.arange(n)
        k = r.randint(1, max(2, n // 2))
        forms.append(("sine", np.sin(2 * np.pi * k * t / max(n - n % 2, 1))))
        forms.append(("f16", x.astype(np.float16)))
    elif kind == 9:
        forms.append(("longdouble", x.astype(np.longdouble)))
        forms.append(("mixedlist", [int(v) if i % 2 else float(v) for i, v in enumerate(x)]))
    elif kind == 10:
        forms.append(("col2d", x.reshape(-1, 1)))
        forms.append(("row2d", x.reshape(1, -1)))
    else:
        forms.append(("huge", x * 1e300))
        forms.append(("tiny", x * 1e-300))
    return forms


# ---------------------------------------------------------------------------------------------------------------
# 1. generate_gaussian
# ---------------------------------------------------------------------------------------------------------------
def sec_gaussian():
    vals = list(range(-3, 200)) + [255, 256, 257, 511, 512, 513, 700]
    for v in vals:
        both("gaussian(%r)" % v, "generate_gaussian", v)
    odd = [4.0, 4.5, 0.0, -2.5, np.int64(6), np.int32(5), np.float64(3.0), np.float32(4.0), True, False, 4 + 0j,
           None, "4", [4], np.array(4), np.array([4]), np.uint8(200), 1e3, float("nan"), float("inf")]
    for rep in range(2):
        for v in odd:
            both("gaussian-odd(%r) rep%d" % (v, rep), "generate_gaussian", v)
    # equal-hash keys after each other in both orders
    for seq in ([4, 4.0, True, 1, np.int64(4), 4 + 0j, 4], [6.0, 6, np.float32(6), 6], [True, 1, 1.0]):
        for v in seq:
            both("gaussian-hashseq(%r)" % (v,), "generate_gaussian", v)
    # aliasing: the returned window must be a private array
    for v in [1, 2, 5, 8, 8, 33, 5]:
        ga, gb, _ = both("gaussian-alias first(%d)" % v, "generate_gaussian", v)
        for g in (ga, gb):
            g[...] = -7.0
            g += 1
        both("gaussian-alias second(%d)" % v, "generate_gaussian", v)
        # and the transforms must be unaffected as well
        x = np.random.RandomState(v).standard_normal(2 * v)
        both("gaussian-alias transform(%d)" % v, "transform", x)
        both("gaussian-alias transform_scipy(%d)" % v, "transform_w_scipy_fft", x)


# ---------------------------------------------------------------------------------------------------------------
# 2. transform / transform_w_scipy_fft / transform_slow
# ---------------------------------------------------------------------------------------------------------------
def sec_transforms():
    seed = 0
    lengths = list(range(0, 131)) + [191, 192, 193, 250, 255, 256, 257, 300, 383, 500, 511, 512, 513, 640, 767,
                                     768, 1000, 1023, 1024, 1025]
    for n in lengths:
        seed += 1
        forms = record_forms(n, seed)
        if n > 260:
            forms = forms[:1] + forms[3:4]
        for fname, x in forms:
            for fn in ("transform", "transform_w_scipy_fft"):
                kw = {}
                if (seed + len(fname)) % 3 == 0:
                    kw = {"interp": True}
                ra, rb, ok = both("%s n=%d form=%s %r" % (fn, n, fname, kw), fn, x, **kw)
                # the result must be writable/independent: mutate and recompute
                if ok and ra is not None and n <= 64 and n % 8 == 0:
                    ra[...] = 0
                    rb[...] = 0
                    both("%s n=%d form=%s again after mutation of result" % (fn, n, fname), fn, x)
    # positional interp, bad arguments
    x = rng.standard_normal(20)
    both("transform positional interp", "transform", x, True)
    both("transform_scipy positional interp", "transform_w_scipy_fft", x, True)
    for bad in (None, 3.5, "abcdefgh", np.float64(2.0), np.zeros((4, 6)), np.zeros((6, 4, 2)), np.ones((2, 2)), np.ones((2, 4)), np.ones((3, 2)),
                np.ones((4, 4)), np.ones((2, 1)), np.ones((1, 2)), np.ones((2, 2, 2)), {}, {1: 2., 0: 1.},
                range(10), iter([1., 2.]), np.array(["a", "b", "c", "d"]), np.array([1, None, 2, 3], dtype=object),
                [[1., 2.], [3., 4.], [5., 6.], [7., 8.]], [1., [2., 3.], 4., 5.]):
        for fn in ("transform", "transform_w_scipy_fft", "transform_slow"):
            both("%s bad input %r" % (fn, type(bad)), fn, bad)
    # transform_slow (shares the front end)
    for n in list(range(0, 40)) + [64, 100, 129, 256]:
        x = rng.standard_normal(n)
        for ith in (0, 1, 2, 3, n // 2, n // 2 + 1, -1):
            both("transform_slow n=%d ith=%d" % (n, ith), "transform_slow", x, False, ith)
        both("transform_slow n=%d default" % n, "transform_slow", x)
        both("transform_slow n=%d list ith kw" % n, "transform_slow", [float(v) for v in x], ith=1)


# ---------------------------------------------------------------------------------------------------------------
# 3. histories: interleaved lengths (memo hit / miss / eviction), linearity inputs, repeated calls
# ---------------------------------------------------------------------------------------------------------------
def sec_histories():
    pool = [4, 5, 6, 8, 9, 16, 17, 31, 32, 33, 64, 100, 128, 3000 // 8, 2, 3]
    r = np.random.RandomState(7)
    for step in range(1500):
        n = pool[r.randint(len(pool))]
        x = r.standard_normal(n) * 10 ** r.uniform(-2, 2)
        op = r.randint(6)
        if op == 0:
            both("hist %d transform n=%d" % (step, n), "transform", x)
        elif op == 1:
            both("hist %d transform_scipy n=%d" % (step, n), "transform_w_scipy_fft", x)
        elif op == 2:
            ga, gb, _ = both("hist %d gaussian n_d2=%d" % (step, n // 2), "generate_gaussian", n // 2)
            if ga is not None and gb is not None and r.randint(2):
                ga *= 0.5
                gb *= 0.5
        elif op == 3:
            sa, sb, _ = both("hist %d transform n=%d (for inverse)" % (step, n), "transform", np.round(x).astype(int))
            if sa is not None:
                check("hist %d itransform" % step, run(OLD.itransform, sa)[0], run(NEW.itransform, sb)[0])
        elif op == 4:
            both("hist %d transform_slow n=%d" % (step, n), "transform_slow", x, False, 1)
        else:
            y = r.standard_normal(n)
            a, b = r.uniform(-3, 3, 2)
            both("hist %d transform lincomb n=%d" % (step, n), "transform", a * x + b * y)
            both("hist %d transform_scipy list n=%d" % (step, n), "transform_w_scipy_fft", list(y))
    # many distinct lengths in a row, then revisit (eviction order)
    for n in list(range(4, 60, 2)) + list(range(58, 2, -2)) + [10, 10, 12, 10, 14, 16, 18, 10]:
        x = np.cos(np.arange(n) * 0.37)
        both("sweep transform n=%d" % n, "transform", x)
        both("sweep scipy n=%d" % n, "transform_w_scipy_fft", x)
    # above any plausible memo threshold
    for n in (2046, 2048, 2050, 2052):
        x = np.cos(np.arange(n) * 0.11)
        ra, rb, _ = both("big transform n=%d" % n, "transform", x)
        check("big itransform n=%d" % n, run(OLD.itransform, ra)[0], run(NEW.itransform, rb)[0])
        del ra, rb
        both("big gaussian n=%d" % n, "generate_gaussian", n // 2)


# ---------------------------------------------------------------------------------------------------------------
# 4. itransform / dep_itransform
# ---------------------------------------------------------------------------------------------------------------
def sec_inverse():
    r = np.random.RandomState(99)
    # genuine transforms
    for n in list(range(2, 80)) + [127, 128, 200, 256, 511, 512, 1000, 1024]:
        x = r.standard_normal(n)
        for fn in ("transform", "transform_w_scipy_fft"):
            s_old = getattr(OLD, fn)(x)
            s_new = getattr(NEW, fn)(x)
            check("inv-of-%s n=%d" % (fn, n), run(OLD.itransform, s_old)[0], run(NEW.itransform, s_new)[0])
            check("depinv-of-%s n=%d" % (fn, n), run(OLD.dep_itransform, s_old)[0], run(NEW.dep_itransform, s_new)[0])
            both("inv-of-old-%s n=%d" % (fn, n), "itransform", s_old)
            both("depinv-of-old-%s n=%d" % (fn, n), "dep_itransform", s_old)
    # arbitrary arrays (rows L, columns M unrelated to 2L)
    for L in list(range(0, 40)) + [63, 64, 65, 100, 128, 255, 256, 257, 511, 512, 513, 1023, 1024, 1025, 1500, 2048,
                                   2049, 4095, 4096, 4097]:
        for M in sorted({0, 1, 2, 3, 2 * L, 2 * L + 1, 7}):
            if L * M > 300000:
                M = 3
            z = r.standard_normal((L, M)) + 1j * r.standard_normal((L, M))
            both("itransform LxM=%dx%d cplx" % (L, M), "itransform", z)
            if L < 40:
                both("itransform LxM=%dx%d real" % (L, M), "itransform", z.real)
                both("itransform LxM=%dx%d c64" % (L, M), "itransform", z.astype(np.complex64))
                both("itransform LxM=%dx%d list" % (L, M), "itransform", z.tolist())
                both("itransform LxM=%dx%d int" % (L, M), "itransform", np.round(z.real * 5).astype(int))
                both("itransform LxM=%dx%d fortran" % (L, M), "itransform", np.asfortranarray(z))
                both("itransform LxM=%dx%d strided" % (L, M), "itransform", np.repeat(z, 2, axis=0)[::2])
                both("dep_itransform LxM=%dx%d cplx" % (L, M), "dep_itransform", z)
                both("dep_itransform LxM=%dx%d list" % (L, M), "dep_itransform", z.tolist())
                both("itransform LxM=%dx%d clongdouble" % (L, M), "itransform", z.astype(np.clongdouble))
                zz = z.copy()
                if zz.size:
                    zz.flat[r.randint(zz.size)] = np.nan
                both("itransform LxM=%dx%d nan" % (L, M), "itransform", zz)
    for bad in (None, 3.0, np.zeros(5), np.zeros(5, dtype=complex), np.zeros((3, 4, 5)), "abc", [], [[]], [[], []],
                [1, 2, 3], np.zeros((0, 4)), np.zeros((4, 0)), [[1, 2], [3]]):
        both("itransform bad %r" % (type(bad),), "itransform", bad)
        both("dep_itransform bad %r" % (type(bad),), "dep_itransform", bad)
    # the returned array is independent of the argument
    z = r.standard_normal((8, 16)) + 1j * r.standard_normal((8, 16))
    ia, ib, _ = both("itransform independence 1", "itransform", z)
    ia[...] = 1
    ib[...] = 1
    both("itransform independence 2", "itransform", z)


# ---------------------------------------------------------------------------------------------------------------
# 5. get_max_stockwell_freq / get_max_tifq_vals_freq and the other swtf helpers (object state histories)
# ---------------------------------------------------------------------------------------------------------------
class Stub(object):
    def __init__(self, values, dt):
        self.values = values
        self.dt = dt


def obj_state(o):
    d = {}
    for k, v in sorted(vars(o).items()):
        d[k] = describe(v)
    return d


def both_obj(label, name, make, prepare=None, extra=()):
    oa, ob = make(), make()
    if prepare is not None:
        prepare(oa, OLD)
        prepare(ob, NEW)
    ra, _ = run(getattr(OLD, name), oa, *extra)
    rb, _ = run(getattr(NEW, name), ob, *extra)
    check(label + " [result]", ra, rb)
    check(label + " [state]", obj_state(oa), obj_state(ob))
    return oa, ob


def sec_maxfreq():
    r = np.random.RandomState(5)
    dts = [0.01, 0.005, 1, 2, 0.1, 1.0 / 3, np.float64(0.02), np.float32(0.25), 0, 0.0, -0.5, 1e-300, 1e300]
    case = 0
    for n in list(range(0, 70)) + [100, 127, 128, 129, 200, 255, 256, 257, 400, 511, 512, 513, 1023, 1024]:
        for rep in range(2 if n < 70 else 1):
            case += 1
            dt = dts[case % len(dts)]
            if case % 3 == 0 and n >= 8:
                k = 1 + r.randint(n // 2 - 1)
                vals = np.sin(2 * np.pi * k * np.arange(n) / (n - n % 2) + r.uniform(0, 6))
            elif case % 3 == 1:
                vals = r.standard_normal(n)
            else:
                vals = np.round(r.standard_normal(n) * 4)  # ties in argmax
            if case % 5 == 0:
                vals = vals.tolist()
            elif case % 5 == 1:
                vals = np.asarray(vals).astype(int)

            for kind in ("stub", "acc"):
                if kind == "stub":
                    def make(vals=vals, dt=dt):
                        return Stub(clone(vals), dt)
                else:
                    if n < 2 or isinstance(dt, (np.floating,)) or dt in (0, 1e-300, 1e300) or dt < 0:
                        continue

                    def make(vals=vals, dt=dt):
                        return eqsig.AccSignal(np.array(vals, dtype=float), dt)
                lab = "maxfreq n=%d dt=%r %s" % (n, dt, kind)
                # fresh object
                oa, ob = both_obj(lab + " fresh", "get_max_stockwell_freq", make)
                # second call on the same object (swtf now cached on it), after changing values and dt
                for o in (oa, ob):
                    if kind == "stub":
                        o.dt = 0.04
                        o.values = np.arange(6.)
                check(lab + " second", run(OLD.get_max_stockwell_freq, oa)[0], run(NEW.get_max_stockwell_freq, ob)[0])
                check(lab + " second [state]", obj_state(oa), obj_state(ob))
                if kind == "stub" and hasattr(oa, "swtf") and hasattr(ob, "swtf"):
                    check(lab + " freqs", run(OLD.get_stockwell_freqs, oa)[0], run(NEW.get_stockwell_freqs, ob)[0])
                    check(lab + " times", run(OLD.get_stockwell_times, oa)[0], run(NEW.get_stockwell_times, ob)[0])
                    check(lab + " tifq of swtf", run(OLD.get_max_tifq_vals_freq, oa.swtf, dt)[0],
                          run(NEW.get_max_tifq_vals_freq, ob.swtf, dt)[0])
                    check(lab + " tifq of |swtf|", run(OLD.get_max_tifq_vals_freq, abs(oa.swtf), dt)[0],
                          run(NEW.get_max_tifq_vals_freq, abs(ob.swtf), dt)[0])

                # preset swtf of unrelated shape (history: user assigned it, e.g. from the scipy variant)
                def prep(o, mod):
                    v = np.asarray(o.values, dtype=float)
                    if len(v) >= 2:
                        o.swtf = mod.transform_w_scipy_fft(v[: max(2, len(v) // 2)])
                    else:
                        o.swtf = np.zeros((3, 5))
                both_obj(lab + " preset", "get_max_stockwell_freq", make, prep)

                def prep2(o, mod):
                    o.swtf = [[1.0, -5.0, 2.0], [3.0, 4.0, 2.0]]
                if n < 6:
                    both_obj(lab + " preset list", "get_max_stockwell_freq", make, prep2)

                    def prep3(o, mod):
                        o.swtf = None
                    both_obj(lab + " preset None", "get_max_stockwell_freq", make, prep3)
    # objects lacking attributes
    both_obj("maxfreq no dt", "get_max_stockwell_freq", lambda: type("X", (), {})())

    class OnlyValues(object):
        def __init__(self):
            self.values = np.arange(8.)
    both_obj("maxfreq only values", "get_max_stockwell_freq", OnlyValues)

    class NoDtNoneSwtf(object):
        def __init__(self):
            self.values = np.arange(8.)
            self.swtf = None
    both_obj("maxfreq no dt and swtf None", "get_max_stockwell_freq", NoDtNoneSwtf)

    class CountingDt(object):
        """records the order in which the attributes are read"""
        def __init__(self):
            self.log = []

        def __getattr__(self, name):
            self.__dict__["log"].append(name)
            if name == "values":
                return np.arange(10.)
            if name == "dt":
                return 0.5
            raise AttributeError(name)
    both_obj("maxfreq attribute access order", "get_max_stockwell_freq", CountingDt)

    class Slotted(object):
        __slots__ = ("values", "dt")

        def __init__(self):
            self.values = np.arange(8.)
            self.dt = 0.1
    sa, sb = Slotted(), Slotted()
    check("maxfreq slotted", run(OLD.get_max_stockwell_freq, sa)[0], run(NEW.get_max_stockwell_freq, sb)[0])

    # get_max_tifq_vals_freq on arbitrary arrays
    for L in list(range(0, 30)) + [64, 200]:
        for M in (0, 1, 2, 5, 2 * L):
            z = r.standard_normal((L, M)) + 1j * r.standard_normal((L, M))
            for dt in (0.01, 2, 0, np.float32(0.5), np.array([0.1]), "a", None):
                both("tifq %dx%d dt=%r cplx" % (L, M, dt), "get_max_tifq_vals_freq", z, dt)
            both("tifq %dx%d real" % (L, M), "get_max_tifq_vals_freq", np.round(z.real * 2), 0.1)
            both("tifq %dx%d list" % (L, M), "get_max_tifq_vals_freq", z.real.tolist(), 0.1)
            both("tifq %dx%d int" % (L, M), "get_max_tifq_vals_freq", np.round(z.real * 2).astype(int), 1)
    for bad in (None, 3.0, np.zeros(5), np.zeros((2, 3, 4)), "abc", []):
        both("tifq bad %r" % (type(bad),), "get_max_tifq_vals_freq", bad, 0.1)


# ---------------------------------------------------------------------------------------------------------------
# 6. module surface
# ---------------------------------------------------------------------------------------------------------------
def sec_surface():
    import inspect
    pub_old = sorted(k for k, v in vars(OLD).items() if callable(v) and not k.startswith("_")
                     and getattr(v, "__module__", None) == OLD.__name__)
    pub_new = sorted(k for k, v in vars(NEW).items() if callable(v) and not k.startswith("_")
                     and getattr(v, "__module__", None) == NEW.__name__)
    check("public function names", pub_old, pub_new)
    for k in pub_old:
        if hasattr(NEW, k):
            check("signature " + k, str(inspect.signature(getattr(OLD, k))), str(inspect.signature(getattr(NEW, k))))
    # 2 ** log2(n) slice length used by the original inverse never truncates
    n = np.arange(1, 1 << 22, dtype=float)
    npts = np.ceil(2 ** (np.log(n) / np.log(2)))
    check("npts >= n", bool(np.all(npts >= n)), True)


for sec in (sec_surface, sec_gaussian, sec_transforms, sec_histories, sec_inverse, sec_maxfreq):
    t = time.time()
    before = N_CASES
    sec()
    print("%-16s %6d comparisons  %5.1f s" % (sec.__name__, N_CASES - before, time.time() - t))

print("paired calls returning normally: %d, raising: %d" % (N_OK_CALLS, N_EXC_CALLS))
print("total comparisons:", N_CASES, " mismatches:", len(FAILS), " time: %.1f s" % (time.time() - T0))
if FAILS:
    print("NOT EQUIVALENT")
    sys.exit(1)
print("EQUIVALENT")
sys.exit(0)

"""
Equivalence check for twin2 (data descriptor for Signal.smooth_fa_freqs / smooth_fa_frequencies in eqsig/single.py).

Run with twin2 applied and cwd = the worktree.  Loads the ORIGINAL package from git (HEAD)
and the EDITED package from the working tree, drives pairs of objects through identical
(deterministic and random) histories and compares results, warnings, exceptions,
aliasing behaviour and the full object state after every step.
Exit status 0 iff everything matches.
"""
import copy
import importlib
import os
import subprocess
import sys
import tempfile
import warnings

import numpy as np

HERE = os.getcwd()


def _load(root):
    for name in [m for m in sys.modules if m == 'eqsig' or m.startswith('eqsig.')]:
        del sys.modules[name]
    sys.path.insert(0, root)
    try:
        pkg = importlib.import_module('eqsig')
        importlib.import_module('eqsig.fns.frequency')
        importlib.import_module('eqsig.im')
        importlib.import_module('eqsig.single')
    finally:
        sys.path.remove(root)
    assert os.path.abspath(pkg.__file__).startswith(os.path.abspath(root)), pkg.__file__
    mods = {k: v for k, v in sys.modules.items() if k == 'eqsig' or k.startswith('eqsig.')}
    for name in mods:
        del sys.modules[name]
    return mods


tmp = tempfile.mkdtemp(prefix='twin3_C07_eq2_', dir='/tmp')
subprocess.check_call('git archive HEAD eqsig | tar -x -C %s' % tmp, shell=True, cwd=HERE)
ORG = _load(tmp)
NEW = _load(HERE)
assert ORG['eqsig'].__file__ != NEW['eqsig'].__file__
assert isinstance(ORG['eqsig.single'].Signal.__dict__['smooth_fa_freqs'], property)
assert not isinstance(NEW['eqsig.single'].Signal.__dict__['smooth_fa_freqs'], property), "twin2 is not applied"

n_checks = 0
OUTCOMES = {}


def same(a, b, where):
    global n_checks
    n_checks += 1
    if isinstance(a, tuple):
        assert isinstance(b, tuple) and len(a) == len(b), where
        for x, y in zip(a, b):
            same(x, y, where)
        return
    assert type(a) is type(b), (where, type(a), type(b))
    if isinstance(a, np.ndarray):
        assert a.dtype == b.dtype and a.shape == b.shape, (where, a.dtype, b.dtype, a.shape, b.shape)
        if a.dtype.kind in 'fc':
            assert np.array_equal(a, b, equal_nan=True), (where, a, b)
        else:
            assert np.array_equal(a, b), (where, a, b)
    elif isinstance(a, (float, np.floating)):
        assert (a == b) or (np.isnan(a) and np.isnan(b)), (where, a, b)
    elif a is None:
        assert b is None
    else:
        assert a == b, (where, a, b)


STATE = ['_smooth_fa_freqs', '_smooth_fa_spectrum', '_cached_smooth_fa', '_cached_fa', '_fa_spectrum', '_fa_freqs',
         '_smooth_freq_range', '_npts', '_values', '_smooth_freq_points', '_dt', 'label']


def same_state(a, b, where):
    assert sorted(vars(a)) == sorted(vars(b)), (where, sorted(vars(a)), sorted(vars(b)))
    for k in STATE:
        same(getattr(a, k), getattr(b, k), where + ' ' + k)
    # getters: same object identity relations on both sides
    for s in (a, b):
        assert s.smooth_fa_freqs is s._smooth_fa_freqs, where
        assert s.smooth_fa_frequencies is s._smooth_fa_freqs, where
    # internal aliasing structure is the same
    for k1 in ('_smooth_fa_freqs', '_fa_freqs', '_smooth_freq_range'):
        for k2 in ('_smooth_fa_freqs', '_fa_freqs', '_smooth_freq_range'):
            xa, ya, xb, yb = getattr(a, k1), getattr(a, k2), getattr(b, k1), getattr(b, k2)
            if isinstance(xa, np.ndarray) and isinstance(ya, np.ndarray):
                assert np.shares_memory(xa, ya) == np.shares_memory(xb, yb), (where, k1, k2)


class Pair(object):
    def __init__(self, cls, *args, **kwargs):
        self.log = []
        self.o = self._make(ORG, cls, args, kwargs)
        self.n = self._make(NEW, cls, args, kwargs)
        assert self.o[0] == self.n[0], (cls, args, kwargs, self.o, self.n)
        self.ok = self.o[0] == 'ok'
        if self.ok:
            self.o, self.n = self.o[1], self.n[1]
            same_state(self.o, self.n, 'init %s %r %r' % (cls, args, kwargs))
        else:
            assert self.o[1] is self.n[1]

    @staticmethod
    def _make(mods, cls, args, kwargs):
        args = copy.deepcopy(args)
        kwargs = copy.deepcopy(kwargs)
        with warnings.catch_warnings():
            warnings.simplefilter('ignore')
            try:
                return 'ok', getattr(mods['eqsig.single'], cls)(*args, **kwargs)
            except Exception as e:  # noqa
                return 'exc', type(e)

    def do(self, name, fn, *args):
        """fn(sig, mods, *args); args are deep-copied per side; returns the (original side) result and both arg sets"""
        res = []
        for sig, mods in ((self.o, ORG), (self.n, NEW)):
            a = copy.deepcopy(args)
            with warnings.catch_warnings(record=True) as wl:
                warnings.simplefilter('always')
                try:
                    r = ('ok', fn(sig, mods, *a))
                except Exception as e:  # noqa
                    r = ('exc', type(e))
            res.append((r, sorted(set((w.category.__name__, str(w.message)) for w in wl)), a))
        (ro, wo, ao), (rn, wn, an) = res
        self.log.append(name)
        where = ' > '.join(self.log[-6:])
        assert ro[0] == rn[0], (where, ro, rn)
        OUTCOMES[ro[0]] = OUTCOMES.get(ro[0], 0) + 1
        if ro[0] == 'ok':
            same(ro[1], rn[1], where)
        else:
            assert ro[1] is rn[1], (where, ro, rn)
        assert wo == wn, (where, wo, wn)
        for x, y, z in zip(ao, an, args):  # argument mutation
            if isinstance(x, np.ndarray):
                same(x, y, where + ' arg')
                if 'then mutate' not in name:  # that operation edits its argument on purpose
                    same(x, z, where + ' arg untouched')
            elif isinstance(x, (list, tuple)):
                assert x == y == z, where
        same_state(self.o, self.n, where)
        return ro, ao, an


rng = np.random.RandomState(11)


def record(npts):
    return rng.randn(npts) * np.hanning(npts)


# ---------------------------------------------------------------- construction variants
ctor_cases = []
for cls in ('Signal', 'AccSignal'):
    v = record(200)
    ctor_cases += [
        (cls, (v, 0.01), {}),
        (cls, (list(v), 0.01), {}),
        (cls, (v, 0.01), {'smooth_freq_range': (0.5, 12)}),
        (cls, (v, 0.01), {'smooth_freq_range': [1, 10]}),
        (cls, (v, 0.01), {'smooth_fa_freqs': [0.5, 1, 2, 4, 8]}),
        (cls, (v, 0.01), {'smooth_fa_freqs': (1, 2, 3)}),
        (cls, (v, 0.01), {'smooth_fa_freqs': np.array([1, 2, 3, 50])}),
        (cls, (v, 0.01), {'smooth_fa_freqs': np.array([0.25, 2.5, 25.0], dtype=np.float32)}),
        (cls, (v, 0.01), {'smooth_fa_freqs': np.logspace(-1, 1.5, 40)}),
        (cls, (v, 0.01), {'smooth_fa_freqs': np.arange(64)[1:] / (2 * 64 * 0.01)}),
        (cls, (v, 0.01), {'smooth_fa_freqs': range(1, 9)}),
        (cls, (v, 0.01), {'smooth_fa_freqs': [3.0]}),
        (cls, (v, 0.01), {'smooth_fa_freqs': []}),
        (cls, (v, 0.01), {'smooth_fa_freqs': 'abc'}),
        (cls, (v, 0.01), {'smooth_fa_freqs': 5.0}),
        (cls, (v, 0.01), {'smooth_fa_freqs': [[1.0, 2.0], [3.0, 4.0]]}),
        (cls, (rng.randint(-9, 9, 100), 0.02), {'smooth_fa_freqs': [0.5, 5]}),
        (cls, (record(7), 0.1), {'smooth_fa_freqs': [0.5, 1.0]}),
    ]
for cls, args, kwargs in ctor_cases:
    p = Pair(cls, *args, **kwargs)
    if p.ok:
        p.do('read spectrum', lambda s, m: s.smooth_fa_spectrum)
        p.do('read freqs', lambda s, m: s.smooth_fa_freqs)
        p.do('read frequencies', lambda s, m: s.smooth_fa_frequencies)


# ---------------------------------------------------------------- operations
def op_set_freqs(s, m, x):
    s.smooth_fa_freqs = x
    assert s._smooth_fa_freqs is not x
    if isinstance(x, np.ndarray):
        assert not np.shares_memory(s._smooth_fa_freqs, x)
    return s._cached_smooth_fa


def op_set_frequencies(s, m, x):
    s.smooth_fa_frequencies = x
    assert s._smooth_fa_freqs is not x
    if isinstance(x, np.ndarray):
        assert not np.shares_memory(s._smooth_fa_freqs, x)
    return s._cached_smooth_fa


def op_setattr(s, m, name, x):
    setattr(s, name, x)


def op_set_then_mutate_source(s, m, x):
    s.smooth_fa_freqs = x
    x[0] = 77.0  # the signal holds a copy, so nothing changes
    return s.smooth_fa_freqs.copy(), s.smooth_fa_spectrum.copy()


def op_gen_alias(s, m, x, band):
    s.gen_smooth_fa_spectrum(smooth_fa_freqs=x, band=band)
    assert s.smooth_fa_freqs is x  # aliasing is kept
    return s.smooth_fa_spectrum


def op_mutate_stored(s, m):
    # the getter hands out the stored array itself; in-place edits do not invalidate
    s.smooth_fa_freqs[0] = s.smooth_fa_freqs[0] * 1.5
    return s._cached_smooth_fa, s.smooth_fa_spectrum.copy()


def op_del(s, m, name):
    delattr(s, name)


def op_deepcopy(s, m):
    c = copy.deepcopy(s)
    c.smooth_fa_freqs = [1.0, 2.0]
    return c.smooth_fa_spectrum, c._cached_smooth_fa, s._cached_smooth_fa, s.smooth_fa_freqs


def freqs_values():
    k = rng.randint(12)
    if k == 0:
        return [0.3, 0.9, 2.7, 8.1]
    if k == 1:
        return (1, 2, 4)
    if k == 2:
        return np.logspace(rng.uniform(-2, 0), rng.uniform(0.5, 2), rng.randint(1, 40))
    if k == 3:
        return np.arange(1, rng.randint(3, 12))
    if k == 4:
        return np.array([0.5, 5.0], dtype=np.float32)
    if k == 5:
        return list(rng.uniform(0.1, 30, rng.randint(1, 9)))
    if k == 6:
        n = 2 ** rng.randint(3, 9)
        return np.arange(n)[1:] / (2 * n * 0.01)  # Fourier grid of some record
    if k == 7:
        return range(1, 6)
    if k == 8:
        return np.array([[1.0, 2.0]])[0]  # a view
    if k == 9:
        return np.logspace(-1, 1, 20)[::-2]  # non-contiguous, descending
    if k == 10:
        return [True, 2, 3.5]
    return np.array([2.0])


def step(p):
    k = rng.randint(22)
    if k == 0:
        p.do('set freqs', op_set_freqs, freqs_values())
    elif k == 1:
        p.do('set frequencies', op_set_frequencies, freqs_values())
    elif k == 2:
        p.do('read spectrum', lambda s, m: s.smooth_fa_spectrum)
    elif k == 3:
        p.do('read freqs', lambda s, m: (s.smooth_fa_freqs, s.smooth_fa_frequencies))
    elif k == 4:
        p.do('gen default', lambda s, m: s.gen_smooth_fa_spectrum())
    elif k == 5:
        p.do('gen band', lambda s, m, b: s.gen_smooth_fa_spectrum(band=b), [5, 20, 40, 100, 62.5][rng.randint(5)])
    elif k == 6:
        p.do('generate band', lambda s, m, b: s.generate_smooth_fa_spectrum(band=b), int(rng.randint(5, 101)))
    elif k == 7:
        p.do('gen alias', op_gen_alias, np.logspace(-0.5, 1, rng.randint(2, 15)), int(rng.randint(5, 101)))
    elif k == 8:
        p.do('gen own fa grid', lambda s, m: s.gen_smooth_fa_spectrum(smooth_fa_freqs=s.fa_freqs[1:]))
    elif k == 9:
        p.do('by range', lambda s, m, lim, n: s.set_smooth_fa_frequecies_by_range(lim, n),
             [(0.2, 10), [0.5, 25], np.array([1.0, 5.0])][rng.randint(3)], int(rng.randint(2, 30)))
    elif k == 10:
        p.do('deprecated range setter', op_setattr, 'smooth_freq_range', [(0.2, 10), [1, 8]][rng.randint(2)])
    elif k == 11:
        p.do('deprecated range getter', lambda s, m: s.smooth_freq_range)
    elif k == 12:
        p.do('deprecated points setter', op_setattr, 'smooth_freq_points', [5, 12.0, 31][rng.randint(3)])
    elif k == 13:
        p.do('deprecated points getter', lambda s, m: s.smooth_freq_points)
    elif k == 14:
        p.do('clear cache', lambda s, m: s.clear_cache())
    elif k == 15:
        p.do('reset values', lambda s, m, v: s.reset_values(v), record(int(rng.randint(5, 400))))
    elif k == 16:
        p.do('gen fa', lambda s, m, pp: s.gen_fa_spectrum(p2_plus=pp), int(rng.randint(0, 3)))
    elif k == 17:
        p.do('set then mutate source', op_set_then_mutate_source, np.logspace(-0.3, 1.2, rng.randint(2, 9)))
    elif k == 18:
        p.do('mutate stored', op_mutate_stored)
    elif k == 19:
        p.do('bandwidth', lambda s, m, r: (m['eqsig.im'].calc_bandwidth_freqs(s, ratio=r),
                                           m['eqsig.im'].calc_bandwidth_f_min(s, ratio=r),
                                           m['eqsig.im'].calc_bandwidth_f_max(s, ratio=r),
                                           m['eqsig.fns.frequency'].get_sig_freq_range(s)), rng.uniform(0.2, 0.95))
    elif k == 20:
        p.do('deepcopy', op_deepcopy)
    else:
        p.do('butter', lambda s, m: s.butter_pass((0.5, 10)))


# deterministic history first
for cls in ('Signal', 'AccSignal'):
    p = Pair(cls, record(300), 0.01)
    p.do('read spectrum', lambda s, m: s.smooth_fa_spectrum)
    p.do('set freqs list', op_set_freqs, [0.3, 0.9, 2.7, 8.1])
    p.do('flag', lambda s, m: s._cached_smooth_fa)
    p.do('read spectrum', lambda s, m: s.smooth_fa_spectrum)
    p.do('set frequencies arr', op_set_frequencies, np.arange(1, 6))
    p.do('read spectrum', lambda s, m: s.smooth_fa_spectrum)
    p.do('set on grid', op_set_freqs, np.arange(512)[1:40] / (2 * 512 * 0.01))
    p.do('read spectrum', lambda s, m: s.smooth_fa_spectrum)
    p.do('set then mutate', op_set_then_mutate_source, np.array([1.0, 2.0, 3.0]))
    p.do('gen alias', op_gen_alias, np.array([0.7, 1.4, 2.8]), 25)
    p.do('mutate stored', op_mutate_stored)
    p.do('set freqs to same object', lambda s, m: op_set_freqs(s, m, s.smooth_fa_freqs))
    p.do('deepcopy', op_deepcopy)
    # invalid assignments: same exception type, state untouched on both sides
    for bad in ('abc', [1.0, 'x'], [[1.0, 2.0], [3.0]], {'a': 1}, 1 + 2j, [1j, 2.0]):
        p.do('bad set freqs', op_setattr, 'smooth_fa_freqs', bad)
        p.do('bad set frequencies', op_setattr, 'smooth_fa_frequencies', bad)
    for odd in (None, 4.0, [], [[1.0, 2.0], [3.0, 4.0]], [np.nan, 1.0], [0.0, 1.0], [-1.0, 2.0]):
        p.do('odd set freqs', op_setattr, 'smooth_fa_freqs', odd)
        p.do('read spectrum after odd', lambda s, m: s.smooth_fa_spectrum)
        p.do('odd set frequencies', op_setattr, 'smooth_fa_frequencies', odd)
        p.do('read spectrum after odd', lambda s, m: s.smooth_fa_spectrum)
    p.do('del freqs', op_del, 'smooth_fa_freqs')
    p.do('del frequencies', op_del, 'smooth_fa_frequencies')
    p.do('set freqs', op_set_freqs, [1.0, 3.0])
    p.do('read spectrum', lambda s, m: s.smooth_fa_spectrum)

# independence of instances (descriptor keeps no per-instance state on the class)
for mods in (ORG, NEW):
    S = mods['eqsig.single'].Signal
    a, b = S(record(64), 0.01), S(record(64), 0.01)
    _ = a.smooth_fa_spectrum, b.smooth_fa_spectrum
    a.smooth_fa_freqs = [1.0, 2.0]
    assert a._cached_smooth_fa is False and b._cached_smooth_fa is True
    assert len(b.smooth_fa_freqs) == 50 and len(a.smooth_fa_freqs) == 2
    assert S._smooth_fa_freqs is None and S._cached_smooth_fa is False
    assert '_smooth_fa_freqs' in vars(a) and 'smooth_fa_freqs' not in vars(a)

# random histories
for trial in range(60):
    cls = 'AccSignal' if trial % 2 else 'Signal'
    kw = [{}, {'smooth_freq_range': (0.3, 15)}, {'smooth_fa_freqs': [0.5, 1, 2, 4.0, 8]},
          {'smooth_fa_freqs': np.logspace(-1, 1, 9)}][trial % 4]
    npts = int(rng.randint(5, 600))
    p = Pair(cls, record(npts), [0.01, 0.02, 0.005][trial % 3], **kw)
    for _ in range(40):
        step(p)

print('equiv2: all %d comparisons identical (operations: %r)' % (n_checks, OUTCOMES))

"""Equivalence check for twin1 (C11): original (git HEAD) vs edited peaks_and_crossings.

Run with the twin applied, cwd = the worktree.  Exit status 0 iff everything matches.
"""
import importlib.util
import itertools
import os
import subprocess
import sys
import tempfile
import warnings

import numpy as np

TWIN = 2
# twin3 lets an EMPTY series fail inside np.take instead of values[0]: same exception class, other text
STRICT_MESSAGES_ON_EMPTY = TWIN != 3

HERE = os.getcwd()
sys.path.insert(0, HERE)
import eqsig  # noqa: E402
import eqsig.fns.peaks_and_crossings as new  # noqa: E402

assert eqsig.__file__.startswith(HERE), (eqsig.__file__, HERE)
assert new.__file__.startswith(HERE), new.__file__

tmpdir = tempfile.mkdtemp(prefix='c11_orig_', dir='/tmp')
subprocess.run('git archive HEAD eqsig | tar -x -C %s' % tmpdir, shell=True, check=True, cwd=HERE)
orig_path = os.path.join(tmpdir, 'eqsig', 'fns', 'peaks_and_crossings.py')
# the module only depends on numpy, so it can be loaded on its own under another name
src = open(orig_path).read()
imports = [ln for ln in src.splitlines() if ln.startswith('import ') or ln.startswith('from ')]
assert imports == ['import numpy as np'], imports
spec = importlib.util.spec_from_file_location('orig_peaks_and_crossings', orig_path)
orig = importlib.util.module_from_spec(spec)
spec.loader.exec_module(orig)
assert orig.__file__.startswith(tmpdir)

warnings.simplefilter('ignore')
n_checks = 0


def snapshot(x):
    if isinstance(x, np.ndarray):
        return x.copy()
    if isinstance(x, (list, tuple)):
        return type(x)(x)
    return x


def same_obj(a, b, where):
    """bit-for-bit comparison of results incl. container type, dtype, shape and ownership"""
    assert type(a) is type(b), (where, type(a), type(b))
    if isinstance(a, tuple):
        assert len(a) == len(b), where
        for k, (x, y) in enumerate(zip(a, b)):
            same_obj(x, y, where + ('[%d]' % k,))
        return
    if isinstance(a, np.ndarray):
        assert a.dtype == b.dtype, (where, a.dtype, b.dtype)
        assert a.shape == b.shape, (where, a.shape, b.shape)
        assert a.tobytes() == b.tobytes(), (where, a, b)
        assert np.array_equal(a, b, equal_nan=(a.dtype.kind == 'f')), (where, a, b)
        assert a.flags.owndata == b.flags.owndata, (where, 'owndata')
        assert a.flags.writeable == b.flags.writeable, (where, 'writeable')
        return
    assert a == b, (where, a, b)


def call(mod, fname, args, kwargs):
    args = [snapshot(a) for a in args]
    before = [snapshot(a) for a in args]
    try:
        out = ('ok', getattr(mod, fname)(*args, **kwargs))
    except Exception as e:  # noqa
        out = ('err', type(e), str(e))
    return out, before, args


def check(fname, *args, **kwargs):
    global n_checks
    n_checks += 1
    where = (fname, args, kwargs)
    (ro, bo, ao), (rn, bn, an) = call(orig, fname, args, kwargs), call(new, fname, args, kwargs)
    assert ro[0] == rn[0], (where, ro, rn)
    if ro[0] == 'err':
        assert ro[1] is rn[1], (where, ro, rn)
        empty = any(hasattr(a, '__len__') and len(a) == 0 for a in args)
        if STRICT_MESSAGES_ON_EMPTY or not empty:
            assert ro[2] == rn[2], (where, ro, rn)
    else:
        same_obj(ro[1], rn[1], where)
    # argument mutation: identical in both, (and arguments of identical type)
    for x, y in zip(ao, an):
        same_obj(x, y, where + ('arg-after',))
    return ro


PTYPES = ['all', 'max', 'min']


def check_series(values, full=True):
    """all observed entry points on one series"""
    for ptype in PTYPES:
        check('get_peak_array_indices', values, ptype)
    check('get_n_cyc_array', values)
    if not full:
        return
    for ptype in PTYPES:
        check('get_peak_array_indices', values, ptype=ptype)
    check('get_peak_array_indices', values)
    for start in ('origin', 'peak'):
        check('get_n_cyc_array', values, 'all', start)
        check('get_n_cyc_array', values, opt='switched', start=start)
    check('clean_out_non_changing', values)
    check('determine_indices_of_peaks_for_cleaned_array', values)
    check('determine_indices_of_peaks_for_cleaned', values)
    check('get_switched_peak_array_indices', values)
    if isinstance(values, np.ndarray) and values.dtype.kind == 'f':
        # these work in place on (a copy of) a float array
        check('determine_pseudo_cyclic_peak_only_series', values)
        check('determine_peaks_only_delta_series', values)
        check('determine_peak_only_delta_series_4_cleaned_data', values)
        check('_determine_peak_only_series_4_cleaned_data', values)


# ---- 1. exhaustive: all sequences over a 5-level alphabet
alphabet = [-2.0, -0.5, 0.0, 1.0, 3.0]
for n in range(1, 7):
    for seq in itertools.product(alphabet, repeat=n):
        check_series(np.array(seq), full=(n <= 5))
# length 7: the cycle counter (the edited function), both start conventions
for seq in itertools.product(alphabet, repeat=7):
    arr = np.array(seq)
    check('get_n_cyc_array', arr)
    check('get_n_cyc_array', arr, 'all', 'peak')
# length 8: all sequences over 3 levels, and a large random sample of the 5-level ones
for seq in itertools.product(alphabet[1:4], repeat=8):
    check_series(np.array(seq), full=False)
rng8 = np.random.default_rng(8)
for idx in rng8.integers(0, 5, size=(10000, 8)):
    arr = np.take(alphabet, idx)
    check('get_n_cyc_array', arr, start='origin')
    check('get_n_cyc_array', arr, opt='switched', start='peak')
    check('get_n_cyc_array', arr, 'switched')
# every rise/fall/flat pattern up to length 8 through the cycle counter as well
for n in range(2, 9):
    for pattern in itertools.product((-1, 0, 1), repeat=n - 1):
        for v0 in (0.0, 1.5, -1.0):
            arr = v0 + np.concatenate(([0.0], np.cumsum(pattern)))
            check_series(arr, full=(n <= 6))

# ---- 2. container / dtype variants
rng = np.random.default_rng(11)
for n in range(1, 8):
    for _ in range(30):
        ints = rng.integers(-2, 3, size=n)
        for v in (ints, ints.astype(np.int32), ints.astype(float), ints.astype(np.float32), list(ints.tolist()),
                  tuple(ints.tolist()), [float(x) for x in ints], ints[::-1], np.abs(ints)):
            check_series(v)
two_d = np.arange(6.0).reshape(2, 3)
check('get_peak_array_indices', two_d[0])
check('get_peak_array_indices', two_d[:, 1])  # non-contiguous view
check('get_n_cyc_array', two_d[:, 1])

# ---- 3. degenerate: empty, single sample, constant, zeros, bad options
for v in ([], np.array([]), [0.0], [2.0], np.zeros(5), np.ones(4), -np.ones(3), np.zeros(1), [0, 0, 1], [1, 1, 0],
          [0, 0, 0, -1, -1, 2, 2], [5, 5, 5, 5, 4]):
    check_series(v)
    check('get_peak_array_indices', v, 'other')
    check('get_peak_array_indices', v, None)
    check('get_n_cyc_array', v, 'nope')
    check('get_n_cyc_array', v, 'all', 'nope')
    check('get_n_cyc_array', v, 'switched', 'nope')
    check('get_n_cyc_array', v, 'nope', 'nope')

# ---- 4. random real-valued and plateau-rich series up to length 5000
for n in (2, 3, 5, 10, 33, 100, 257, 1000, 5000):
    for rep in range(6 if n <= 1000 else 3):
        x = rng.standard_normal(n)
        check_series(x)
        check_series(np.cumsum(x))
        check_series(np.round(x, 1))  # many ties / zero values
        levels = rng.integers(-3, 4, size=n).astype(float)
        check_series(levels)  # plateau rich
        check_series(np.repeat(levels, rng.integers(1, 4, size=n))[:n])  # long plateaus
        check_series(np.sin(np.linspace(0, 20, n)) * np.linspace(1, 3, n))
        lead = np.concatenate((np.full(min(n, 3), levels[0]), x))[:n]  # starts with a plateau
        check_series(lead)
        check_series(lead - lead[0])  # starts with a plateau of zeros
        check_series(list(np.round(x, 1)))
        check_series(rng.integers(-5, 6, size=n))

print('twin%d: %d comparisons, all identical' % (TWIN, n_checks))

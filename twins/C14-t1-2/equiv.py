"""
Equivalence check for twin2 (C14): run WITH twin2.diff applied, cwd = the worktree.

The original package (git HEAD) is exported into a temp dir under /tmp and imported
as a second, independent set of `eqsig` modules.  Every case is executed once with
the edited modules active and once with the original modules active, on identical
(deterministically generated) inputs; the recorded outcomes (values bit-for-bit,
types, dtypes, shapes, exceptions, argument mutation, object state, stdout) must be equal.
Exit status 0 iff everything matches.
"""
import contextlib
import importlib
import io
import os
import shutil
import subprocess
import sys
import tarfile
import tempfile

import numpy as np

TWIN = 2
TOUCHED = ['eqsig/fns/time_step.py']
# comparisons are bit-for-bit everywhere for this twin
HERE = os.getcwd()


# ----------------------------------------------------------------------------
# loading the two versions
# ----------------------------------------------------------------------------
def _purge():
    for k in [k for k in sys.modules if k == 'eqsig' or k.startswith('eqsig.')]:
        del sys.modules[k]


def _load(root):
    _purge()
    sys.path.insert(0, root)
    try:
        pkg = importlib.import_module('eqsig')
        importlib.import_module('eqsig.fns.time_step')
        importlib.import_module('eqsig.single')
        mods = {k: v for k, v in sys.modules.items() if k == 'eqsig' or k.startswith('eqsig.')}
    finally:
        sys.path.remove(root)
    assert os.path.realpath(pkg.__file__).startswith(os.path.realpath(root) + os.sep), (pkg.__file__, root)
    for name in ('eqsig.fns.time_step', 'eqsig.single'):
        assert os.path.realpath(mods[name].__file__).startswith(os.path.realpath(root) + os.sep)
    _purge()
    return mods


@contextlib.contextmanager
def active(mods):
    _purge()
    sys.modules.update(mods)
    try:
        yield
    finally:
        _purge()


class Pkg(object):
    def __init__(self, mods):
        self.mods = mods
        self.eqsig = mods['eqsig']
        self.ts = mods['eqsig.fns.time_step']
        self.single = mods['eqsig.single']


# ----------------------------------------------------------------------------
# freezing results into comparable records
# ----------------------------------------------------------------------------
def tname(x):
    return type(x).__module__ + '.' + type(x).__qualname__


def freeze(x, depth=0):
    if isinstance(x, np.ndarray):
        return ('nd', x.dtype.str, x.shape, x.tobytes())
    if isinstance(x, np.generic):
        return ('npscalar', x.dtype.str, x.tobytes())
    if isinstance(x, float):
        return ('float', np.float64(x).tobytes())
    if isinstance(x, (bool, int, str, type(None), complex)):
        return (type(x).__name__, x)
    if isinstance(x, (list, tuple)):
        return (type(x).__name__, tuple(freeze(v, depth + 1) for v in x))
    if isinstance(x, dict):
        return ('dict', tuple((repr(k), freeze(v, depth + 1)) for k, v in x.items()))
    if hasattr(x, '__dict__') and depth < 4:
        return ('obj', tname(x), freeze(dict(vars(x)), depth + 1))
    return ('repr', tname(x), repr(x))


def attempt(fn, *args, **kwargs):
    """Call and record either the frozen result or the exception (type + message)."""
    buf = io.StringIO()
    try:
        with contextlib.redirect_stdout(buf), np.errstate(all='ignore'):
            import warnings
            with warnings.catch_warnings():
                warnings.simplefilter('ignore')
                out = fn(*args, **kwargs)
    except Exception as e:  # noqa
        return None, ('exc', type(e).__name__, str(e), buf.getvalue())
    return out, ('ok', freeze(out), buf.getvalue())


# ----------------------------------------------------------------------------
# inputs
# ----------------------------------------------------------------------------
DTS = [0.01, 0.005, 0.02, 0.0078125, 0.1, 0.004, 1, 2, 1.0, np.float64(0.01), np.float32(0.02), 0.03]
TARGETS = [0.01, 0.005, 0.02, 0.003, 0.007, 0.025, 0.0333, 0.1, 0.0078125, 1, 3, 0.5, np.float64(0.004),
           np.float32(0.02), 0.0099999999, 0.010000001]


def make_values(kind, n, seed):
    rng = np.random.RandomState(seed)
    base = rng.randn(n)
    if kind == 'f64':
        return base
    if kind == 'list':
        return list(base)
    if kind == 'tuple':
        return tuple(base)
    if kind == 'int':
        return rng.randint(-50, 50, size=n)
    if kind == 'intlist':
        return [int(v) for v in rng.randint(-50, 50, size=n)]
    if kind == 'zeros':
        return np.zeros(n)
    if kind == 'f32':
        return base.astype(np.float32)
    if kind == 'complex':
        return base + 1j * rng.randn(n)
    if kind == 'const':
        return np.full(n, 3.25)
    if kind == 'strided':
        return np.repeat(base, 2)[::2]
    if kind == 'ro':
        base.setflags(write=False)
        return base
    if kind == 'sine':
        return np.sin(2 * np.pi * 3 * np.arange(n) / n)
    raise ValueError(kind)


KINDS = ['f64', 'list', 'tuple', 'int', 'intlist', 'zeros', 'f32', 'complex', 'const', 'strided', 'ro', 'sine']
LENGTHS = [0, 1, 2, 3, 4, 5, 7, 8, 16, 31, 100, 101, 257]


def array_cases():
    """(label, values-factory, dt, target, even-spec) ; even-spec: value or the marker 'default'"""
    cases = []
    seed = 0
    # systematic grid
    for dt in DTS:
        for tg in TARGETS:
            for even in (True, False):
                for n in (2, 5, 8, 101):
                    seed += 1
                    kind = KINDS[seed % len(KINDS)]
                    cases.append(('grid', kind, n, seed, dt, tg, even))
    # all kinds x all lengths on a few step pairs
    for kind in KINDS:
        for n in LENGTHS:
            for dt, tg in ((0.01, 0.01), (0.01, 0.004), (0.01, 0.025), (0.02, 0.005), (0.005, 0.02)):
                for even in (True, False, 1, 0, None, np.bool_(True), np.bool_(False)):
                    seed += 1
                    cases.append(('kinds', kind, n, seed, dt, tg, even))
    # random non-commensurate pairs
    rng = np.random.RandomState(12345)
    for i in range(1500):
        dt = float(10 ** rng.uniform(-3.5, 0.5))
        tg = float(10 ** rng.uniform(-3.5, 0.5))
        if i % 7 == 0:
            tg = dt
        if i % 11 == 0:
            tg = dt / rng.randint(1, 9)
        if i % 13 == 0:
            tg = dt * rng.randint(1, 9)
        n = int(rng.randint(2, 400))
        # keep the record in the property's domain most of the time (duration >= 2*max(dt, target))
        if i % 5 != 0:
            n = max(n, int(2 * max(dt, tg) / dt) + 3)
            n = min(n, 5000)
        seed += 1
        cases.append(('rand', KINDS[i % len(KINDS)], n, seed, dt, tg, bool(i % 2)))
    # odd / invalid scalars: same exceptions expected from both versions
    for dt, tg in ((0.0, 0.01), (0.01, 0.0), (float('nan'), 0.01), (0.01, float('nan')), (float('inf'), 0.01),
                   (0.01, float('inf')), (-0.01, 0.01), (0.01, -0.01), (0, 1), (1, 0), (np.float64(0.0), 0.01),
                   (0.01, np.float64(0.0)), (1e-9, 1.0), (5, 2), (2, 5), (7, 7), (np.int64(4), np.int64(2))):
        for even in (True, False):
            seed += 1
            cases.append(('odd', 'f64', 12, seed, dt, tg, even))
    return cases


def run_array_case(pkg, case):
    tag, kind, n, seed, dt, tg, even = case
    values = make_values(kind, n, seed)
    before = freeze(values)
    recs = []
    # keyword form
    out, rec = attempt(pkg.ts.interp_array_to_approx_dt, values, dt, target_dt=tg, even=even)
    recs.append(rec)
    recs.append(('mut', before == freeze(values)))
    if out is not None:
        recs.append(('alias', isinstance(values, np.ndarray) and np.shares_memory(out[0], values),
                     tname(out), len(out), tname(out[0]), tname(out[1]), out[0].flags.writeable))
    # positional form
    out, rec = attempt(pkg.ts.interp_array_to_approx_dt, values, dt, tg, even)
    recs.append(rec)
    # via the package namespaces (star-exports)
    out, rec = attempt(pkg.eqsig.interp_array_to_approx_dt, values, dt, tg, even=even)
    recs.append(rec)
    return recs


def run_default_case(pkg, n, dt, seed):
    values = make_values('f64', n, seed)
    recs = [attempt(pkg.ts.interp_array_to_approx_dt, values, dt)[1],
            attempt(pkg.ts.interp_array_to_approx_dt, values, dt, even=False)[1],
            attempt(pkg.ts.interp_array_to_approx_dt, values=values, dt=dt, target_dt=0.004)[1]]
    return recs


def obj_cases():
    cases = []
    seed = 100000
    for dt in (0.01, 0.005, 0.02, 0.0078125, 0.1, np.float64(0.01), 1, 0.03):
        for tg in (0.01, 0.005, 0.02, 0.003, 0.025, 0.0333, 0.1, 1, 3, None):
            for even in (True, False, None):
                for n, kind in ((4, 'f64'), (101, 'sine'), (64, 'int'), (33, 'list'), (50, 'zeros')):
                    seed += 1
                    cases.append((kind, n, seed, dt, tg, even))
    rng = np.random.RandomState(777)
    for i in range(300):
        dt = float(10 ** rng.uniform(-3, 0))
        tg = float(10 ** rng.uniform(-3, 0))
        if i % 6 == 0:
            tg = dt
        n = max(int(rng.randint(2, 300)), int(2 * max(dt, tg) / dt) + 3)
        seed += 1
        cases.append((['f64', 'sine', 'int'][i % 3], min(n, 4000), seed, dt, tg, [True, False, None][i % 3]))
    return cases


def state(obj):
    return freeze(obj)


def run_obj_case(pkg, case):
    kind, n, seed, dt, tg, even = case
    values = make_values(kind, n, seed)
    kw = {}
    if tg is not None:
        kw['target_dt'] = tg
    if even is not None:
        kw['even'] = even
    recs = []
    for cls_name in ('AccSignal', 'Signal'):
        for fname in ('interp_to_approx_dt', 'resample_to_approx_dt'):
            cls = getattr(pkg.eqsig, cls_name)
            sig = cls(values, dt, label='rec')
            s0 = state(sig)
            out, rec = attempt(getattr(pkg.ts, fname), sig, **kw)
            recs.append(rec)
            recs.append(('input-state-unchanged', s0 == state(sig)))
            recs.append(('input-state', state(sig)))
            if out is not None:
                recs.append(('out', tname(out), tname(out.dt), out.npts, out.values.dtype.str,
                             np.shares_memory(out.values, sig.values)))
            # positional form
            if tg is not None and even is not None:
                recs.append(attempt(getattr(pkg.ts, fname), sig, tg, even)[1])
            # package-level export
            recs.append(attempt(getattr(pkg.eqsig, fname), sig, **kw)[1])
    return recs


def run_history(pkg, seed):
    """Multi-step histories on objects: chain the resampling functions and the consumer."""
    rng = np.random.RandomState(seed)
    n = int(rng.randint(40, 200))
    dt = float(rng.choice([0.01, 0.005, 0.02, 0.0078125, 0.04]))
    values = rng.randn(n) * np.hanning(n)
    sig = pkg.eqsig.AccSignal(values, dt, label='h%d' % seed)
    recs = []
    cur = sig
    for step in range(6):
        op = int(rng.randint(0, 6))
        tg = float(rng.choice([0.01, 0.005, 0.02, 0.003, 0.025, 0.0133, 0.04, cur.dt]))
        even = bool(rng.randint(0, 2))
        if op == 0:
            out, rec = attempt(pkg.ts.interp_to_approx_dt, cur, tg, even)
        elif op == 1:
            out, rec = attempt(pkg.ts.resample_to_approx_dt, cur, tg, True)
        elif op == 2:
            rt = np.sort(10 ** rng.uniform(-2, 0.5, size=int(rng.randint(2, 6))))
            if rng.randint(0, 3) == 0:
                rt[0] = 0.0
            out, rec = attempt(cur.gen_response_spectrum, response_times=rt,
                               xi=float(rng.choice([-1, 0.02, 0.05, 0.1])),
                               min_dt_ratio=float(rng.choice([1, 2, 4, 7.5, 20])))
            out = None
        elif op == 3:
            cur.response_times = np.array([0.05, 0.2, 1.0])
            out, rec = attempt(lambda: (cur.s_a, cur.s_v, cur.s_d))
            out = None
        elif op == 4:
            new_vals = rng.randn(int(rng.randint(20, 80)))
            out, rec = attempt(cur.reset_values, new_vals)
            out = None
        else:
            out, rec = attempt(pkg.ts.interp_array_to_approx_dt, cur.values, cur.dt, tg, even)
            if out is not None:
                out = pkg.eqsig.AccSignal(out[0], out[1])
        recs.append((op, rec))
        recs.append(('cur-state', state(cur)))
        if out is not None:
            cur = out
            recs.append(('new-state', state(cur)))
    recs.append(('orig-state', state(sig)))
    return recs


def consumer_cases():
    cases = []
    seed = 500000
    rts = [None, [0.1, 0.5, 1.0], [0.0, 0.1, 0.5], np.array([0.02, 0.3]), np.array([0.0, 0.013, 2.0]),
           np.linspace(0.01, 2, 7), [1.0, 2.0], (0.05, 0.1), np.array([0.004, 0.5]), [0.2], [0.0],
           np.array([0, 1, 2]), np.array([1, 2])]
    for dt in (0.01, 0.005, 0.02, 0.1, np.float64(0.01)):
        for rt in rts:
            for xi in (-1, 0.05, 0.2):
                for mdr in (4, 1, 2.5, 30):
                    seed += 1
                    cases.append((seed, dt, rt, xi, mdr))
    return cases


def run_consumer_case(pkg, case):
    seed, dt, rt, xi, mdr = case
    n = [12, 60, 101][seed % 3]
    kind = ['f64', 'sine', 'int', 'zeros'][seed % 4]
    values = make_values(kind, n, seed)
    recs = []
    for verbose in (0, 1):
        sig = pkg.eqsig.AccSignal(values, dt, verbose=verbose)
        out, rec = attempt(sig.gen_response_spectrum, response_times=rt, xi=xi, min_dt_ratio=mdr)
        recs.append(rec)
        recs.append(state(sig))
        # second call with the now-stored response times, positional arguments
        out, rec = attempt(sig.gen_response_spectrum, None, xi, mdr)
        recs.append(rec)
        out, rec = attempt(sig.generate_response_spectrum, rt, xi)
        recs.append(rec)
        recs.append(state(sig))
        recs.append(('values-alias', sig.values is sig._values))
    # default arguments + cached property route
    sig = pkg.eqsig.AccSignal(values, dt, response_times=rt if rt is not None else None)
    out, rec = attempt(lambda: (sig.s_a, sig.s_v, sig.s_d))
    recs.append(rec)
    recs.append(state(sig))
    # the out-of-memory message path
    dh = pkg.single.dh
    real = dh.pseudo_response_spectra

    def boom(*a, **k):
        raise MemoryError('simulated')
    sig = pkg.eqsig.AccSignal(values, dt)
    dh.pseudo_response_spectra = boom
    try:
        out, rec = attempt(sig.gen_response_spectrum, response_times=rt, xi=xi, min_dt_ratio=mdr)
    finally:
        dh.pseudo_response_spectra = real
    recs.append(rec)
    recs.append(state(sig))
    # what reaches the SDOF solver (array identity / values / step)
    seen = []

    def spy(acc, dt_, periods, xi_):
        seen.append((freeze(acc), freeze(dt_), tname(dt_), freeze(periods), freeze(xi_), acc is sig.values))
        return real(acc, dt_, periods, xi_)
    sig = pkg.eqsig.AccSignal(values, dt)
    dh.pseudo_response_spectra = spy
    try:
        out, rec = attempt(sig.gen_response_spectrum, response_times=rt, xi=xi, min_dt_ratio=mdr)
    finally:
        dh.pseudo_response_spectra = real
    recs.append(rec)
    recs.append(tuple(seen))
    return recs


def band_limited(pkg):
    """Periodic band-limited signals through the Fourier resampler (the property's second half)."""
    recs = []
    for n in (32, 64, 100, 128):
        t = np.arange(n) / n
        vals = 0.7 * np.sin(2 * np.pi * 2 * t) + 0.2 * np.cos(2 * np.pi * 3 * t + 0.3)
        for dt, tg in ((0.01, 0.005), (0.01, 0.02), (0.01, 0.01), (0.01, 0.003), (0.02, 0.005), (0.01, 0.04)):
            for even in (True, False):
                sig = pkg.eqsig.AccSignal(vals, dt)
                recs.append(attempt(pkg.ts.resample_to_approx_dt, sig, tg, even)[1])
                recs.append(attempt(pkg.ts.interp_to_approx_dt, sig, tg, even)[1])
    return recs


def namespace_record(pkg):
    """Public names exported by the touched modules must be the same."""
    pub = lambda m: sorted(k for k in vars(m) if not k.startswith('_'))
    return [('ts', pub(pkg.ts)), ('fns', pub(pkg.mods['eqsig.fns'])), ('eqsig', pub(pkg.eqsig)),
            ('single', pub(pkg.single))]


def run_all(pkg):
    results = []
    with active(pkg.mods):
        results.append(('namespace', namespace_record(pkg)))
        for c in array_cases():
            results.append((('array',) + tuple(map(repr, c)), run_array_case(pkg, c)))
        for i, (n, dt) in enumerate(((10, 0.01), (11, 0.02), (200, 0.005), (9, 0.0333), (50, 0.004))):
            results.append((('default', n, dt), run_default_case(pkg, n, dt, 900 + i)))
        for c in obj_cases():
            results.append((('obj',) + tuple(map(repr, c)), run_obj_case(pkg, c)))
        for s in range(120):
            results.append((('history', s), run_history(pkg, 4000 + s)))
        for c in consumer_cases():
            results.append((('consumer',) + tuple(map(repr, c)), run_consumer_case(pkg, c)))
        results.append(('band-limited', band_limited(pkg)))
    return results


def main():
    # the twin must be applied: the touched files differ from HEAD, nothing else does
    changed = subprocess.check_output(['git', 'diff', '--name-only', 'HEAD', '--', 'eqsig'], cwd=HERE).decode().split()
    assert sorted(changed) == sorted(TOUCHED), 'twin%d not applied (changed files: %s)' % (TWIN, changed)

    tmp = tempfile.mkdtemp(prefix='c14_orig_', dir='/tmp')
    try:
        tar_bytes = subprocess.check_output(['git', 'archive', '--format=tar', 'HEAD', 'eqsig'], cwd=HERE)
        with tarfile.open(fileobj=io.BytesIO(tar_bytes)) as tf:
            tf.extractall(tmp)
        for f in TOUCHED:
            orig_src = subprocess.check_output(['git', 'show', 'HEAD:' + f], cwd=HERE)
            with open(os.path.join(tmp, f), 'rb') as fh:
                assert fh.read() == orig_src
            with open(os.path.join(HERE, f), 'rb') as fh:
                assert fh.read() != orig_src
        new = Pkg(_load(HERE))
        old = Pkg(_load(tmp))
        assert new.ts is not old.ts and new.single is not old.single

        res_new = run_all(new)
        res_old = run_all(old)
    finally:
        shutil.rmtree(tmp, ignore_errors=True)

    assert len(res_new) == len(res_old)
    n_bad = 0
    n_ok_calls = 0
    n_exc_calls = 0
    for (lab_n, rec_n), (lab_o, rec_o) in zip(res_new, res_old):
        assert lab_n == lab_o
        if rec_n != rec_o:
            n_bad += 1
            if n_bad <= 10:
                print('MISMATCH', lab_n)
        for r in rec_o if isinstance(rec_o, list) else []:
            if isinstance(r, tuple) and r and r[0] == 'ok':
                n_ok_calls += 1
            elif isinstance(r, tuple) and r and r[0] == 'exc':
                n_exc_calls += 1
    print('twin%d: %d cases compared, %d mismatching; original: %d calls returned, %d calls raised'
          % (TWIN, len(res_old), n_bad, n_ok_calls, n_exc_calls))
    # sanity: the corpus really exercises the code (most calls succeed)
    assert n_ok_calls > 5000
    if n_bad:
        sys.exit(1)
    print('OK')
    sys.exit(0)


if __name__ == '__main__':
    main()

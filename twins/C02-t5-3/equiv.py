"""
Equivalence program for a behaviour-preserving edit of eqsig (property C02: SDOF response operator).

Run with the edit applied and cwd = the worktree:
    cd <worktree> && PYTHONPATH=<worktree> /venv/bin/python out/equivK.py

It extracts the ORIGINAL package from git (`git archive HEAD eqsig`) into a temporary directory, runs the same
deterministic battery of cases in two separate subprocesses (one importing the original package, one importing the
edited package from os.getcwd()), and compares every recorded outcome bit-for-bit: returned values (dtype, shape,
bytes, memory-layout flags), exceptions (type), the state of the arguments after the call (mutation), aliasing of
results with arguments, and the public (and cache) state of AccSignal objects along histories of operations.

Exit status 0 iff everything matches.
"""
import os
import sys
import pickle
import struct
import subprocess
import tempfile
import shutil
import io
import tarfile

SEED = 20250202
STRICT = True   # bit-for-bit; if False, float arrays are accepted to RTOL relative
RTOL = 1e-12


# ---------------------------------------------------------------------------------------------------------------------
# worker: runs the battery against the package found in `pkgroot`
# ---------------------------------------------------------------------------------------------------------------------

def norm(x):
    """Turn a result into a nested structure of plain python objects that can be compared with =="""
    import numpy as np
    if isinstance(x, np.ndarray):
        if x.dtype == object:
            return ('ndobj', x.shape, tuple(norm(v) for v in x.ravel().tolist()))
        return ('nd', x.dtype.str, x.shape, np.ascontiguousarray(x).tobytes(),
                (bool(x.flags.c_contiguous), bool(x.flags.writeable)))
    if isinstance(x, np.generic):
        return ('sc', type(x).__name__, np.asarray(x).tobytes())
    if isinstance(x, bool):
        return ('b', x)
    if isinstance(x, int):
        return ('i', x)
    if isinstance(x, float):
        return ('f', struct.pack('<d', x))
    if isinstance(x, complex):
        return ('c', struct.pack('<dd', x.real, x.imag))
    if isinstance(x, str):
        return ('s', x)
    if x is None:
        return ('none',)
    if isinstance(x, (tuple, list)):
        return (type(x).__name__, tuple(norm(v) for v in x))
    if isinstance(x, dict):
        return ('dict', tuple((k, norm(v)) for k, v in sorted(x.items())))
    if isinstance(x, range):
        return ('range', x.start, x.stop, x.step)
    return ('obj', type(x).__name__)


def aliasing(result, args):
    import numpy as np
    outs = [r for r in (result if isinstance(result, (tuple, list)) else [result]) if isinstance(r, np.ndarray)]
    ins = [a for a in args if isinstance(a, np.ndarray)]
    flags = []
    for r in outs:
        for a in ins:
            flags.append(bool(np.shares_memory(r, a)))
    # also aliasing between the outputs themselves
    for i in range(len(outs)):
        for j in range(i + 1, len(outs)):
            flags.append(bool(np.shares_memory(outs[i], outs[j])))
    return tuple(flags)


def call(fn, *args, **kwargs):
    """Call and record outcome + state of args after the call + aliasing"""
    import numpy as np
    import warnings
    with warnings.catch_warnings():
        warnings.simplefilter('ignore')
        with np.errstate(all='ignore'):
            try:
                res = fn(*args, **kwargs)
                out = ('ok', norm(res), aliasing(res, list(args) + list(kwargs.values())))
            except BaseException as e:  # noqa
                if isinstance(e, (KeyboardInterrupt, SystemExit)):
                    raise
                out = ('exc', type(e).__name__)
    after = tuple(norm(a) for a in args) + tuple((k, norm(v)) for k, v in sorted(kwargs.items()))
    return out, after


def make_record(rng, n, kind):
    import numpy as np
    if kind == 'noise':
        r = rng.standard_normal(n)
    elif kind == 'zero_start':
        r = rng.standard_normal(n)
        if n:
            r[0] = 0.0
    elif kind == 'sine':
        r = np.sin(rng.uniform(0.05, 2.0) * np.arange(n)) * rng.uniform(0.01, 5)
    elif kind == 'pulse':
        r = np.zeros(n)
        if n:
            r[rng.integers(0, n)] = rng.uniform(-3, 3)
    elif kind == 'hat':
        r = np.zeros(n)
        if n > 2:
            k = rng.integers(1, n - 1)
            r[k] = 1.0
    elif kind == 'zeros':
        r = np.zeros(n)
    elif kind == 'int':
        r = rng.integers(-20, 20, size=n)
    elif kind == 'int32':
        r = rng.integers(-20, 20, size=n).astype(np.int32)
    elif kind == 'float32':
        r = rng.standard_normal(n).astype(np.float32)
    elif kind == 'big':
        r = rng.standard_normal(n) * 1e6
    elif kind == 'tiny':
        r = rng.standard_normal(n) * 1e-9
    elif kind == 'negzero':
        r = rng.standard_normal(n)
        r[::3] = -0.0
    elif kind == 'strided':
        r = rng.standard_normal(2 * n)[::2]
    elif kind == 'reversed':
        r = rng.standard_normal(n)[::-1]
    elif kind == 'readonly':
        r = rng.standard_normal(n)
        r.flags.writeable = False
    else:
        raise ValueError(kind)
    return r


REC_KINDS = ['noise', 'zero_start', 'sine', 'pulse', 'hat', 'zeros', 'int', 'int32', 'float32', 'big', 'tiny',
             'negzero', 'strided', 'reversed', 'readonly']


def make_periods(rng, dt, kind):
    import numpy as np
    if kind == 'log':
        p = np.logspace(rng.uniform(-2, -0.5), rng.uniform(0, 1), int(rng.integers(1, 9)))
    elif kind == 'lin':
        p = np.linspace(rng.uniform(0.02, 0.5), rng.uniform(1, 5), int(rng.integers(1, 7)))
    elif kind == 'zero_first':
        p = np.concatenate([[0.0], np.sort(rng.uniform(0.02, 4, int(rng.integers(0, 6))))])
    elif kind == 'zero_only':
        p = np.array([0.0])
    elif kind == 'negzero_first':
        p = np.concatenate([[-0.0], rng.uniform(0.02, 4, int(rng.integers(1, 4)))])
    elif kind == 'single':
        p = np.array([rng.uniform(0.02, 5)])
    elif kind == 'unsorted':
        p = rng.uniform(0.02, 5, int(rng.integers(2, 8)))
    elif kind == 'dups':
        q = rng.uniform(0.02, 5, int(rng.integers(1, 4)))
        p = np.concatenate([q, q[::-1], q])
    elif kind == 'short':
        # periods around and below 6 * dt, the limit used by the spectra functions
        p = dt * np.array([0.5, 2., 5.999, 6.0, 6.001, 8., 40.])[:int(rng.integers(1, 8))]
    elif kind == 'int':
        p = rng.integers(1, 6, int(rng.integers(1, 5)))
    elif kind == 'int_zero_first':
        p = np.concatenate([[0], rng.integers(1, 6, int(rng.integers(1, 4)))])
    elif kind == 'long':
        p = rng.uniform(5, 100, int(rng.integers(1, 4)))
    elif kind == 'many':
        p = np.linspace(0.05, 3, 37)
    elif kind == 'strided':
        p = np.logspace(-1.5, 0.5, 10)[::2]
    elif kind == 'neg_first':  # outside the domain, but must still behave the same
        p = np.concatenate([[-rng.uniform(0.1, 2)], rng.uniform(0.05, 3, int(rng.integers(1, 4)))])
    elif kind == 'nan_first':  # outside the domain, but must still behave the same
        p = np.concatenate([[np.nan], rng.uniform(0.05, 3, int(rng.integers(1, 4)))])
    else:
        raise ValueError(kind)
    return p


PER_KINDS = ['log', 'lin', 'zero_first', 'zero_only', 'negzero_first', 'single', 'unsorted', 'dups', 'short', 'int',
             'int_zero_first', 'long', 'many', 'strided', 'neg_first', 'nan_first']

XIS = [0.0, 0.05, 0.02, 0.2, 0.5, 0.7, 0.9, 0.99, 0.999999, 0, 1e-8]
DTS = [0.001, 0.005, 0.01, 0.02, 0.05, 0.1, 0.25, 1, 1.0]


def as_form(rng, arr, allow_seq=True):
    """array / list / tuple forms of the same data"""
    k = int(rng.integers(0, 6))
    if not allow_seq or k < 3:
        return arr
    if k == 3:
        return arr.tolist()
    if k == 4:
        return tuple(arr.tolist())
    return arr.copy()


def snapshot(asig):
    """state of an AccSignal as seen through the public API plus the cache bookkeeping"""
    return norm([asig.values, asig.dt, asig.npts, asig.response_times,
                 getattr(asig, '_cached_response_spectra', 'missing'), getattr(asig, '_cached_xi', 'missing'),
                 getattr(asig, '_s_a', 'missing'), getattr(asig, '_s_v', 'missing'), getattr(asig, '_s_d', 'missing')])


def battery(eqsig):
    import numpy as np
    from eqsig import sdof
    out = []
    rng = np.random.default_rng(SEED)

    import time
    t0 = time.time()

    def rec(tag, fn, *args, **kwargs):
        out.append((tag, call(fn, *args, **kwargs)))

    def lap(section):
        if os.environ.get('EQUIV_TIMING'):
            sys.stderr.write('section %s done at %.1f s, %d cases\n' % (section, time.time() - t0, len(out)))

    lengths = [0, 1, 2, 3, 4, 5, 7, 10, 16, 33, 64, 100, 150, 257]

    # ---- A. the four module-level entry points on random draws from the domain ------------------------------------
    fns = [('response_series', sdof.response_series),
           ('nigam_and_jennings_response', sdof.nigam_and_jennings_response),
           ('pseudo_response_spectra', sdof.pseudo_response_spectra),
           ('true_response_spectra', sdof.true_response_spectra)]
    for it in range(1000):
        n = int(lengths[int(rng.integers(0, len(lengths)))])
        rk = REC_KINDS[int(rng.integers(0, len(REC_KINDS)))]
        dt = DTS[int(rng.integers(0, len(DTS)))]
        pk = PER_KINDS[int(rng.integers(0, len(PER_KINDS)))]
        xi = XIS[int(rng.integers(0, len(XIS)))] if rng.random() < 0.6 else float(rng.uniform(0, 1))
        motion = make_record(rng, n, rk)
        periods = make_periods(rng, float(dt), pk)
        form = int(rng.integers(0, 3))
        for name, fn in fns:
            # response functions accept any sequence; the spectra functions need an array motion (list -> error)
            m = motion if form == 0 else (motion.tolist() if form == 1 else motion.copy())
            p = as_form(rng, periods)
            rec(('A', it, name, n, rk, pk), fn, m, dt, p, xi)

    lap('A')
    # ---- B. systematic corners: every length x period kind, one damping -------------------------------------------
    for n in [0, 1, 2, 3, 4, 9]:
        for pk in PER_KINDS:
            for xi in [0.0, 0.05, 0.97]:
                motion = make_record(rng, n, 'noise')
                periods = make_periods(rng, 0.01, pk)
                for name, fn in fns:
                    rec(('B', n, pk, xi, name), fn, motion, 0.01, periods, xi)
                    rec(('B-list', n, pk, xi, name), fn, motion.tolist(), 0.01, periods.tolist(), xi)

    lap('B')
    # ---- C. the related executions of the property (linearity, causality, shift, refinement, batching) ------------
    for it in range(100):
        n = int(rng.integers(3, 120))
        dt = float(DTS[int(rng.integers(0, 6))])
        xi = float(rng.uniform(0, 1))
        a = make_record(rng, n, 'zero_start')
        b = make_record(rng, n, 'noise')
        periods = make_periods(rng, dt, PER_KINDS[int(rng.integers(0, len(PER_KINDS)))])
        al, be = float(rng.uniform(-3, 3)), float(rng.uniform(-3, 3))
        k = int(rng.integers(1, 9))
        cut = int(rng.integers(1, n))
        fac = int(rng.integers(2, 9))
        variants = {'a': a, 'b': b, 'comb': al * a + be * b, 'neg': -a, 'scaled': al * a,
                    'shift': np.concatenate([np.zeros(k), a]), 'trunc': a[:cut],
                    'refined': np.interp(np.arange((n - 1) * fac + 1) / fac, np.arange(n), a)}
        for vname, v in variants.items():
            vdt = dt / fac if vname == 'refined' else dt
            for name, fn in fns:
                rec(('C', it, vname, name), fn, v, vdt, periods, xi)
        perm = rng.permutation(len(periods))
        for name, fn in fns:
            rec(('C', it, 'perm', name), fn, a, dt, periods[perm], xi)
            for j in range(min(len(periods), 3)):
                rec(('C', it, 'one', j, name), fn, a, dt, periods[j:j + 1], xi)
            h = len(periods) // 2
            if h:
                rec(('C', it, 'half1', name), fn, a, dt, periods[:h], xi)
                rec(('C', it, 'half2', name), fn, a, dt, periods[h:], xi)

    lap('C')
    # ---- D. scalar types of dt and xi, odd but accepted argument forms ---------------------------------------------
    motion = make_record(rng, 40, 'noise')
    periods = np.array([0.0, 0.1, 0.5, 2.0])
    for dt in [0.01, np.float32(0.01), np.float64(0.02), 1, np.int64(1), '0.01', np.array(0.01), np.array([0.01])]:
        for xi in [0.05, np.float32(0.05), 0, np.int32(0), '0.05', np.array(0.05), np.array([0.3])]:
            for name, fn in fns:
                rec(('D', repr(dt), repr(xi), name), fn, motion, dt, periods, xi)
    for name, fn in fns:
        rec(('D-range', name), fn, motion, 0.01, range(1, 4), 0.05)
        rec(('D-range0', name), fn, motion, 0.01, range(0, 4), 0.05)
        if name == 'nigam_and_jennings_response':
            rec(('D-kw', name), fn, acc=motion, dt=0.01, periods=periods, xi=0.05)
        else:
            rec(('D-kw', name), fn, motion=motion, dt=0.01, periods=periods, xi=0.05)

    lap('D')
    # ---- E. inputs that fail (must fail the same way) and values outside the domain --------------------------------
    bad_motions = [None, 3.0, np.float64(2.0), 'abc', [], (), [[1.0, 2.0], [3.0]], np.zeros((0,)), [1.0, 'x'],
                   np.array(5.0), [1.0, None], np.array([1 + 2j, 3j]), np.zeros((3, 2)), np.zeros((4, 1)),
                   [np.nan, 1.0, 2.0], [np.inf, 1.0, -np.inf], np.array([True, False, True])]
    bad_periods = [None, 1.0, [], (), np.array([]), 'abc', [[0.5, 1.0]], [[0.5], [1.0]], [[0.5]], [0.5, 0.0, 1.0],
                   [-1.0, 2.0], [np.nan, 1.0], [np.inf], [0.0, 0.0, 1.0], [1.0, None], [1e-300], [1e300],
                   np.array([[0.0, 1.0]]), [0.0], [True, False]]
    good_m = make_record(rng, 12, 'noise')
    good_p = np.array([0.2, 1.0])
    for i, bm in enumerate(bad_motions):
        for name, fn in fns:
            rec(('E-m', i, name), fn, bm, 0.01, good_p, 0.05)
            rec(('E-m0', i, name), fn, bm, 0.01, np.array([0.0, 0.3]), 0.05)
    for i, bp in enumerate(bad_periods):
        for name, fn in fns:
            rec(('E-p', i, name), fn, good_m, 0.01, bp, 0.05)
            rec(('E-pl', i, name), fn, good_m.tolist(), 0.01, bp, 0.05)
    for i, (dt, xi) in enumerate([(None, 0.05), (0.01, None), (0.0, 0.05), (-0.01, 0.05), (0.01, 1.0), (0.01, 1.5),
                                  (0.01, -0.1), (np.nan, 0.05), (0.01, np.nan), (np.inf, 0.05), ([0.01], 0.05),
                                  (0.01, [0.05]), (0.01, [0.05, 0.1]), (1e-12, 0.05), (1e6, 0.05), (0.01j, 0.05)]):
        for name, fn in fns:
            rec(('E-s', i, name), fn, good_m, dt, good_p, xi)
            rec(('E-s0', i, name), fn, good_m, dt, np.array([0.0, 0.4]), xi)
    for name, fn in fns:
        out.append((('E-argc', name), call(fn, good_m, 0.01, good_p)[0]))
        out.append((('E-argc2', name), call(fn, good_m, 0.01, good_p, 0.05, 1)[0]))

    lap('E')
    # ---- F. helpers that the entry points rely on --------------------------------------------------------------------
    for it in range(300):
        xi = float(rng.uniform(0, 1)) if it % 5 else [0.0, 0, 1.0, 0.05, 1.2][(it // 5) % 5]
        with np.errstate(all='ignore'):
            w = 2 * np.pi / make_periods(rng, 0.01, PER_KINDS[int(rng.integers(0, len(PER_KINDS)))])
        dt = DTS[int(rng.integers(0, len(DTS)))]
        rec(('F-ab', it), sdof.compute_a_and_b, xi, w, dt)
        if it % 10 == 0:
            rec(('F-ab-scalar', it), sdof.compute_a_and_b, xi, float(w[-1]), dt)
            rec(('F-ab-empty', it), sdof.compute_a_and_b, xi, np.array([]), dt)
            rec(('F-ab-list', it), sdof.compute_a_and_b, xi, w.tolist(), dt)
    for it in range(300):
        shape = [(0,), (1,), (5,), (3, 4), (1, 7), (4, 1), (2, 0), (0, 3), (2, 3, 2)][it % 9]
        a = rng.standard_normal(shape)
        if it % 4 == 0:
            a = np.round(a)  # ties between -min and max
        if it % 7 == 0:
            a = (a * 10).astype(int)
        if it % 11 == 0 and a.size and a.dtype.kind == 'f':
            a.ravel()[0] = np.nan
        for axis in [None, 0, 1, -1, 2]:
            rec(('F-absmax', it, axis), sdof.absmax, a, axis)
        rec(('F-absmax-noaxis', it), sdof.absmax, a)
    for bad in [[1.0, -2.0], (1.0,), 3.0, None, np.float64(-2.0), np.array(-3.0)]:
        rec(('F-absmax-bad', repr(bad)), sdof.absmax, bad)
    for it in range(40):
        n = int(lengths[int(rng.integers(0, 10))])
        m = make_record(rng, n, REC_KINDS[it % len(REC_KINDS)])
        per = float(rng.uniform(0.05, 3))
        rec(('F-duhamel', it), sdof.single_elastic_response, m, 0.01, per, float(rng.uniform(0, 0.9)))
        if it % 4 == 0:
            rec(('F-slow', it), sdof.slow_response_spectra, m, 0.01, np.array([per, 2 * per]), [0.05])

    # interpolation used by gen_response_spectrum (refinement)
    from eqsig.fns import time_step as ts
    for it in range(400):
        n = int(lengths[int(rng.integers(0, len(lengths)))])
        m = make_record(rng, n, REC_KINDS[int(rng.integers(0, len(REC_KINDS)))])
        dt = float(DTS[int(rng.integers(0, 7))])
        target = dt / [1, 2, 3, 4, 8, 0.5, 0.25, 1.5, 2.5, 7.3, 0.3, 1.0000001][it % 12]
        even = [True, False][it % 2]
        mm = m if it % 3 else m.tolist()
        rec(('F-interp', it), ts.interp_array_to_approx_dt, mm, dt, target, even)
        rec(('F-interp-kw', it), ts.interp_array_to_approx_dt, mm, dt, target_dt=target, even=even)
        if it % 20 == 0:
            rec(('F-interp-default', it), ts.interp_array_to_approx_dt, mm, dt)
    for bad in [(None, 0.01, 0.005), (3.0, 0.01, 0.005), ([1., 2.], 0.01, 0.0), ([1., 2.], 0.0, 0.01),
                ([1., 2.], 0.01, -0.01), ([1., 2.], 0.01, np.nan), ([1., 2.], '0.01', 0.005), ([], 0.01, 0.005),
                (np.zeros((3, 2)), 0.01, 0.005), ([1 + 1j, 2.], 0.01, 0.005), ([1., 2.], 0.01, np.inf)]:
        rec(('F-interp-bad', repr(bad)), ts.interp_array_to_approx_dt, *bad)
        rec(('F-interp-bad-odd', repr(bad)), ts.interp_array_to_approx_dt, *bad, even=False)

    lap('F')
    # ---- G. histories of public operations on AccSignal objects -----------------------------------------------------
    def history(hid, n_ops):
        n = int([2, 3, 5, 20, 60, 120, 200][int(rng.integers(0, 7))])
        dt = float([0.005, 0.01, 0.02, 0.05, 0.1][int(rng.integers(0, 5))])
        values = make_record(rng, n, REC_KINDS[int(rng.integers(0, len(REC_KINDS)))])
        v_in = values if rng.random() < 0.7 else values.tolist()
        kw = {}
        r = rng.random()
        if r < 0.3:
            kw['response_times'] = as_form(rng, make_periods(rng, dt, PER_KINDS[int(rng.integers(0, len(PER_KINDS)))]))
        elif r < 0.5:
            kw['response_period_range'] = (float(rng.uniform(0.05, 0.5)), float(rng.uniform(1, 4)))
        trace = []
        try:
            asig = eqsig.AccSignal(v_in, dt, **kw)
        except Exception as e:  # noqa
            out.append((('G', hid, 'init'), ('exc', type(e).__name__)))
            return
        trace.append(('init', snapshot(asig), norm(v_in)))
        for step in range(n_ops):
            op = int(rng.integers(0, 13))
            pk = PER_KINDS[int(rng.integers(0, len(PER_KINDS)))]
            rt = as_form(rng, make_periods(rng, dt, pk))
            xi = XIS[int(rng.integers(0, len(XIS)))] if rng.random() < 0.5 else float(rng.uniform(0, 1))
            ratio = [4, 1, 2, 8, 0.5, 3.7, 20, 100][int(rng.integers(0, 8))]
            if n > 60 and ratio > 8:
                ratio = 8
            if op == 0:
                o = call(asig.gen_response_spectrum)
            elif op == 1:
                o = call(asig.gen_response_spectrum, response_times=rt)
            elif op == 2:
                o = call(asig.gen_response_spectrum, response_times=rt, xi=xi)
            elif op == 3:
                o = call(asig.gen_response_spectrum, rt, xi, ratio)
            elif op == 4:
                o = call(asig.generate_response_spectrum, response_times=rt, xi=xi, min_dt_ratio=ratio)
            elif op == 5:
                o = call(lambda: (asig.s_a, asig.s_v, asig.s_d))
            elif op == 6:
                o = call(lambda: asig.s_d)
            elif op == 7:
                o = call(asig.response_series)
            elif op == 8:
                o = call(asig.response_series, response_times=rt, xi=xi)
            elif op == 9:
                def setrt():
                    asig.response_times = rt
                o = call(setrt)
            elif op == 10:
                o = call(asig.clear_cache)
            elif op == 11:
                newv = make_record(rng, int(rng.integers(2, 80)), REC_KINDS[int(rng.integers(0, len(REC_KINDS)))])
                o = call(asig.reset_values, newv)
            else:
                o = call(asig.gen_response_spectrum, xi=xi, min_dt_ratio=ratio)
            trace.append((op, o, snapshot(asig), norm(rt)))
        trace.append(('final', call(lambda: (asig.s_a, asig.s_v, asig.s_d)), snapshot(asig)))
        out.append((('G', hid), tuple(trace)))

    for hid in range(260):
        history(hid, int(rng.integers(1, 9)))

    lap('G')
    # ---- H. other public functions layered on response_series ------------------------------------------------------
    from eqsig import im
    for it in range(60):
        n = int([2, 3, 10, 50, 120][it % 5])
        dt = float([0.01, 0.02, 0.05][it % 3])
        asig = eqsig.AccSignal(make_record(rng, n, REC_KINDS[it % len(REC_KINDS)]), dt)
        per = make_periods(rng, dt, PER_KINDS[it % len(PER_KINDS)])
        xi = float(rng.uniform(0, 1))
        rec(('H-uke', it), sdof.calc_resp_uke_spectrum, asig, per, xi)
        rec(('H-uke-default', it), sdof.calc_resp_uke_spectrum, asig)
        rec(('H-ie', it), sdof.calc_input_energy_spectrum, asig, per, xi)
        rec(('H-ie-series', it), sdof.calc_input_energy_spectrum, asig, per, xi, True)
        rec(('H-cum', it), im.cumulative_response_spectra, asig, 'arias_intensity', per, xi)
        rec(('H-cum-bad', it), im.cumulative_response_spectra, asig, 'other', per, xi)
        rec(('H-asi', it), im.calc_asi, asig)
        rec(('H-vsi', it), im.calc_vsi, asig, xi, per)
        rec(('H-mvp', it), im.calc_max_velocity_period, asig)
        rec(('H-interp-sig', it), lambda s: (lambda r: (r.values, r.dt))(ts.interp_to_approx_dt(s, dt / 3)), asig)
        for j, tgt in enumerate([dt, dt / 2, dt / 3.3, dt * 2, dt * 2.5, 0.0, np.nan]):
            for even in (True, False):
                rec(('H-resample-sig', it, j, even),
                    lambda s_, t_, e_: (lambda r: (r.values, r.dt))(ts.resample_to_approx_dt(s_, t_, e_)), asig, tgt, even)
                rec(('H-interp-sig2', it, j, even),
                    lambda s_, t_, e_: (lambda r: (r.values, r.dt))(ts.interp_to_approx_dt(s_, t_, e_)), asig, tgt, even)

    lap('H')
    # ---- I. public surface of the module (names and signatures) -----------------------------------------------------
    import inspect
    names = sorted(k for k in vars(sdof) if not k.startswith('_'))
    sigs = []
    for k in names:
        obj = getattr(sdof, k)
        if inspect.isfunction(obj):
            sigs.append((k, str(inspect.signature(obj))))
    out.append((('I-sdof-api',), ('ok', norm(names), norm(sigs))))
    sigs = []
    for k in ['gen_response_spectrum', 'generate_response_spectrum', 'response_series', 'clear_cache']:
        sigs.append((k, str(inspect.signature(getattr(eqsig.AccSignal, k)))))
    sigs.append(('interp_array_to_approx_dt', str(inspect.signature(ts.interp_array_to_approx_dt))))
    out.append((('I-sig-api',), ('ok', norm(sigs))))
    out.append((('I-pkg-all',), ('ok', norm(sorted(k for k in vars(eqsig) if not k.startswith('_'))))))
    return out


def worker(pkgroot, outfile):
    pkgroot = os.path.realpath(pkgroot)
    sys.path[:] = [p for p in sys.path if os.path.realpath(p or '.') != os.path.realpath(os.getcwd())]
    sys.path.insert(0, pkgroot)
    import eqsig
    assert os.path.realpath(eqsig.__file__).startswith(pkgroot + os.sep), (eqsig.__file__, pkgroot)
    # silence the library's own chatter
    real_stdout = sys.stdout
    sys.stdout = io.StringIO()
    try:
        res = battery(eqsig)
    finally:
        sys.stdout = real_stdout
    with open(outfile, 'wb') as f:
        pickle.dump(res, f, protocol=4)


# ---------------------------------------------------------------------------------------------------------------------
# driver
# ---------------------------------------------------------------------------------------------------------------------

def close_enough(x, y):
    """tolerant comparison of two norm() structures (only used when STRICT is False)"""
    import numpy as np
    if x == y:
        return True
    if type(x) != type(y):
        return False
    if isinstance(x, tuple):
        if len(x) != len(y):
            return False
        if len(x) == 5 and x[0] == 'nd' and y[0] == 'nd':
            if x[1] != y[1] or x[2] != y[2] or x[4] != y[4]:
                return False
            ax = np.frombuffer(x[3], dtype=np.dtype(x[1]))
            ay = np.frombuffer(y[3], dtype=np.dtype(y[1]))
            if ax.dtype.kind not in 'fc':
                return False
            with np.errstate(all='ignore'):
                return bool(np.allclose(ax, ay, rtol=RTOL, atol=0.0, equal_nan=True))
        if len(x) == 2 and x[0] == 'f' and y[0] == 'f':
            fx, fy = struct.unpack('<d', x[1])[0], struct.unpack('<d', y[1])[0]
            return fx == fy or (fx != fx and fy != fy) or abs(fx - fy) <= RTOL * max(abs(fx), abs(fy))
        return all(close_enough(p, q) for p, q in zip(x, y))
    return False


def describe(x, depth=0):
    import numpy as np
    if isinstance(x, tuple) and len(x) == 5 and x[0] == 'nd':
        arr = np.frombuffer(x[3], dtype=np.dtype(x[1])).reshape(x[2])
        with np.printoptions(precision=17, threshold=12):
            return 'nd%s%s%s %s' % (x[1], x[2], x[4], arr)
    if isinstance(x, tuple) and depth < 6:
        return '(' + ', '.join(describe(v, depth + 1) for v in x[:8]) + (', ...' if len(x) > 8 else '') + ')'
    return repr(x)[:200]


def main():
    cwd = os.getcwd()
    if not os.path.isdir(os.path.join(cwd, 'eqsig')):
        print('run me with cwd = the worktree (no eqsig/ here)')
        return 2
    tmp = tempfile.mkdtemp(prefix='equiv_')
    try:
        orig_root = os.path.join(tmp, 'orig')
        os.mkdir(orig_root)
        data = subprocess.check_output(['git', 'archive', 'HEAD', 'eqsig'], cwd=cwd)
        with tarfile.open(fileobj=io.BytesIO(data)) as tf:
            tf.extractall(orig_root)
        env = dict(os.environ)
        env.pop('PYTHONPATH', None)
        env['PYTHONDONTWRITEBYTECODE'] = '1'
        env['PYTHONHASHSEED'] = '0'
        procs = []
        for label, root in (('orig', orig_root), ('edit', cwd)):
            outfile = os.path.join(tmp, label + '.pkl')
            p = subprocess.Popen([sys.executable, os.path.abspath(__file__), '--worker', root, outfile],
                                 cwd=tmp, env=env, stdout=subprocess.PIPE, stderr=subprocess.STDOUT)
            procs.append((label, p, outfile))
        results = {}
        for label, p, outfile in procs:
            o, _ = p.communicate()
            if p.returncode != 0:
                print('worker %s failed:\n%s' % (label, o.decode(errors='replace')[-3000:]))
                return 2
            with open(outfile, 'rb') as f:
                results[label] = pickle.load(f)
    finally:
        shutil.rmtree(tmp, ignore_errors=True)

    ro, re_ = results['orig'], results['edit']
    if len(ro) != len(re_):
        print('MISMATCH: different number of cases %d vs %d' % (len(ro), len(re_)))
        return 1
    bad = 0
    n_exc = 0
    n_tol = 0
    for (tag_o, val_o), (tag_e, val_e) in zip(ro, re_):
        if tag_o != tag_e:
            print('MISMATCH: case order differs', tag_o, tag_e)
            return 1
        if isinstance(val_o, tuple) and val_o and isinstance(val_o[0], tuple) and val_o[0] and val_o[0][0] == 'exc':
            n_exc += 1
        if val_o == val_e:
            continue
        if not STRICT and close_enough(val_o, val_e):
            n_tol += 1
            continue
        bad += 1
        if bad <= 10:
            print('MISMATCH in case %r' % (tag_o,))
            print('   original:', describe(val_o)[:1500])
            print('   edited  :', describe(val_e)[:1500])
    print('%d cases compared, %d of them raising in the original, %d within tolerance only, %d mismatches'
          % (len(ro), n_exc, n_tol, bad))
    if bad:
        print('NOT EQUIVALENT')
        return 1
    print('EQUIVALENT')
    return 0


if __name__ == '__main__':
    if len(sys.argv) == 4 and sys.argv[1] == '--worker':
        worker(sys.argv[2], sys.argv[3])
        sys.exit(0)
    sys.exit(main())

"""
Equivalence check for twin3 (C06): the Fourier-spectrum cache of Signal is read through one private getter
(_get_fa_cache, used by the properties fa_spectrum, fa_spectrum_abs, fa_freqs) and written through one private
setter (_set_fa_cache, used by gen_fa_spectrum).

Run with twin3 applied, cwd = the worktree:   /venv/bin/python out/equiv3.py

The program extracts the ORIGINAL package from git (git archive HEAD eqsig) into a temporary directory
under /tmp, runs the same deterministic battery of cases in two sub-processes (one importing the original
package, one importing the edited package in the worktree), and compares every recorded result
bit-for-bit (type, dtype, shape, bytes - so signed zeros and NaN payloads count), including recorded
exceptions, warnings, argument mutation and object state (_cached_fa, _fa_spectrum, _fa_freqs, ...).
Exit status 0 iff everything matches.
"""
import os
import pickle
import shutil
import subprocess
import sys
import tempfile

EDITED_FILES = ['eqsig/single.py']
RTOL = 0.0  # bit-for-bit


# ----------------------------------------------------------------------------------------------------------
# worker: runs the battery against the package found in `root`
# ----------------------------------------------------------------------------------------------------------
def worker(root, out_path):
    sys.path.insert(0, root)
    import warnings
    import types
    import hashlib
    import numpy as np
    import eqsig
    assert eqsig.__file__.startswith(root), (eqsig.__file__, root)
    from eqsig.single import Signal, AccSignal
    from eqsig.fns import frequency as fq
    from eqsig import im
    import eqsig.fns
    assert eqsig.fns.frequency.__file__.startswith(root)

    results = []

    def rec(label, fn):
        with warnings.catch_warnings(record=True) as wlist:
            warnings.simplefilter('always')
            try:
                val = fn()
            except Exception as e:  # recorded and compared
                val = ('EXC', type(e).__name__, str(e))
        wl = sorted((w.category.__name__, str(w.message)) for w in wlist)
        results.append((label, digest(val), wl))

    def digest(v):
        """large arrays are replaced by (dtype, shape, sha256 of the bytes) to keep the pickles small"""
        if isinstance(v, np.ndarray) and v.dtype != object and v.nbytes > 2048:
            return ('ARR', str(v.dtype), v.shape, hashlib.sha256(np.ascontiguousarray(v).tobytes()).hexdigest())
        if isinstance(v, tuple):
            return tuple(digest(x) for x in v)
        if isinstance(v, list):
            return [digest(x) for x in v]
        if isinstance(v, dict):
            return dict((k, digest(x)) for k, x in v.items())
        return v

    def state(sig):
        d = {}
        for name in ['_cached_fa', '_cached_smooth_fa', '_fa_spectrum', '_fa_freqs', '_npts', '_dt',
                     '_smooth_fa_spectrum', '_smooth_fa_freqs', '_values']:
            v = getattr(sig, name)
            d[name] = np.array(v) if isinstance(v, np.ndarray) else v
        d['inst_keys'] = sorted(k for k in sig.__dict__ if 'fa' in k)
        return d

    rng = np.random.RandomState(606)
    lengths = [2, 3, 4, 5, 7, 8, 9, 15, 16, 17, 31, 32, 33, 100, 127, 128, 129, 1000, 1024, 1025, 4097]
    dts = [0.01, 0.005, 0.02, 1.0, 0.1, 1. / 3, 1, np.float64(0.025), np.float32(0.01)]

    def records(npts):
        t = np.arange(npts)
        yield 'randn', rng.randn(npts)
        yield 'list', list(rng.randn(npts))
        yield 'int', rng.randint(-50, 50, size=npts)
        yield 'zeros', np.zeros(npts)
        yield 'spike', np.eye(1, npts, npts // 2)[0]
        yield 'f32', rng.randn(npts).astype(np.float32)
        tz = rng.randn(npts)
        tz[npts // 2:] = 0.0
        yield 'trail0', tz
        yield 'sine', np.sin(2 * np.pi * t * 0.07) + 0.3 * np.cos(2 * np.pi * t * 0.21)
        yield 'const', np.full(npts, 2.5)

    i_case = 0
    for npts in lengths:
        p2 = 2 ** int(np.ceil(np.log2(npts)))
        n_list = [npts, npts + 1, npts + 3, 2 * npts, p2, 2 * p2 + 1, max(npts - 1, 1), 1, 2, 3,
                  np.int64(p2), np.int32(npts + 2)]
        for kind, values in records(npts):
            i_case += 1
            dt = dts[i_case % len(dts)]
            keep = np.array(values, copy=True) if isinstance(values, np.ndarray) else list(values)
            for cls in (Signal, AccSignal):
                tag = '%s|%d|%s|dt=%r' % (cls.__name__, npts, kind, dt)

                # ---- lazy properties on fresh objects, one property first each time
                for first in ['fa_spectrum', 'fa_freqs', 'fa_frequencies', 'fa_spectrum_abs']:
                    sig = cls(values, dt)
                    rec(tag + '|fresh-state', lambda: state(sig))
                    rec(tag + '|first:' + first, lambda: getattr(sig, first))
                    rec(tag + '|first:' + first + '|state', lambda: state(sig))
                    rec(tag + '|all-props', lambda: (sig.fa_spectrum, sig.fa_freqs, sig.fa_frequencies,
                                                    sig.fa_spectrum_abs))
                    rec(tag + '|identity', lambda: (sig.fa_spectrum is sig._fa_spectrum,
                                                   sig.fa_freqs is sig._fa_freqs,
                                                   sig.fa_frequencies is sig._fa_freqs,
                                                   sig.fa_spectrum is sig.fa_spectrum,
                                                   sig.fa_spectrum_abs is sig.fa_spectrum_abs))
                    rec(tag + '|values-after', lambda: sig.values)

                # ---- explicit generation, p2_plus and n, keyword and positional, return value
                sig = cls(values, dt)
                for p in [0, 1, 2, 3]:
                    rec(tag + '|gen p2_plus=%d ret' % p, lambda: sig.gen_fa_spectrum(p2_plus=p))
                    rec(tag + '|gen p2_plus=%d state' % p, lambda: state(sig))
                    rec(tag + '|gen pos %d' % p, lambda: (sig.gen_fa_spectrum(p), state(sig)))
                for n in n_list:
                    rec(tag + '|gen n=%r' % (n,), lambda: (sig.gen_fa_spectrum(n=n), state(sig)))
                    rec(tag + '|gen n=%r p2=2' % (n,), lambda: (sig.gen_fa_spectrum(2, n), state(sig)))
                rec(tag + '|generate_fa_spectrum()', lambda: (sig.generate_fa_spectrum(), state(sig)))
                rec(tag + '|gen bad n', lambda: (sig.gen_fa_spectrum(n=0), state(sig)))
                rec(tag + '|gen bad n2', lambda: (sig.gen_fa_spectrum(n=-4), state(sig)))
                rec(tag + '|gen float n', lambda: (sig.gen_fa_spectrum(n=8.0), state(sig)))
                rec(tag + '|state after bad', lambda: state(sig))

                # ---- multi-step history
                sig = cls(values, dt)
                other = rng.randn(npts + 5)
                rec(tag + '|h1', lambda: (sig.fa_spectrum, state(sig)))
                rec(tag + '|h2', lambda: (sig.reset_values(other), state(sig)))
                rec(tag + '|h3', lambda: (sig.fa_freqs, state(sig)))
                rec(tag + '|h4', lambda: (sig.gen_fa_spectrum(2), state(sig)))
                rec(tag + '|h5', lambda: (sig.clear_cache(), state(sig)))
                rec(tag + '|h6', lambda: (sig.fa_spectrum_abs, state(sig)))
                rec(tag + '|h7', lambda: (sig.gen_fa_spectrum(n=npts + 9), sig.fa_spectrum, sig.fa_freqs))
                rec(tag + '|h8', lambda: (sig.add_constant(0.5), state(sig), sig.fa_spectrum, state(sig)))
                rec(tag + '|h9', lambda: (sig.remove_average(), sig.fa_frequencies, state(sig)))
                if npts >= 100:
                    rec(tag + '|h10', lambda: (sig.smooth_fa_spectrum, state(sig)))
                    rec(tag + '|h11', lambda: (sig.gen_fa_spectrum(1), sig.gen_smooth_fa_spectrum(), state(sig)))

                # ---- array-level functions on objects (must not change the cache state of the object)
                sig = cls(values, dt)
                rec(tag + '|fq.generate pad', lambda: (fq.generate_fa_spectrum(sig), state(sig)))
                rec(tag + '|fq.generate nopad', lambda: (fq.generate_fa_spectrum(sig, n_pad=False), state(sig)))
                rec(tag + '|fq.generate pos', lambda: (fq.generate_fa_spectrum(sig, False),
                                                      fq.generate_fa_spectrum(sig, True)))
                rec(tag + '|fq.calc', lambda: (fq.calc_fa_spectrum(sig), state(sig)))
                for p in [0, 1, 2, 3]:
                    rec(tag + '|fq.calc p2=%d' % p, lambda: fq.calc_fa_spectrum(sig, p2_plus=p))
                for n in n_list:
                    rec(tag + '|fq.calc n=%r' % (n,), lambda: fq.calc_fa_spectrum(sig, n=n))
                    rec(tag + '|fq.calc n=%r p2=1' % (n,), lambda: fq.calc_fa_spectrum(sig, n, 1))
                rec(tag + '|fq.calc bad n', lambda: fq.calc_fa_spectrum(sig, n=0))
                rec(tag + '|fq.calc float n', lambda: fq.calc_fa_spectrum(sig, n=8.0))
                rec(tag + '|eqsig.fns alias', lambda: (eqsig.fns.calc_fa_spectrum(sig, p2_plus=0),
                                                      eqsig.fns.generate_fa_spectrum(sig)))
                rec(tag + '|obj vs array agree', lambda: (sig.fa_spectrum, fq.calc_fa_spectrum(sig, p2_plus=0)[0],
                                                         sig.fa_freqs, fq.generate_fa_spectrum(sig)[1]))

                # ---- inverse helpers
                for p, n in [(0, None), (1, None), (0, npts + 3), (0, 2 * p2 + 1), (0, 2), (0, 3)]:
                    sig.gen_fa_spectrum(p2_plus=p, n=n)
                    fas = sig.fa_spectrum
                    fas_keep = np.array(fas, copy=True)
                    t2 = tag + '|inv p=%r n=%r' % (p, n)
                    rec(t2 + '|fas2values', lambda: fq.fas2values(fas, dt))
                    rec(t2 + '|fas2values list', lambda: fq.fas2values(list(fas), dt))
                    rec(t2 + '|fas2values abs', lambda: fq.fas2values(np.abs(fas), dt))
                    rec(t2 + '|fas2values c64', lambda: fq.fas2values(fas.astype(np.complex64), dt))

                    def f2s(stype):
                        s2 = fq.fas2signal(fas, dt, stype=stype)
                        return type(s2).__name__, s2.values, s2.dt, s2.npts, state(s2)
                    rec(t2 + '|fas2signal', lambda: (f2s('signal'), f2s('acc')))
                    rec(t2 + '|fas2signal default', lambda: type(fq.fas2signal(fas, dt)).__name__)
                    rec(t2 + '|fas untouched', lambda: (fas, fas_keep, sig._fa_spectrum is fas))

                # ---- dominant period, Fourier moments
                sig = cls(values, dt)
                rec(tag + '|max_fa_period fresh', lambda: (im.max_fa_period(sig), state(sig)))
                rec(tag + '|max_fa_period p2=3', lambda: (sig.gen_fa_spectrum(3), im.max_fa_period(sig), state(sig)))
                rec(tag + '|max_fa_period n', lambda: (sig.gen_fa_spectrum(n=npts + 1), im.max_fa_period(sig)))
                rec(tag + '|moment', lambda: fq.calc_fourier_moment(sig, 2))
                rec(tag + '|boore', lambda: fq.get_bandwidth_boore_2003(sig))

                # ---- arguments untouched
                rec(tag + '|input untouched', lambda: (values, keep, sig.values))

            # ---- duck-typed record for the array-level functions
            duck = types.SimpleNamespace(values=values, dt=dt, npts=npts)
            tag = 'duck|%d|%s|dt=%r' % (npts, kind, dt)
            rec(tag + '|generate', lambda: (fq.generate_fa_spectrum(duck), fq.generate_fa_spectrum(duck, n_pad=False)))
            rec(tag + '|calc', lambda: [fq.calc_fa_spectrum(duck), fq.calc_fa_spectrum(duck, p2_plus=2),
                                       fq.calc_fa_spectrum(duck, n=npts + 5)])
            rec(tag + '|keys', lambda: sorted(duck.__dict__))
            duck2 = types.SimpleNamespace(values=values, dt=dt, npts=max(npts - 1, 1))  # inconsistent npts
            rec(tag + '|calc npts-1', lambda: [fq.calc_fa_spectrum(duck2), fq.generate_fa_spectrum(duck2, n_pad=False),
                                              fq.generate_fa_spectrum(duck2)])

    # ---- short / odd spectra for the inverse helpers
    for m in [1, 2, 3, 4, 5, 8, 9, 64, 65]:
        fas = rng.randn(m) + 1j * rng.randn(m)
        for dt in [0.01, 1, 0.3]:
            rec('inv-direct|%d|%r' % (m, dt), lambda: (fq.fas2values(fas, dt), fq.fas2signal(fas, dt).values,
                                                      fq.fas2signal(fas, dt, 'x').values, fas))
    rec('inv-empty', lambda: fq.fas2values(np.zeros(0, dtype=complex), 0.1))

    # ---- twin3 specific: cache state through copies, manual invalidation, in-place edits, sub-classes
    import copy

    class Padded(AccSignal):  # user sub-class that changes the default padding
        def gen_fa_spectrum(self, p2_plus=1, n=None):
            super(Padded, self).gen_fa_spectrum(p2_plus=p2_plus, n=n)

    for npts in [2, 5, 16, 100, 257]:
        for cls in (Signal, AccSignal, Padded):
            vals = rng.randn(npts)
            tag = 'state|%s|%d' % (cls.__name__, npts)
            sig = cls(vals, 0.02)
            rec(tag + '|class defaults', lambda: (cls._cached_fa, cls._fa_spectrum, cls._fa_freqs,
                                                 sorted(k for k in sig.__dict__ if 'fa' in k)))
            c0 = copy.deepcopy(sig)
            rec(tag + '|deepcopy fresh', lambda: (c0.fa_freqs, state(c0), state(sig)))
            rec(tag + '|gen then copy', lambda: (sig.gen_fa_spectrum(2), state(copy.copy(sig)), state(copy.deepcopy(sig))))
            c1 = copy.deepcopy(sig)
            rec(tag + '|copy keeps cache', lambda: (c1.fa_spectrum, c1.fa_freqs, state(c1)))
            rec(tag + '|pickle', lambda: state(pickle.loads(pickle.dumps(sig))))

            def toggle():
                sig._cached_fa = False
                before = state(sig)
                out = sig.fa_spectrum_abs
                return before, out, state(sig)
            rec(tag + '|manual invalidation', toggle)

            def stale():
                sig._values[0] = 3.0  # in-place edit without clear_cache: the cache stays (stale) in both
                a = sig.fa_spectrum
                st = state(sig)
                sig.clear_cache()
                return a, st, sig.fa_spectrum, sig.fa_freqs, state(sig)
            rec(tag + '|stale then cleared', stale)
            rec(tag + '|repeat access same object', lambda: (sig.fa_spectrum is sig.fa_spectrum, sig.fa_freqs is sig.fa_freqs,
                                                            sig.fa_frequencies is sig.fa_freqs))
            rec(tag + '|order freqs, gen n, spectrum', lambda: (cls(vals, 0.02).fa_freqs,
                                                               sig.gen_fa_spectrum(n=npts + 2), sig.fa_spectrum, state(sig)))
            rec(tag + '|running average', lambda: (sig.running_average(3), state(sig), sig.fa_spectrum, state(sig)))
            rec(tag + '|butter_pass', lambda: (sig.butter_pass([0.5, 10.]), state(sig), sig.fa_freqs, state(sig)))
            rec(tag + '|property objects', lambda: [type(vars(Signal)[k]).__name__ for k in
                                                   ['fa_spectrum', 'fa_spectrum_abs', 'fa_freqs', 'fa_frequencies']])
            rec(tag + '|docstrings', lambda: (Signal.fa_spectrum.__doc__, Signal.fa_spectrum_abs.__doc__,
                                             Signal.fa_freqs.__doc__, Signal.gen_fa_spectrum.__doc__))

    # ---- public namespace of the touched modules (functions/classes visible to users)
    rec('namespace', lambda: (sorted(k for k in vars(fq) if not k.startswith('_')),
                              sorted(k for k in vars(eqsig.fns) if not k.startswith('_')),
                              sorted(k for k in vars(Signal) if not k.startswith('_')),
                              sorted(k for k in vars(eqsig) if not k.startswith('_'))))

    with open(out_path, 'wb') as f:
        pickle.dump(results, f)


# ----------------------------------------------------------------------------------------------------------
# comparison
# ----------------------------------------------------------------------------------------------------------
def deep_equal(a, b, path=''):
    import numpy as np
    if type(a) is not type(b):
        return '%s: type %s != %s' % (path, type(a), type(b))
    if isinstance(a, np.ndarray):
        if a.dtype != b.dtype or a.shape != b.shape:
            return '%s: dtype/shape %s%s != %s%s' % (path, a.dtype, a.shape, b.dtype, b.shape)
        if a.dtype == object:
            return deep_equal(list(a.ravel()), list(b.ravel()), path + '[obj]')
        if np.ascontiguousarray(a).tobytes() != np.ascontiguousarray(b).tobytes():
            if RTOL > 0 and np.allclose(a, b, rtol=RTOL, atol=0, equal_nan=True):
                return None
            return '%s: array values differ (max abs diff %r)' % (path, np.max(np.abs(a - b)))
        return None
    if isinstance(a, np.generic):
        if a.tobytes() != b.tobytes():
            return '%s: scalar %r != %r' % (path, a, b)
        return None
    if isinstance(a, float):
        import struct
        if struct.pack('d', a) != struct.pack('d', b):
            return '%s: float %r != %r' % (path, a, b)
        return None
    if isinstance(a, (list, tuple)):
        if len(a) != len(b):
            return '%s: len %d != %d' % (path, len(a), len(b))
        for i, (x, y) in enumerate(zip(a, b)):
            r = deep_equal(x, y, '%s[%d]' % (path, i))
            if r:
                return r
        return None
    if isinstance(a, dict):
        if sorted(a) != sorted(b):
            return '%s: keys %s != %s' % (path, sorted(a), sorted(b))
        for k in a:
            r = deep_equal(a[k], b[k], '%s[%r]' % (path, k))
            if r:
                return r
        return None
    if a != b:
        return '%s: %r != %r' % (path, a, b)
    return None


def main():
    here = os.getcwd()
    assert os.path.isdir(os.path.join(here, 'eqsig')), 'run with cwd = the worktree'
    # the edit must be applied, otherwise the comparison is vacuous
    changed = subprocess.run(['git', 'status', '--porcelain', '--'] + EDITED_FILES, cwd=here, check=True,
                             stdout=subprocess.PIPE).stdout.decode()
    assert changed.strip(), 'twin is not applied (no change in %s)' % EDITED_FILES
    tmp = tempfile.mkdtemp(prefix='c06_equiv_', dir='/tmp')
    try:
        ar = subprocess.run(['git', 'archive', 'HEAD', 'eqsig'], cwd=here, check=True, stdout=subprocess.PIPE).stdout
        subprocess.run(['tar', '-x', '-C', tmp], input=ar, check=True)
        outs = []
        for name, root in [('orig', tmp), ('edit', here)]:
            out_path = os.path.join(tmp, name + '.pkl')
            env = dict(os.environ, PYTHONDONTWRITEBYTECODE='1', PYTHONHASHSEED='0')
            subprocess.run([sys.executable, os.path.abspath(__file__), '--worker', root, out_path], cwd=root,
                           check=True, env=env)
            with open(out_path, 'rb') as f:
                outs.append(pickle.load(f))
        orig, edit = outs
        assert len(orig) == len(edit), (len(orig), len(edit))
        n_bad = 0
        n_exc = 0
        for (l0, v0, w0), (l1, v1, w1) in zip(orig, edit):
            assert l0 == l1
            if isinstance(v0, tuple) and len(v0) == 3 and isinstance(v0[0], str) and v0[0] == 'EXC':
                n_exc += 1
            msg = deep_equal(v0, v1, 'value') or deep_equal(w0, w1, 'warnings')
            if msg:
                n_bad += 1
                if n_bad <= 20:
                    print('MISMATCH %s -> %s' % (l0, msg))
        print('%d cases compared (%d of them recorded exceptions identically), %d mismatches'
              % (len(orig), n_exc, n_bad))
        return 1 if n_bad else 0
    finally:
        shutil.rmtree(tmp, ignore_errors=True)


if __name__ == '__main__':
    if len(sys.argv) > 1 and sys.argv[1] == '--worker':
        worker(sys.argv[2], sys.argv[3])
    else:
        sys.exit(main())

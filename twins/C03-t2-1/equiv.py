"""
Equivalence check for twin1 (absmax and the short-period PGA substitution moved to eqsig/fns/generic.py).

Run with twin1 applied, cwd = the worktree:   /venv/bin/python out/equiv1.py
The ORIGINAL package is taken from git (`git archive HEAD eqsig`) into a temporary directory; original and
edited package are each exercised in their own subprocess on the same battery of inputs and the pickled
outcomes (values bit-for-bit, dtypes, shapes, python types, exceptions, argument mutation, object state) are compared.
Exit status 0 iff everything matches.
"""
import os
import pickle
import subprocess
import sys
import tempfile

EDITED_FILES = ['eqsig/sdof.py', 'eqsig/fns/generic.py']


# ---------------------------------------------------------------------------------------------------------------------
# encoding of outcomes (strict: type + dtype + shape + bytes)
def enc(x):
    import numpy as np
    if isinstance(x, np.ndarray):
        return ('nd', x.dtype.str, x.shape, np.ascontiguousarray(x).tobytes())
    if isinstance(x, np.generic):
        return ('ns', type(x).__name__, x.tobytes())
    if isinstance(x, (tuple, list)):
        return (type(x).__name__, [enc(v) for v in x])
    if isinstance(x, dict):
        return ('dict', [(k, enc(x[k])) for k in sorted(x)])
    if isinstance(x, (bool, int, float, str, type(None))):
        return (type(x).__name__, repr(x))
    raise TypeError('cannot encode %r' % type(x))


def call(f, *args, **kwargs):
    import warnings
    try:
        with warnings.catch_warnings(record=True) as wl:
            warnings.simplefilter('always')
            out = f(*args, **kwargs)
        return ('ok', enc(out), sorted(set(str(w.category.__name__) for w in wl)))
    except Exception as e:  # noqa
        return ('exc', type(e).__name__, str(e))


def asig_state(asig):
    """observable state of an AccSignal that the spectra code reads or writes"""
    d = {}
    for k in ['_s_a', '_s_v', '_s_d', '_cached_response_spectra', '_cached_xi', '_response_times', '_values', '_dt',
              '_cached_fa', '_cached_smooth_fa', '_cached_disp_and_velo']:
        v = asig.__dict__.get(k, '<absent>')
        d[k] = v
    d['__keys__'] = ','.join(sorted(asig.__dict__))
    return enc(d)


# ---------------------------------------------------------------------------------------------------------------------
def battery():
    import numpy as np
    import eqsig
    from eqsig import sdof, im
    res = []

    def rec(tag, val):
        res.append((tag, val))

    rng = np.random.RandomState(20260926)
    rec('has absmax in sdof', enc(hasattr(sdof, 'absmax')))

    # --- absmax itself
    arrays = [rng.randn(7), -np.abs(rng.randn(7)), np.abs(rng.randn(5)), np.zeros(4), np.array([-0.0, -0.0]),
              np.array([3, -7, 2]), np.array([-3, 3]), np.array([3, -3]), np.array([5]), np.array([-5.5]),
              rng.randn(4, 9), np.zeros((3, 5)), rng.randint(-9, 9, size=(4, 6)), rng.randn(3, 1),
              rng.randn(6).astype(np.float32), np.array([np.nan, 1.0, -2.0]), np.array([np.inf, -np.inf])]
    for i, a in enumerate(arrays):
        for axis in [None, 0, 1, -1]:
            a0 = a.copy()
            rec('absmax %i axis=%s' % (i, axis), call(sdof.absmax, a, axis))
            rec('absmax %i axis=%s kw' % (i, axis), call(sdof.absmax, a, axis=axis))
            assert a.tobytes() == a0.tobytes()
        rec('absmax %i default' % i, call(sdof.absmax, a))
    rec('absmax list', call(sdof.absmax, [1.0, -2.0]))
    rec('absmax empty', call(sdof.absmax, np.array([])))

    # --- spectra functions
    def records():
        yield 'rand400', rng.randn(400)
        yield 'rand50', rng.randn(50) * 3.0
        yield 'rand5', rng.randn(5)
        yield 'rand3', rng.randn(3)
        yield 'rand2', rng.randn(2)
        yield 'one', np.array([0.7])
        yield 'zeros', np.zeros(30)
        yield 'int', rng.randint(-5, 6, size=60)
        yield 'f32', rng.randn(40).astype(np.float32)
        yield 'neg', -np.abs(rng.randn(35))
        yield 'pos', np.abs(rng.randn(35))
        yield 'spike', np.concatenate([np.zeros(10), [-4.0], np.zeros(40)])
        yield 'sine', np.sin(0.1 * np.arange(300)) * 0.01
        yield 'list', list(rng.randn(12))
        yield 'tuple', tuple(rng.randn(12))

    dts = [0.005, 0.01, 0.02, 0.1, 1]
    xis = [0.0, 0.05, 0.3, 0.99]

    def period_sets(dt):
        base = [0.5 * dt, 2 * dt, 5.99 * dt, 6 * dt, 6.01 * dt, 10 * dt, 50 * dt, 1.0, 3.0]
        yield 'arr', np.array(base)
        yield 'arr0', np.array([0.0] + base)
        yield 'list', list(base)
        yield 'list0', [0] + list(base)
        yield 'tuple', tuple(base)
        yield 'tuple0', (0.0,) + tuple(base)
        yield 'allshort', [dt, 2 * dt, 3 * dt]
        yield 'alllong', np.array([1.0, 2.0])
        yield 'single', [0.3]
        yield 'single0', [0.0]
        yield 'zero+one', [0.0, 0.3]
        yield 'ints', [1, 2, 3]
        yield 'ints0', np.array([0, 1, 2])
        yield 'unsorted', [2.0, 0.01, 0.5]
        yield 'linspace', np.linspace(0.1, 5, 30)
        yield 'empty', []
        yield 'scalar', 0.5

    import copy
    for rname, r in records():
        for dt in dts:
            for pname, p in period_sets(dt):
                for xi in (xis if rname in ('rand50', 'int', 'spike') else [0.05, 0.0]):
                    r0 = copy.deepcopy(r)
                    p0 = copy.deepcopy(p)
                    tag = '%s dt=%s %s xi=%s' % (rname, dt, pname, xi)
                    rec('pseudo ' + tag, call(sdof.pseudo_response_spectra, r, dt, p, xi))
                    rec('true ' + tag, call(sdof.true_response_spectra, r, dt, p, xi))
                    rec('pseudo kw ' + tag, call(sdof.pseudo_response_spectra, motion=r, dt=dt, periods=p, xi=xi))
                    # arguments untouched (type and content)
                    assert type(r) is type(r0) and type(p) is type(p0)
                    assert np.asarray(r).tobytes() == np.asarray(r0).tobytes(), tag
                    assert np.asarray(p).tobytes() == np.asarray(p0).tobytes(), tag

    # --- consumers: AccSignal lazy spectra, spectrum intensities
    for rname, r in [('rand400', rng.randn(400)), ('int', rng.randint(-5, 6, size=80)), ('zeros', np.zeros(50))]:
        for dt in [0.01, 0.05]:
            for mdr in [1, 2, 4, 8]:
                for rt in [None, [0, 0.02, 0.2, 1.0], (0.04, 0.3, 2.0), np.array([0.0, 0.5, 1.0])]:
                    asig = eqsig.AccSignal(r, dt, response_times=rt) if rt is not None else eqsig.AccSignal(r, dt)
                    tag = 'asig %s dt=%s mdr=%s rt=%s' % (rname, dt, mdr, 'None' if rt is None else type(rt).__name__)
                    rec(tag + ' s_a lazy', call(lambda: asig.s_a))
                    rec(tag + ' state0', asig_state(asig))
                    rec(tag + ' gen', call(asig.gen_response_spectrum, xi=0.1, min_dt_ratio=mdr))
                    rec(tag + ' s_d', call(lambda: asig.s_d))
                    rec(tag + ' s_v', call(lambda: asig.s_v))
                    rec(tag + ' state1', asig_state(asig))
            asig = eqsig.AccSignal(r, dt)
            rec('asi %s %s' % (rname, dt), call(im.calc_asi, asig))
            rec('vsi %s %s' % (rname, dt), call(im.calc_vsi, asig, xi=0.02))
            rec('asi p %s %s' % (rname, dt), call(im.calc_asi, asig, periods=[0, 0.01, 0.2, 0.5]))
    return res


# ---------------------------------------------------------------------------------------------------------------------
def worker(root, outfile):
    sys.path.insert(0, root)
    os.chdir(root)
    import eqsig
    assert os.path.realpath(eqsig.__file__).startswith(os.path.realpath(root) + os.sep), (eqsig.__file__, root)
    res = battery()
    with open(outfile, 'wb') as f:
        pickle.dump(res, f)


def main():
    here = os.getcwd()
    assert os.path.isdir(os.path.join(here, 'eqsig')) and os.path.exists(os.path.join(here, '.git')), 'run in the worktree'
    tmp = tempfile.mkdtemp(prefix='equiv1_', dir='/tmp')
    orig = os.path.join(tmp, 'orig')
    os.mkdir(orig)
    subprocess.check_call('git archive HEAD eqsig | tar -x -C %s' % orig, shell=True, cwd=here)
    differs = False
    for fn in EDITED_FILES:
        with open(os.path.join(here, fn)) as f1, open(os.path.join(orig, fn)) as f2:
            differs = differs or f1.read() != f2.read()
    assert differs, 'the twin is not applied: edited files are identical to HEAD'
    outs = []
    for name, root in [('orig', orig), ('edit', here)]:
        out = os.path.join(tmp, name + '.pkl')
        env = dict(os.environ)
        env.pop('PYTHONPATH', None)
        subprocess.check_call([sys.executable, os.path.abspath(__file__), '--worker', root, out], cwd=root, env=env)
        with open(out, 'rb') as f:
            outs.append(pickle.load(f))
    a, b = outs
    assert len(a) == len(b), (len(a), len(b))
    bad = 0
    n_ok = n_exc = 0
    for (ta, va), (tb, vb) in zip(a, b):
        assert ta == tb
        if va != vb:
            bad += 1
            if bad < 20:
                print('MISMATCH', ta, '\n   orig:', str(va)[:300], '\n   edit:', str(vb)[:300])
        if va[0] == 'exc':
            n_exc += 1
        else:
            n_ok += 1
    print('%i outcomes compared (%i normal, %i exceptions), %i mismatches' % (len(a), n_ok, n_exc, bad))
    import shutil
    shutil.rmtree(tmp, ignore_errors=True)
    sys.exit(1 if bad else 0)


if __name__ == '__main__':
    if len(sys.argv) > 1 and sys.argv[1] == '--worker':
        worker(sys.argv[2], sys.argv[3])
    else:
        main()

#!/usr/bin/env python
"""
Equivalence program for twin 2 (property C04: derived quantities of a signal object never go stale).

Twin 2 (medium edit): the duplicated window-average loops of Signal.running_average and
AccSignal.remove_rolling_average are moved behind two private module level helpers
(_window_limits, _fill_with_window_means); running_average still overwrites the existing values array element
by element (same dtype truncation, same aliasing with arrays handed out earlier) and both still end with
clear_cache().

Usage (edit applied, cwd = the worktree):

    cd <worktree> && PYTHONPATH=<worktree> /venv/bin/python out/equiv2.py

The ORIGINAL package is taken from git (`git archive HEAD eqsig`) into a temporary directory.  The same
deterministic battery of histories is then replayed in two separate subprocesses, one importing the
original package and one importing the package in the current working directory.  Every value returned by a
public call, every exception (type and message), everything printed, every warning, every public observable
that is read, the identity of returned arrays between reads, the contents of previously returned arrays
(in-place effects) and the contents of the arguments after the call are recorded and compared bit for bit.

The battery has three parts:
  A. exhaustive: every subset of the seven lazily evaluated groups of an AccSignal (Fourier spectrum,
     smoothed spectrum, response spectra, velocity/displacement, pga, pgv, pgd) is read, then each mutator /
     settings change is applied, then everything is read twice.  Float and integer typed records; the same
     for the two groups of a plain Signal.
  B. targeted: the rolling / running average family over many widths (float, zero, negative, larger than the
     record), record lengths (0, 1, 2, ...), dtypes and cache states; rebase_displacement; Fourier options;
     response-period forms.
  C. random: long random interleavings of mutators, settings changes and reads over many kinds of record
     (list / tuple / array, float / int / float32, lengths 0 - 130, several dt).

Exit status 0 iff all records of all histories are identical.
"""
import contextlib
import hashlib
import io
import json
import os
import shutil
import struct
import subprocess
import sys
import tarfile
import tempfile
import warnings

N_RANDOM = 1300
MAX_REPORT = 8


# ----------------------------------------------------------------------------------------------------------
# driver
# ----------------------------------------------------------------------------------------------------------

def driver():
    cwd = os.getcwd()
    if not os.path.isdir(os.path.join(cwd, 'eqsig')):
        print('run with cwd = the worktree (no eqsig/ here)')
        return 3
    tmp = tempfile.mkdtemp(prefix='eqsig_equiv_')
    try:
        orig_root = os.path.join(tmp, 'orig')
        os.mkdir(orig_root)
        blob = subprocess.check_output(['git', 'archive', 'HEAD', 'eqsig'], cwd=cwd)
        with tarfile.open(fileobj=io.BytesIO(blob)) as tf:
            tf.extractall(orig_root)
        n_diff_files = 0
        for dirpath, _, fnames in os.walk(os.path.join(orig_root, 'eqsig')):
            for fn in fnames:
                if not fn.endswith('.py'):
                    continue
                po = os.path.join(dirpath, fn)
                pe = os.path.join(cwd, os.path.relpath(po, orig_root))
                if not os.path.exists(pe) or open(po, 'rb').read() != open(pe, 'rb').read():
                    n_diff_files += 1
        print('source files differing from HEAD: %i' % n_diff_files)
        procs = []
        for tag, root in (('orig', orig_root), ('edit', cwd)):
            env = dict(os.environ)
            env['PYTHONPATH'] = root
            env['PYTHONHASHSEED'] = '0'
            env['PYTHONDONTWRITEBYTECODE'] = '1'
            out = os.path.join(tmp, tag + '.json')
            p = subprocess.Popen([sys.executable, os.path.abspath(__file__), '--worker', root, out],
                                 env=env, cwd=tmp)
            procs.append((tag, p, out))
        traces = {}
        for tag, p, out in procs:
            rc = p.wait()
            if rc != 0:
                print('worker %s failed with exit status %i' % (tag, rc))
                return 2
            with open(out) as f:
                traces[tag] = json.load(f)
        a, b = traces['orig'], traces['edit']
        if len(a) != len(b):
            print('different number of histories: %i vs %i' % (len(a), len(b)))
            return 1
        n_bad = 0
        n_rec = 0
        for ha, hb in zip(a, b):
            n_rec += len(ha['rec'])
            if ha == hb:
                continue
            n_bad += 1
            if n_bad <= MAX_REPORT:
                print('MISMATCH in history %s' % ha['desc'])
                if ha['desc'] != hb['desc']:
                    print('   descriptions differ: %s' % hb['desc'])
                for k, (ra, rb) in enumerate(zip(ha['rec'], hb['rec'])):
                    if ra != rb:
                        print('   first differing record #%i\n      orig: %s\n      edit: %s' % (k, ra, rb))
                        break
                else:
                    print('   record counts differ: %i vs %i' % (len(ha['rec']), len(hb['rec'])))
        print('%i histories, %i records compared, %i histories differ' % (len(a), n_rec, n_bad))
        return 0 if n_bad == 0 else 1
    finally:
        shutil.rmtree(tmp, ignore_errors=True)


# ----------------------------------------------------------------------------------------------------------
# worker
# ----------------------------------------------------------------------------------------------------------

def worker(root, out_path):
    import numpy as np
    np.seterr(all='ignore')
    import eqsig
    from eqsig import exceptions as eq_exc
    here = os.path.realpath(os.path.dirname(eqsig.__file__))
    want = os.path.realpath(os.path.join(root, 'eqsig'))
    if here != want:
        print('worker imported eqsig from %s, wanted %s' % (here, want))
        return 4

    def sha(b):
        return hashlib.sha1(b).hexdigest()[:12]

    def dg(x):
        """Canonical, bit exact description of a value."""
        if x is None:
            return 'None'
        if isinstance(x, (bool, np.bool_)):
            return '%s:%s' % (type(x).__name__, bool(x))
        if isinstance(x, np.ndarray):
            if x.dtype == object:
                return 'ndobj:%s:[%s]' % (x.shape, ','.join(dg(v) for v in x.ravel().tolist()))
            return 'nd:%s:%s:%s' % (x.dtype.str, x.shape, sha(np.ascontiguousarray(x).tobytes()))
        if isinstance(x, (float, np.floating)):
            return '%s:%s' % (type(x).__name__, struct.pack('<d', float(x)).hex())
        if isinstance(x, (int, np.integer)):
            return '%s:%i' % (type(x).__name__, int(x))
        if isinstance(x, (complex, np.complexfloating)):
            return '%s:%s' % (type(x).__name__, struct.pack('<dd', x.real, x.imag).hex())
        if isinstance(x, str):
            return 'str:' + x
        if isinstance(x, (tuple, list)):
            return '%s[%s]' % (type(x).__name__, ','.join(dg(v) for v in x))
        if isinstance(x, dict):
            return 'dict{%s}' % ','.join('%s=%s' % (k, dg(x[k])) for k in sorted(x))
        if isinstance(x, BaseException):
            return 'excobj:%s:%s' % (type(x).__name__, x)
        if isinstance(x, eqsig.Signal):
            return 'sig:%s:%s:%s' % (type(x).__name__, dg(x.values), dg(x.dt))
        return 'obj:' + type(x).__name__

    SIG_READS = ['values', 'dt', 'npts', 'time', 'fa_spectrum', 'fa_spectrum_abs', 'fa_freqs',
                 'fa_frequencies', 'smooth_fa_freqs', 'smooth_fa_frequencies', 'smooth_fa_spectrum',
                 'smooth_freq_range', 'smooth_freq_points', 'label', 'verbose', 'ccbox']
    ACC_READS = SIG_READS + ['velocity', 'displacement', 'pga', 'pgv', 'pgd', 's_a', 's_v', 's_d',
                             'response_times']
    ACC_ATTRS = ['t_b01', 't_b05', 't_b10', 'a_rms01', 'a_rms05', 'a_rms10', 't_595', 'sd_start', 'sd_end',
                 'arias_intensity', 'arias_intensity_series', 'cav', 'cav_series']

    class History(object):
        """Replays operations on one object and records everything observable."""

        def __init__(self, desc):
            self.desc = desc
            self.rec = []
            self.obj = None
            self.seen = {}   # name -> last object returned by a read of that name

        def call(self, label, fn, args=()):
            """fn() is executed; result / exception / output / warnings / argument contents recorded."""
            buf = io.StringIO()
            with warnings.catch_warnings(record=True) as wlist:
                warnings.simplefilter('always')
                with contextlib.redirect_stdout(buf):
                    try:
                        res = fn()
                        r = 'ret=' + dg(res)
                    except Exception as e:  # noqa
                        res = None
                        r = 'EXC=%s:%s' % (type(e).__name__, e)
            wtxt = ';'.join(sorted('%s:%s' % (w.category.__name__, w.message) for w in wlist))
            if buf.getvalue():
                r += ' | out=%r' % buf.getvalue()
            if wtxt:
                r += ' | warn=%s' % sha(wtxt.encode())
            if len(args):
                r += ' | args=' + ','.join(dg(a) for a in args)
            self.rec.append('%s -> %s' % (label, r))
            return res

        def construct(self, label, fn, args=()):
            self.obj = self.call('new ' + label, fn, args)
            return self.obj is not None

        def read(self, name):
            obj = self.obj
            res = self.call('read ' + name, lambda: getattr(obj, name))
            if isinstance(res, np.ndarray):
                prev = self.seen.get(name)
                self.rec.append('  same-object-as-last-read %s: %s' % (name, prev is res))
                self.seen[name] = res

        def check_held(self):
            """Contents of the arrays handed out by earlier reads (in-place effects, aliasing)."""
            if self.seen:
                self.rec.append('  held ' + ' '.join('%s=%s' % (name, dg(self.seen[name])) for name in sorted(self.seen)))

        def op(self, label, fn, args=()):
            self.call(label, fn, args)
            self.check_held()

        def snapshot(self, names, twice=True):
            for rep in range(2 if twice else 1):
                for name in names:
                    self.read(name)
                if isinstance(self.obj, eqsig.AccSignal):
                    self.rec.append('  attrs ' + ' '.join('%s=%s' % (a, dg(getattr(self.obj, a, 'absent'))) for a in ACC_ATTRS))
            self.check_held()

        def export(self):
            return {'desc': self.desc, 'rec': self.rec}

    # -------------------------------------------------------------------------------- generators of inputs

    def gen_values(rng, n, kind=None):
        kinds = ['float', 'float', 'float', 'int', 'int', 'list', 'ilist', 'tuple', 'trend', 'zeros', 'const',
                 'f32', 'i32', 'big']
        if kind is None:
            kind = kinds[rng.integers(len(kinds))]
        if kind == 'float':
            v = rng.standard_normal(n)
        elif kind == 'int':
            v = rng.integers(-40, 41, size=n).astype(np.int64)
        elif kind == 'i32':
            v = rng.integers(-9, 10, size=n).astype(np.int32)
        elif kind == 'list':
            v = [float(x) for x in rng.standard_normal(n)]
        elif kind == 'ilist':
            v = [int(x) for x in rng.integers(-5, 6, size=n)]
        elif kind == 'tuple':
            v = tuple(float(x) for x in rng.standard_normal(n))
        elif kind == 'trend':
            v = rng.standard_normal(n) * 0.3 + np.linspace(-1, 2, n) ** 2 + 0.7
        elif kind == 'zeros':
            v = np.zeros(n)
        elif kind == 'const':
            v = np.ones(n) * float(rng.integers(-3, 4))
        elif kind == 'f32':
            v = rng.standard_normal(n).astype(np.float32)
        elif kind == 'big':
            v = rng.standard_normal(n) * 1e6
        else:
            raise ValueError(kind)
        return kind, v

    LENGTHS = [1, 2, 3, 4, 5, 7, 8, 9, 12, 16, 17, 28, 31, 32, 33, 40, 50, 64, 65, 100, 130]
    DTS = [0.01, 0.005, 0.02, 0.1, 0.5, 1, 0.025, np.float64(0.01)]

    def gen_periods(rng):
        c = rng.integers(8)
        if c == 0:
            return np.array([0.1, 0.5, 1.0])
        if c == 1:
            return [0.2, 1.0]
        if c == 2:
            return np.array([0.0, 0.3, 1.0, 2.0])
        if c == 3:
            return (0.05, 0.4, 3.0)
        if c == 4:
            return np.array([1, 2, 3])
        if c == 5:
            return np.sort(rng.uniform(0.03, 4.0, size=int(rng.integers(1, 7))))
        if c == 6:
            return np.array([0.5])
        return np.linspace(0.2, 2.0, 5)

    def gen_sfreqs(rng):
        c = rng.integers(5)
        if c == 0:
            return np.logspace(-1, 1, int(rng.integers(2, 9)))
        if c == 1:
            return [0.5, 1.0, 2.0, 4.0]
        if c == 2:
            return np.array([1, 2, 5, 10])
        if c == 3:
            return (0.3, 3.0)
        return np.sort(rng.uniform(0.1, 20.0, size=int(rng.integers(1, 7))))

    def make_obj(h, rng, cls=None, n=None, kind=None, dt=None):
        if cls is None:
            cls = 'acc' if rng.random() < 0.75 else 'sig'
        if n is None:
            n = 0 if rng.random() < 0.02 else LENGTHS[rng.integers(len(LENGTHS))]
        kind, v = gen_values(rng, n, kind)
        if dt is None:
            dt = DTS[rng.integers(len(DTS))]
        kw = {}
        if rng.random() < 0.3:
            kw['smooth_fa_freqs'] = gen_sfreqs(rng)
        elif rng.random() < 0.3:
            kw['smooth_freq_range'] = [(0.1, 30), (0.5, 10), [0.2, 20.0], np.array([1.0, 5.0])][rng.integers(4)]
        if rng.random() < 0.2:
            kw['verbose'] = 1
        if rng.random() < 0.2:
            kw['label'] = 'rec'
        if cls == 'acc':
            c = rng.random()
            if c < 0.6:
                kw['response_times'] = gen_periods(rng)
            elif c < 0.8:
                kw['response_period_range'] = [(0.1, 5), (0.2, 2.0), (0.0, 1.0)][rng.integers(3)]
            ctor = eqsig.AccSignal
        else:
            ctor = eqsig.Signal
        held = [v] + [kw[k] for k in sorted(kw) if not isinstance(kw[k], (str, int))]
        label = '%s(n=%i,%s,dt=%r,%s)' % (cls, n, kind, dt, sorted(kw))
        ok = h.construct(label, lambda: ctor(v, dt, **kw), held)
        return ok

    # --------------------------------------------------------------------------------- operations on objects

    def op_list(is_acc):
        """name -> function(rng, obj) returning (label, thunk, args)."""
        ops = {}

        def reg(name, acc_only=False):
            def deco(f):
                if is_acc or not acc_only:
                    ops[name] = f
                return f
            return deco

        @reg('reset_values')
        def _(rng, o):
            n = o.npts if rng.random() < 0.6 else LENGTHS[rng.integers(len(LENGTHS))]
            kind, v = gen_values(rng, n)
            return 'reset_values(%s,%i)' % (kind, n), lambda: o.reset_values(v), [v]

        @reg('add_constant')
        def _(rng, o):
            c = [0.5, -2, 3, 1e-3, np.float64(0.25), 0][rng.integers(6)]
            return 'add_constant(%r)' % (c,), lambda: o.add_constant(c), [c]

        @reg('add_series')
        def _(rng, o):
            n = o.npts if rng.random() < 0.8 else o.npts + 1
            kind, v = gen_values(rng, n)
            return 'add_series(%s,%i)' % (kind, n), lambda: o.add_series(v), [v]

        @reg('add_signal')
        def _(rng, o):
            c = rng.random()
            n = o.npts if c < 0.7 else o.npts + 2
            kind, v = gen_values(rng, n)
            dt = o.dt if rng.random() < 0.8 else o.dt * 2
            if c > 0.9:
                other = v
            elif rng.random() < 0.5:
                other = eqsig.Signal(v, dt)
            else:
                other = eqsig.AccSignal(v, dt, response_times=[0.2, 1.0])
            return 'add_signal(%s,%i,%r)' % (kind, n, dt), lambda: o.add_signal(other), [other]

        @reg('butter_pass')
        def _(rng, o):
            nyq = 0.5 / o.dt
            lo = float(rng.uniform(0.02, 0.15)) * nyq
            hi = float(rng.uniform(0.3, 0.9)) * nyq
            c = rng.integers(9)
            if c == 0:
                cut = (lo, hi)
            elif c == 1:
                cut = [lo, hi]
            elif c == 2:
                cut = np.array([lo, hi])
            elif c == 3:
                cut = (None, hi)
            elif c == 4:
                cut = (lo, None)
            elif c == 5:
                cut = [None, hi]
            elif c == 6:
                cut = (lo, hi, hi)
            elif c == 7:
                cut = hi
            else:
                cut = (lo, 3 * nyq)
            kw = {}
            if rng.random() < 0.5:
                kw['filter_order'] = int(rng.integers(1, 5))
            if rng.random() < 0.5:
                kw['remove_gibbs'] = ['start', 'end', 'mid', None][rng.integers(4)]
                if rng.random() < 0.5:
                    kw['gibbs_extra'] = int(rng.integers(0, 3))
                if rng.random() < 0.5:
                    kw['gibbs_range'] = int(rng.integers(1, 60))
            if rng.random() < 0.15:
                return 'butter_pass()', lambda: o.butter_pass(), []
            return 'butter_pass(%r,%r)' % (cut, sorted(kw.items())), lambda: o.butter_pass(cut, **kw), [cut]

        @reg('remove_average')
        def _(rng, o):
            c = rng.integers(4)
            if c == 0:
                return 'remove_average()', lambda: o.remove_average(), []
            sec = [-1, 5, 1, 1000, -3, 0][rng.integers(6)]
            vb = [-1, 0, 1][rng.integers(3)]
            return 'remove_average(%i,%i)' % (sec, vb), lambda: o.remove_average(section=sec, verbose=vb), []

        @reg('remove_poly')
        def _(rng, o):
            p = int(rng.integers(0, 4))
            return 'remove_poly(%i)' % p, lambda: o.remove_poly(poly_fit=p), []

        @reg('running_average')
        def _(rng, o):
            w = [1, 2, 3, 4, 5, 6, 7, 10, 0, 2.5, 3.9, 41, 1000, -3, np.int64(4), 8.0][rng.integers(16)]
            if rng.random() < 0.1:
                return 'running_average()', lambda: o.running_average(), []
            return 'running_average(%r)' % (w,), lambda: o.running_average(width=w), [w]

        @reg('get_section_average')
        def _(rng, o):
            c = rng.integers(3)
            if c == 0:
                return 'get_section_average()', lambda: o.get_section_average(), []
            if c == 1:
                return 'get_section_average(idx)', lambda: o.get_section_average(start=1, end=5, index=True), []
            t0 = 0.1 * o.dt * o.npts
            return 'get_section_average(t)', lambda: o.get_section_average(start=t0, end=3 * t0), []

        @reg('clear_cache')
        def _(rng, o):
            return 'clear_cache()', lambda: o.clear_cache(), []

        @reg('values_setter')
        def _(rng, o):
            def f():
                o.values = [1.0, 2.0]
            return 'values=[..]', f, []

        @reg('smooth_fa_freqs=')
        def _(rng, o):
            fr = gen_sfreqs(rng)

            def f():
                o.smooth_fa_freqs = fr
            return 'smooth_fa_freqs=%s' % dg(fr), f, [fr]

        @reg('smooth_fa_frequencies=')
        def _(rng, o):
            fr = gen_sfreqs(rng)

            def f():
                o.smooth_fa_frequencies = fr
            return 'smooth_fa_frequencies=%s' % dg(fr), f, [fr]

        @reg('set_smooth_by_range')
        def _(rng, o):
            lim = [(0.1, 30), (0.5, 5.0), [0.2, 12], np.array([1.0, 8.0])][rng.integers(4)]
            k = int(rng.integers(1, 12))
            return 'set_smooth_fa_frequecies_by_range(%r,%i)' % (lim, k), \
                lambda: o.set_smooth_fa_frequecies_by_range(lim, k), [lim]

        @reg('smooth_freq_range=')
        def _(rng, o):
            lim = [(0.2, 20), [0.5, 5.0], np.array([1.0, 8.0])][rng.integers(3)]

            def f():
                o.smooth_freq_range = lim
            return 'smooth_freq_range=%r' % (lim,), f, [lim]

        @reg('smooth_freq_points=')
        def _(rng, o):
            k = [3, 7, 12, 5.0][rng.integers(4)]

            def f():
                o.smooth_freq_points = k
            return 'smooth_freq_points=%r' % (k,), f, []

        @reg('gen_fa_spectrum')
        def _(rng, o):
            c = rng.integers(5)
            if c == 0:
                return 'gen_fa_spectrum()', lambda: o.gen_fa_spectrum(), []
            if c == 1:
                return 'generate_fa_spectrum()', lambda: o.generate_fa_spectrum(), []
            if c == 2:
                p = int(rng.integers(0, 3))
                return 'gen_fa_spectrum(p2_plus=%i)' % p, lambda: o.gen_fa_spectrum(p2_plus=p), []
            n = [7, 8, 9, 33, 64, 100, 1, 2, 3][rng.integers(9)]
            return 'gen_fa_spectrum(n=%i)' % n, lambda: o.gen_fa_spectrum(n=n), []

        @reg('gen_smooth_fa_spectrum')
        def _(rng, o):
            c = rng.integers(4)
            if c == 0:
                return 'generate_smooth_fa_spectrum()', lambda: o.generate_smooth_fa_spectrum(), []
            if c == 1:
                b = int(rng.integers(5, 60))
                return 'generate_smooth_fa_spectrum(band=%i)' % b, lambda: o.generate_smooth_fa_spectrum(band=b), []
            if c == 2:
                return 'gen_smooth_fa_spectrum()', lambda: o.gen_smooth_fa_spectrum(), []
            fr = gen_sfreqs(rng)
            if not isinstance(fr, np.ndarray):
                fr = np.array(fr, dtype=float)
            b = int(rng.integers(5, 60))
            return 'gen_smooth_fa_spectrum(%s,band=%i)' % (dg(fr), b), \
                lambda: o.gen_smooth_fa_spectrum(smooth_fa_freqs=fr, band=b), [fr]

        # ---- AccSignal only

        @reg('response_times=', True)
        def _(rng, o):
            p = gen_periods(rng)

            def f():
                o.response_times = p
            return 'response_times=%s' % dg(p), f, [p]

        @reg('gen_response_spectrum', True)
        def _(rng, o):
            c = rng.integers(5)
            if c == 0:
                return 'generate_response_spectrum()', lambda: o.generate_response_spectrum(), []
            if c == 1:
                return 'gen_response_spectrum()', lambda: o.gen_response_spectrum(), []
            p = gen_periods(rng) if rng.random() < 0.7 else None
            xi = [-1, 0.05, 0.02, 0.2][rng.integers(4)]
            m = [4, 1, 8, 2.5][rng.integers(4)]
            if c == 2:
                return 'generate_response_spectrum(%s,%r,%r)' % (dg(p), xi, m), \
                    lambda: o.generate_response_spectrum(response_times=p, xi=xi, min_dt_ratio=m), [p]
            return 'gen_response_spectrum(%s,%r,%r)' % (dg(p), xi, m), \
                lambda: o.gen_response_spectrum(response_times=p, xi=xi, min_dt_ratio=m), [p]

        @reg('response_series', True)
        def _(rng, o):
            p = gen_periods(rng) if rng.random() < 0.6 else None
            xi = [-1, 0.05, 0.1][rng.integers(3)]
            return 'response_series(%s,%r)' % (dg(p), xi), lambda: o.response_series(response_times=p, xi=xi), [p]

        @reg('correct_me', True)
        def _(rng, o):
            return 'correct_me()', lambda: o.correct_me(), []

        @reg('remove_rolling_average', True)
        def _(rng, o):
            c = rng.integers(6)
            if c == 0:
                return 'remove_rolling_average()', lambda: o.remove_rolling_average(), []
            mt = ['velocity', 'acceleration', 'values', 'velocity'][rng.integers(4)]
            # widths 1 ... larger than the record, and freq_window too high (ValueError)
            w = [1, 2, 3, 4, 5, 8, 13, 40, 300][rng.integers(9)]
            fw = 1.0 / (w * o.dt) * 0.999 if rng.random() < 0.85 else 10.0 / o.dt
            if rng.random() < 0.3:
                fw = [5, 1, 2, 0.5, 20][rng.integers(5)]
            return 'remove_rolling_average(%s,%r)' % (mt, fw), \
                lambda: o.remove_rolling_average(mtype=mt, freq_window=fw), []

        @reg('rebase_displacement', True)
        def _(rng, o):
            return 'rebase_displacement()', lambda: o.rebase_displacement(), []

        @reg('set_zero_residual_velocity', True)
        def _(rng, o):
            c = rng.integers(3)
            T = o.dt * o.npts
            tz = [None, (0.2 * T, 0.7 * T), (0.3 * T, None)][c]
            return 'set_zero_residual_velocity(%r)' % (tz,), lambda: o.set_zero_residual_velocity(timezone=tz), []

        @reg('set_zero_residual_displacement', True)
        def _(rng, o):
            tz = None if rng.random() < 0.8 else (0.1, 0.2)
            return 'set_zero_residual_displacement(%r)' % (tz,), \
                lambda: o.set_zero_residual_displacement(timezone=tz), []

        @reg('set_zero_residual_displacement_and_velocity', True)
        def _(rng, o):
            c = rng.integers(3)
            T = o.dt * o.npts
            tz = [None, (0.2 * T, 0.7 * T), (0.3 * T, None)][c]
            return 'set_zero_residual_displacement_and_velocity(%r)' % (tz,), \
                lambda: o.set_zero_residual_displacement_and_velocity(timezone=tz), []

        @reg('gen_disp_velo', True)
        def _(rng, o):
            c = rng.integers(3)
            if c == 0:
                return 'generate_displacement_and_velocity_series()', \
                    lambda: o.generate_displacement_and_velocity_series(), []
            tr = bool(c == 1)
            return 'generate_displacement_and_velocity_series(trap=%s)' % tr, \
                lambda: o.generate_displacement_and_velocity_series(trap=tr), []

        @reg('reset_all_motion_stats', True)
        def _(rng, o):
            return 'reset_all_motion_stats()', lambda: o.reset_all_motion_stats(), []

        @reg('stats', True)
        def _(rng, o):
            c = rng.integers(4)
            if c == 0:
                return 'generate_peak_values()', lambda: o.generate_peak_values(), []
            if c == 1:
                return 'generate_cumulative_stats()', lambda: o.generate_cumulative_stats(), []
            if c == 2:
                return 'generate_duration_stats()', lambda: o.generate_duration_stats(), []
            return 'generate_all_motion_stats()', lambda: o.generate_all_motion_stats(), []

        return ops

    SIG_OPS = op_list(False)
    ACC_OPS = op_list(True)
    histories = []
    import time as _time
    t_start = _time.time()

    def lap(what):
        if os.environ.get('EQUIV_TIMING'):
            sys.stderr.write('%s: %i histories after %.1f s\n' % (what, len(histories), _time.time() - t_start))

    # ------------------------------------------------------------------------------------ part A: exhaustive

    def fixed_mutators(is_acc):
        """(label, function(obj) -> (thunk, args)) with fixed arguments."""
        muts = []

        def add(label, f):
            muts.append((label, f))
        add('reset_values(same n)', lambda o: (lambda v: (lambda: o.reset_values(v), [v]))(np.cos(np.arange(o.npts) * 0.7)))
        add('reset_values(n=23)', lambda o: (lambda v: (lambda: o.reset_values(v), [v]))(np.sin(np.arange(23) * 0.9) * 2))
        add('reset_values(int list)', lambda o: (lambda v: (lambda: o.reset_values(v), [v]))([(3 * i) % 7 - 3 for i in range(o.npts)]))
        add('add_constant(0.5)', lambda o: (lambda: o.add_constant(0.5), []))
        add('add_constant(2)', lambda o: (lambda: o.add_constant(2), []))
        add('add_series', lambda o: (lambda v: (lambda: o.add_series(v), [v]))(np.sin(np.arange(o.npts) * 0.3)))
        add('add_series(bad)', lambda o: (lambda v: (lambda: o.add_series(v), [v]))(np.ones(o.npts + 1)))
        add('add_signal', lambda o: (lambda s: (lambda: o.add_signal(s), [s]))(eqsig.Signal(np.cos(np.arange(o.npts) * 1.3), o.dt)))
        add('butter_pass(band)', lambda o: (lambda: o.butter_pass((0.05 * 0.5 / o.dt, 0.6 * 0.5 / o.dt)), []))
        add('butter_pass(low,gibbs)', lambda o: (lambda: o.butter_pass((None, 0.4 * 0.5 / o.dt), remove_gibbs='mid', filter_order=2), []))
        add('butter_pass(bad)', lambda o: (lambda: o.butter_pass(3.0), []))
        add('remove_average()', lambda o: (lambda: o.remove_average(), []))
        add('remove_poly(2)', lambda o: (lambda: o.remove_poly(2), []))
        add('running_average(3)', lambda o: (lambda: o.running_average(3), []))
        add('running_average(4)', lambda o: (lambda: o.running_average(4), []))
        add('running_average(1)', lambda o: (lambda: o.running_average(), []))
        add('clear_cache()', lambda o: (lambda: o.clear_cache(), []))

        def set_sf(o):
            def f():
                o.smooth_fa_freqs = [0.7, 1.5, 3.0, 6.0]
            return f, []
        add('smooth_fa_freqs=', set_sf)

        def set_sf2(o):
            def f():
                o.smooth_fa_frequencies = np.array([1, 2, 4])
            return f, []
        add('smooth_fa_frequencies=', set_sf2)
        add('set_smooth_by_range', lambda o: (lambda: o.set_smooth_fa_frequecies_by_range((0.5, 9.0), 5), []))

        def set_sfr(o):
            def f():
                o.smooth_freq_range = (0.4, 11.0)
            return f, []
        add('smooth_freq_range=', set_sfr)

        def set_sfp(o):
            def f():
                o.smooth_freq_points = 4
            return f, []
        add('smooth_freq_points=', set_sfp)
        add('gen_fa_spectrum(n=100)', lambda o: (lambda: o.gen_fa_spectrum(n=100), []))
        add('gen_fa_spectrum(p2_plus=1)', lambda o: (lambda: o.gen_fa_spectrum(p2_plus=1), []))
        add('gen_smooth_fa_spectrum(fr,20)', lambda o: (lambda: o.gen_smooth_fa_spectrum(np.array([0.8, 2.0, 5.0]), band=20), []))
        if is_acc:
            def set_rt(o):
                def f():
                    o.response_times = np.array([0.15, 0.6, 1.2])
                return f, []
            add('response_times=', set_rt)
            add('gen_response_spectrum(p,0.1)', lambda o: (lambda: o.gen_response_spectrum(response_times=[0.0, 0.25, 0.9], xi=0.1), []))
            add('generate_response_spectrum(min_dt_ratio=1)', lambda o: (lambda: o.generate_response_spectrum(min_dt_ratio=1), []))
            add('response_series(p)', lambda o: (lambda: o.response_series(response_times=np.array([0.3, 0.8])), []))
            add('correct_me()', lambda o: (lambda: o.correct_me(), []))
            add('remove_rolling_average(velocity)', lambda o: (lambda: o.remove_rolling_average(freq_window=0.999 / (5 * o.dt)), []))
            add('remove_rolling_average(acc)', lambda o: (lambda: o.remove_rolling_average(mtype='acc', freq_window=0.999 / (4 * o.dt)), []))
            add('remove_rolling_average(too high)', lambda o: (lambda: o.remove_rolling_average(freq_window=10.0 / o.dt), []))
            add('rebase_displacement()', lambda o: (lambda: o.rebase_displacement(), []))
            add('set_zero_residual_velocity()', lambda o: (lambda: o.set_zero_residual_velocity(), []))
            add('set_zero_residual_velocity(tz)', lambda o: (lambda: o.set_zero_residual_velocity((0.1 * o.dt * o.npts, None)), []))
            add('set_zero_residual_displacement()', lambda o: (lambda: o.set_zero_residual_displacement(), []))
            add('set_zero_residual_displacement_and_velocity()', lambda o: (lambda: o.set_zero_residual_displacement_and_velocity(), []))
            add('set_zero_residual_displacement_and_velocity(tz)', lambda o: (lambda: o.set_zero_residual_displacement_and_velocity((0.2 * o.dt * o.npts, 0.8 * o.dt * o.npts)), []))
            add('generate_displacement_and_velocity_series(trap=False)', lambda o: (lambda: o.generate_displacement_and_velocity_series(trap=False), []))
            add('reset_all_motion_stats()', lambda o: (lambda: o.reset_all_motion_stats(), []))
            add('generate_cumulative_stats()', lambda o: (lambda: o.generate_cumulative_stats(), []))
        return muts

    n0 = 30
    base_float = np.sin(np.arange(n0) * 0.45) * np.exp(-np.arange(n0) / 20.0) + 0.05
    base_int = np.array([((7 * i * i) % 23) - 11 for i in range(n0)], dtype=np.int64)
    ACC_GROUPS = ['fa_spectrum', 'smooth_fa_spectrum', 's_a', 'velocity', 'pga', 'pgv', 'pgd']
    SIG_GROUPS = ['fa_freqs', 'smooth_fa_spectrum']
    for is_acc, groups, reads in ((True, ACC_GROUPS, ACC_READS), (False, SIG_GROUPS, SIG_READS)):
        muts = fixed_mutators(is_acc)
        for bname, base in (('float', base_float), ('int', base_int)):
            for mask in range(2 ** len(groups)):
                pre = [g for k, g in enumerate(groups) if mask >> k & 1]
                # integer typed base: a sample of the masks only for the AccSignal (keeps the run time down)
                if is_acc and bname == 'int' and mask % 8 != 0 and mask not in (1, 2, 4, 127):
                    continue
                for mlabel, mk in muts:
                    h = History('A:%s:%s:pre=%s:%s' % ('acc' if is_acc else 'sig', bname, '+'.join(pre), mlabel))
                    if is_acc:
                        h.construct('acc', lambda: eqsig.AccSignal(base, 0.01, response_times=np.array([0.2, 0.45, 1.0]),
                                                                    smooth_fa_freqs=np.array([0.5, 1.0, 3.0, 8.0, 20.0])), [base])
                    else:
                        h.construct('sig', lambda: eqsig.Signal(base, 0.01, smooth_fa_freqs=np.array([0.5, 1.0, 3.0, 8.0, 20.0])), [base])
                    for g in pre:
                        h.read(g)
                    thunk, args = mk(h.obj)
                    h.op(mlabel, thunk, args)
                    h.snapshot(reads, twice=(mask % 8 == 0))
                    histories.append(h.export())

    lap('A')
    # -------------------------------------------------------------------------------------- part B: targeted

    rng = np.random.default_rng(20240604)
    widths = [1, 2, 3, 4, 5, 6, 7, 8, 9, 10, 11, 0, -1, -3, -4, 2.5, 3.0, 3.9, 4.5, 0.5, 1e3, 37, 38, 39, 40, 41, 79, 80,
              81, np.int64(5), np.float64(6.0), float('inf'), float('nan'), None, 'a']
    for n in (0, 1, 2, 3, 4, 5, 6, 9, 10, 20, 40):
        for kind in ('float', 'int', 'f32', 'ilist'):
            for w in widths:
                if kind in ('f32', 'ilist') and n not in (0, 5, 20):
                    continue
                for cls in ('sig', 'acc'):
                    if cls == 'sig' and kind != 'float' and n not in (0, 4, 9):
                        continue
                    h = History('B:running_average:%s:n=%i:%s:w=%r' % (cls, n, kind, w))
                    if not make_obj_fixed(h, eqsig, np, rng, cls, n, kind, gen_values):
                        histories.append(h.export())
                        continue
                    for g in (['values', 'fa_spectrum', 'smooth_fa_spectrum'] if (n + len(kind)) % 2 else ['values']):
                        h.read(g)
                    if cls == 'acc' and n % 3 == 0:
                        for g in ('velocity', 'pga', 'pgd', 's_a'):
                            h.read(g)
                    h.op('running_average(%r)' % (w,), lambda: h.obj.running_average(width=w))
                    h.snapshot(ACC_READS if cls == 'acc' else SIG_READS, twice=False)
                    h.op('running_average(%r) again' % (w,), lambda: h.obj.running_average(w))
                    h.snapshot(['values', 'fa_spectrum', 'npts'], twice=False)
                    histories.append(h.export())

    for n in (1, 2, 3, 4, 5, 6, 9, 10, 11, 20, 33, 50):
        for kind in ('float', 'int', 'f32', 'trend', 'i32'):
            for mt in ('velocity', 'acc'):
                for w in (1, 2, 3, 4, 5, 6, 7, 8, 9, 10, 11, 12, 19, 20, 21, 49, 50, 51, 99, 100, 101, 500, 0):
                    if kind in ('f32', 'trend', 'i32') and (w % 3 != 1 or n not in (5, 20, 33)):
                        continue
                    dt = [0.01, 0.02, 1, 0.005, np.float64(0.02)][(n + w) % 5]
                    h = History('B:remove_rolling_average:n=%i:%s:%s:w=%i:dt=%r' % (n, kind, mt, w, dt))
                    _, v = gen_values(rng, n, kind)
                    h.construct('acc', lambda: eqsig.AccSignal(v, dt, response_times=[0.2, 0.9]), [v])
                    pre = [['values'], ['velocity', 'values'], ['pgv', 'pga', 'fa_spectrum'], [], ['displacement', 's_d', 'smooth_fa_spectrum', 'pgd']][(n + w) % 5]
                    for g in pre:
                        h.read(g)
                    fw = (0.999 / (w * dt)) if w else 7.0 / dt
                    h.op('remove_rolling_average(%s,%r)' % (mt, fw), lambda: h.obj.remove_rolling_average(mtype=mt, freq_window=fw))
                    h.snapshot(ACC_READS, twice=False)
                    if w % 2:
                        h.op('remove_rolling_average(%s,%r) again' % (mt, fw), lambda: h.obj.remove_rolling_average(mt, fw))
                        h.op('rebase_displacement()', lambda: h.obj.rebase_displacement())
                        h.snapshot(['values', 'velocity', 'pgv', 'pgd', 'displacement', 'pga'], twice=False)
                    histories.append(h.export())

    for n in (1, 2, 3, 8, 21, 64):
        for kind in ('float', 'int', 'f32', 'trend', 'ilist', 'zeros'):
            for dt in (0.01, 1, 0.5):
                for pre in ([], ['values'], ['displacement'], ['pgd', 'pgv', 'pga', 's_a', 'fa_spectrum', 'smooth_fa_spectrum'],
                            ['velocity', 'values', 'time']):
                    h = History('B:rebase:n=%i:%s:dt=%r:pre=%s' % (n, kind, dt, '+'.join(pre)))
                    _, v = gen_values(rng, n, kind)
                    h.construct('acc', lambda: eqsig.AccSignal(v, dt, response_times=(0.3, 0.6, 1.1)), [v])
                    for g in pre:
                        h.read(g)
                    h.op('rebase_displacement()', lambda: h.obj.rebase_displacement())
                    h.snapshot(ACC_READS, twice=False)
                    h.op('rebase_displacement() again', lambda: h.obj.rebase_displacement())
                    h.op('generate_displacement_and_velocity_series(False)', lambda: h.obj.generate_displacement_and_velocity_series(trap=False))
                    h.snapshot(['pgd', 'pgv', 'displacement', 'velocity', 'values'], twice=True)
                    histories.append(h.export())

    # deprecated motion statistics are zeroed by every mutator
    stat_muts = [('add_constant(1.5)', lambda o: o.add_constant(1.5)), ('clear_cache()', lambda o: o.clear_cache()),
                 ('reset_all_motion_stats()', lambda o: o.reset_all_motion_stats()), ('running_average(3)', lambda o: o.running_average(3)),
                 ('rebase_displacement()', lambda o: o.rebase_displacement()), ('reset_values', lambda o: o.reset_values([0.5, -1.0, 2.0])),
                 ('remove_rolling_average()', lambda o: o.remove_rolling_average(freq_window=0.999 / (3 * o.dt))),
                 ('remove_poly(1)', lambda o: o.remove_poly(1)), ('response_times=', lambda o: setattr(o, 'response_times', [0.3, 0.7]))]
    for kind in ('float', 'int', 'trend'):
        for n in (6, 30):
            for mlabel, mf in stat_muts:
                for which in range(4):
                    h = History('B:stats:%s:n=%i:%s:%i' % (kind, n, mlabel, which))
                    _, v = gen_values(rng, n, kind)
                    if kind != 'int':
                        v = v * 3.0
                    h.construct('acc', lambda: eqsig.AccSignal(v, 0.01, response_times=[0.25, 0.8]), [v])
                    if which in (0, 2):
                        h.op('generate_cumulative_stats()', lambda: h.obj.generate_cumulative_stats())
                    if which in (1, 2):
                        h.op('generate_duration_stats()', lambda: h.obj.generate_duration_stats())
                    if which == 3:
                        h.op('generate_all_motion_stats()', lambda: h.obj.generate_all_motion_stats())
                        for a in ACC_ATTRS[:10]:
                            setattr(h.obj, a, 7.25)   # public attributes, as a caller may set them
                    h.snapshot(['pga', 'pgv'], twice=False)
                    h.op(mlabel, lambda: mf(h.obj))
                    h.snapshot(ACC_READS, twice=False)
                    histories.append(h.export())

    # Fourier options and response-period forms
    for n in (1, 2, 3, 4, 5, 7, 8, 9, 15, 16, 17, 31, 33, 64, 100):
        for kind in ('float', 'int', 'ilist'):
            h = History('B:fourier:n=%i:%s' % (n, kind))
            _, v = gen_values(rng, n, kind)
            h.construct('sig', lambda: eqsig.Signal(v, 0.02, smooth_fa_freqs=[0.5, 2.0, 9.0]), [v])
            for args in ({}, {'p2_plus': 1}, {'p2_plus': 2}, {'n': n}, {'n': n + 1}, {'n': 2 * n + 1}, {'n': max(n - 1, 1)},
                         {'n': 1}, {'n': 0}, {'n': 8.0}, {'p2_plus': 0.5}, {'n': np.int64(12)}):
                h.op('gen_fa_spectrum(%r)' % (args,), lambda: h.obj.gen_fa_spectrum(**args))
                for g in ('fa_spectrum', 'fa_freqs', 'fa_spectrum_abs', 'smooth_fa_spectrum'):
                    h.read(g)
                h.op('add_constant(1)', lambda: h.obj.add_constant(1))
                for g in ('fa_frequencies', 'fa_spectrum'):
                    h.read(g)
            histories.append(h.export())

    period_forms = [np.array([0.1, 0.5, 1.0]), [0.2, 1.0], (0.05, 0.4, 3.0), np.array([0.0, 0.3, 1.0]), [0, 1], np.array([1, 2, 3]),
                    np.array([0.5]), [0.0], [], np.linspace(0.01, 0.2, 4), 0.5, np.array([[0.2, 0.4], [0.6, 0.8]])]
    for k, p in enumerate(period_forms):
        for kind in ('float', 'int'):
            for via in ('ctor', 'setter', 'gen', 'series'):
                h = History('B:periods:%i:%s:%s' % (k, kind, via))
                _, v = gen_values(rng, 30, kind)
                if via == 'ctor':
                    h.construct('acc', lambda: eqsig.AccSignal(v, 0.01, response_times=p), [v, p])
                else:
                    h.construct('acc', lambda: eqsig.AccSignal(v, 0.01, response_period_range=(0.2, 1.0)), [v])
                if h.obj is None:
                    histories.append(h.export())
                    continue
                if k % 2:
                    h.read('s_a')
                if via == 'setter':
                    def f():
                        h.obj.response_times = p
                    h.op('response_times=', f, [p])
                elif via == 'gen':
                    h.op('gen_response_spectrum', lambda: h.obj.gen_response_spectrum(response_times=p, xi=0.03), [p])
                elif via == 'series':
                    h.op('response_series', lambda: h.obj.response_series(response_times=p), [p])
                h.snapshot(['response_times', 's_a', 's_v', 's_d', 'pga'], twice=True)
                h.op('add_constant(0.1)', lambda: h.obj.add_constant(0.1))
                h.snapshot(['s_d', 's_v', 's_a', 'response_times', 'pga', 'pgv'], twice=False)
                histories.append(h.export())

    lap('B')
    # ---------------------------------------------------------------------------------------- part C: random

    for k in range(N_RANDOM):
        rng = np.random.default_rng(1000 + k)
        h = History('C:%i' % k)
        if not make_obj(h, rng):
            histories.append(h.export())
            continue
        is_acc = isinstance(h.obj, eqsig.AccSignal)
        ops = ACC_OPS if is_acc else SIG_OPS
        names = sorted(ops)
        reads = ACC_READS if is_acc else SIG_READS
        # the mutators under study get a larger share
        weights = np.array([4.0 if nm in ('running_average', 'remove_rolling_average', 'rebase_displacement', 'reset_values',
                                          'add_constant', 'clear_cache', 'reset_all_motion_stats') else 1.0 for nm in names])
        weights /= weights.sum()
        n_steps = int(rng.integers(2, 14))
        for step in range(n_steps):
            if rng.random() < 0.45:
                m = int(rng.integers(1, 6))
                for j in rng.choice(len(reads), size=m, replace=False):
                    h.read(reads[int(j)])
            else:
                nm = names[int(rng.choice(len(names), p=weights))]
                label, thunk, args = ops[nm](rng, h.obj)
                h.op(label, thunk, args)
        h.snapshot(reads, twice=True)
        histories.append(h.export())

    lap('C')
    with open(out_path, 'w') as f:
        json.dump(histories, f)
    return 0


def make_obj_fixed(h, eqsig, np, rng, cls, n, kind, gen_values):
    _, v = gen_values(rng, n, kind)
    if cls == 'acc':
        return h.construct('acc(n=%i,%s)' % (n, kind), lambda: eqsig.AccSignal(v, 0.01, response_times=np.array([0.2, 0.7, 1.5])), [v])
    return h.construct('sig(n=%i,%s)' % (n, kind), lambda: eqsig.Signal(v, 0.01, smooth_fa_freqs=[0.5, 2.0, 8.0, 16.0]), [v])


if __name__ == '__main__':
    if len(sys.argv) >= 4 and sys.argv[1] == '--worker':
        sys.exit(worker(sys.argv[2], sys.argv[3]))
    sys.exit(driver())

"""
Equivalence check for twin1 (C07): eqsig/fns/frequency.py, shared Konno-Ohmachi weight helper.

Run with twin1 applied, cwd = the worktree.  The ORIGINAL package is taken from git (HEAD) into a
temporary directory and imported side by side with the edited one.  Exit status 0 iff all comparisons match.
"""
import atexit
import io
import os
import shutil
import subprocess
import sys
import tarfile
import tempfile
import warnings

import numpy as np

WT = os.path.abspath(os.getcwd())


def _purge():
    for name in [m for m in sys.modules if m == 'eqsig' or m.startswith('eqsig.')]:
        del sys.modules[name]


def _load(root):
    """Import the eqsig package found under `root` and hand back its modules (removed from sys.modules again)."""
    _purge()
    sys.path.insert(0, root)
    try:
        import importlib
        pkg = importlib.import_module('eqsig')
        assert os.path.abspath(pkg.__file__).startswith(root + os.sep), (pkg.__file__, root)
        mods = {'eqsig': pkg}
        for sub in ('eqsig.fns.frequency', 'eqsig.single', 'eqsig.im'):
            mods[sub] = importlib.import_module(sub)
    finally:
        sys.path.remove(root)
        _purge()
    return mods


def load_both():
    tmp = tempfile.mkdtemp(prefix='c07_orig_', dir='/tmp')
    atexit.register(shutil.rmtree, tmp, True)
    blob = subprocess.check_output(['git', 'archive', 'HEAD', 'eqsig'], cwd=WT)
    tarfile.open(fileobj=io.BytesIO(blob)).extractall(tmp)
    new = _load(WT)
    old = _load(os.path.realpath(tmp))
    assert new['eqsig.fns.frequency'].__file__ != old['eqsig.fns.frequency'].__file__
    return old, new


N_CHECKS = [0]


def outcome(fn, *args, **kwargs):
    with warnings.catch_warnings():
        warnings.simplefilter('ignore')
        with np.errstate(all='ignore'):
            try:
                return 'ok', fn(*args, **kwargs)
            except Exception as exc:  # noqa
                return 'err', (type(exc).__name__, str(exc))


def same_value(a, b, where):
    if isinstance(a, tuple) or isinstance(b, tuple):
        assert type(a) is type(b) and len(a) == len(b), where
        for x, y in zip(a, b):
            same_value(x, y, where)
        return
    assert type(a) is type(b), (where, type(a), type(b))
    if isinstance(a, np.ndarray) or isinstance(a, np.generic):
        assert a.dtype == b.dtype, (where, a.dtype, b.dtype)
        assert np.shape(a) == np.shape(b), (where, np.shape(a), np.shape(b))
        if a.dtype.kind in 'fc':
            assert np.array_equal(a, b, equal_nan=True), (where, a, b)
        else:
            assert np.array_equal(a, b), (where, a, b)
    else:
        assert a == b, (where, a, b)


def compare(old_fn, new_fn, make_args, where):
    """make_args() -> (args, kwargs); called twice so that each side gets private copies"""
    args_o, kw_o = make_args()
    args_n, kw_n = make_args()
    keep_o, _ = make_args()
    res_o = outcome(old_fn, *args_o, **kw_o)
    res_n = outcome(new_fn, *args_n, **kw_n)
    assert res_o[0] == res_n[0], (where, res_o, res_n)
    if res_o[0] == 'err':
        assert res_o[1] == res_n[1], (where, res_o, res_n)
    else:
        same_value(res_o[1], res_n[1], where)
    # identical (non-)mutation of the arguments
    for x_o, x_n, x_k in zip(args_o, args_n, keep_o):
        if isinstance(x_k, np.ndarray):
            same_value(x_o, x_n, where + ' [arg]')
            same_value(x_o, x_k, where + ' [arg untouched]')
        elif isinstance(x_k, list):
            assert x_o == x_n == x_k, where
    N_CHECKS[0] += 1
    return res_o


def freq_grids(rng):
    grids = []
    for n in (1, 2, 3, 5, 16, 64, 257):
        df = rng.uniform(0.01, 1.0)
        grids.append(np.arange(n) * df)  # with the zero-frequency bin
        grids.append(np.arange(1, n + 1) * df)  # without it
        grids.append(np.sort(rng.uniform(0.05, 40.0, n)))  # irregular
    grids.append(np.arange(8, dtype=np.int64))  # integer dtype, zero first
    grids.append(np.arange(1, 9, dtype=np.int64))
    grids.append(np.arange(1, 9, dtype=np.float32) * np.float32(0.25))
    grids.append(np.array([0.0]))
    grids.append(np.array([]))
    return grids


def spectra(rng, n):
    yield rng.standard_normal(n) + 1j * rng.standard_normal(n)
    yield rng.standard_normal(n)
    yield np.abs(rng.standard_normal(n))
    yield rng.integers(-5, 6, n)
    yield np.zeros(n)
    yield np.ones(n) * 3.5
    yield (rng.standard_normal(n) * 1e150)
    yield (rng.standard_normal(n) * 1e-200)
    yield rng.standard_normal(n).astype(np.float32)


def targets(rng, grid):
    yield None
    pos = grid[grid > 0] if len(grid) else grid
    if len(pos):
        yield pos.copy()  # exactly on the grid
        yield pos[::2].copy()
        yield np.array([pos[0]])
        lo, hi = float(pos[0]), float(pos[-1])
        yield np.logspace(np.log10(lo), np.log10(hi) + 1e-9, 7)  # inside
        yield np.array([lo / 50.0, lo / 2.0, hi * 2.0, hi * 300.0])  # outside
        mix = np.concatenate([pos[:3], rng.uniform(lo, hi + 1e-6, 4), [hi * 1.5]])
        yield mix  # unsorted mixture of on-grid / off-grid points
        yield np.array([float(pos[len(pos) // 2])] * 3)  # repeated
        yield np.array([1, 2, 5], dtype=np.int64)
    yield np.logspace(-1, np.log10(30), 50)
    yield np.array([0.0, 1.0])  # zero target: non-finite column, still has to agree
    yield np.array([])
    yield [0.5, 1.0, 2.0]  # list: same failure on both sides
    yield 1.0


def main():
    old, new = load_both()
    fo, fn = old['eqsig.fns.frequency'], new['eqsig.fns.frequency']
    rng = np.random.default_rng(7)
    bands = [5, 40, 100, 12.5, 99.999, np.float64(20), np.int64(33), 1, 250]

    for grid in freq_grids(rng):
        n = len(grid)
        for i_s, spec in enumerate(spectra(rng, n)):
            for i_t, targ in enumerate(targets(rng, grid)):
                for band in (bands if (i_s < 2 and i_t < 6) else bands[:2]):
                    where = 'n=%d dtype=%s spec#%d targ#%d band=%r' % (n, grid.dtype, i_s, i_t, band)

                    def mk(grid=grid, spec=spec, targ=targ, band=band):
                        t = targ.copy() if isinstance(targ, np.ndarray) else (list(targ) if isinstance(targ, list) else targ)
                        return (grid.copy(), spec.copy(), t), {'band': band}

                    r = compare(fo.calc_smooth_fa_spectrum, fn.calc_smooth_fa_spectrum, mk, 'smooth ' + where)

                    def mk_dep(grid=grid, spec=spec, targ=targ, band=band):
                        t = targ.copy() if isinstance(targ, np.ndarray) else (list(targ) if isinstance(targ, list) else targ)
                        return (t, grid.copy(), spec.copy()), {'band': band}

                    compare(fo.generate_smooth_fa_spectrum, fn.generate_smooth_fa_spectrum, mk_dep, 'deprecated ' + where)

                    if i_s == 0:
                        def mk_m(grid=grid, targ=targ, band=band):
                            t = targ.copy() if isinstance(targ, np.ndarray) else (list(targ) if isinstance(targ, list) else targ)
                            return (grid.copy(), t), {'band': band}

                        m = compare(fo.calc_smoothing_matrix_konno_1998, fn.calc_smoothing_matrix_konno_1998, mk_m,
                                    'matrix ' + where)
                        # the new direct form against the ORIGINAL matrix form (same relation as before the edit)
                        if m[0] == 'ok' and r[0] == 'ok' and isinstance(m[1], np.ndarray):
                            sp = spec[1:] if grid[0] == 0 else spec
                            a = outcome(np.dot, abs(sp), m[1])
                            if a[0] == 'ok' and np.all(np.isfinite(a[1])) and np.all(np.isfinite(r[1])):
                                assert np.allclose(a[1], r[1], rtol=1e-10, atol=0), where
        # default arguments / positional band / keyword calling
        if n:
            spec = rng.standard_normal(n) + 1j * rng.standard_normal(n)
            compare(fo.calc_smooth_fa_spectrum, fn.calc_smooth_fa_spectrum,
                    lambda grid=grid, spec=spec: ((grid.copy(), spec.copy()), {}), 'defaults n=%d' % n)
            compare(fo.calc_smooth_fa_spectrum, fn.calc_smooth_fa_spectrum,
                    lambda grid=grid, spec=spec: ((grid.copy(), spec.copy(), np.array([0.3, 1.0, 7.0]), 25), {}),
                    'positional n=%d' % n)
            compare(fo.calc_smooth_fa_spectrum, fn.calc_smooth_fa_spectrum,
                    lambda grid=grid, spec=spec: ((), {'fa_spectrum': spec.copy(), 'fa_frequencies': grid.copy(),
                                                       'smooth_fa_frequencies': np.array([0.3, 1.0, 7.0]), 'band': 60}),
                    'keywords n=%d' % n)
            compare(fo.calc_smoothing_matrix_konno_1998, fn.calc_smoothing_matrix_konno_1998,
                    lambda grid=grid: ((grid.copy(),), {}), 'matrix defaults n=%d' % n)
            compare(fo.calc_smoothing_matrix_konno_1998, fn.calc_smoothing_matrix_konno_1998,
                    lambda grid=grid: ((grid.copy(), np.array([0.3, 1.0, 7.0]), 25), {}), 'matrix positional n=%d' % n)
        # list inputs for the Fourier arrays
        compare(fo.calc_smooth_fa_spectrum, fn.calc_smooth_fa_spectrum,
                lambda grid=grid: ((list(grid), list(np.ones(len(grid))), np.array([1.0])), {}), 'lists n=%d' % n)
        compare(fo.calc_smoothing_matrix_konno_1998, fn.calc_smoothing_matrix_konno_1998,
                lambda grid=grid: ((list(grid), np.array([1.0])), {}), 'matrix lists n=%d' % n)

    # result never aliases an input and a fresh array is returned each time
    g = np.arange(1, 20) * 0.5
    w1 = fn.calc_smoothing_matrix_konno_1998(g)
    w2 = fn.calc_smoothing_matrix_konno_1998(g)
    assert w1 is not w2 and not np.shares_memory(w1, g) and w1.flags.writeable

    # through the Signal object (edited frequency module is what edited Signal uses)
    for cls_name in ('Signal', 'AccSignal'):
        for npts in (4, 9, 100, 1000):
            vals = rng.standard_normal(npts)
            for dt in (0.005, 0.01, 0.1):
                so = getattr(old['eqsig.single'], cls_name)(vals.copy(), dt)
                sn = getattr(new['eqsig.single'], cls_name)(vals.copy(), dt)
                steps = [
                    lambda s: s.smooth_fa_spectrum,
                    lambda s: s.gen_smooth_fa_spectrum(band=17),
                    lambda s: s.smooth_fa_spectrum,
                    lambda s: s.gen_smooth_fa_spectrum(smooth_fa_freqs=s.fa_frequencies[1:], band=40),
                    lambda s: s.smooth_fa_spectrum,
                    lambda s: setattr(s, 'smooth_fa_frequencies', [0.2, 0.5, 1, 2, 4]),
                    lambda s: s.smooth_fa_spectrum,
                    lambda s: s.reset_values(s.values * 2.0),
                    lambda s: s.smooth_fa_spectrum,
                    lambda s: s.set_smooth_fa_frequecies_by_range((0.2, 20), 30),
                    lambda s: s.smooth_fa_spectrum,
                ]
                mo, mn = old['eqsig.fns.frequency'], new['eqsig.fns.frequency']
                for k, step in enumerate(steps):
                    ro, rn = outcome(step, so), outcome(step, sn)
                    where = '%s npts=%d dt=%g step=%d' % (cls_name, npts, dt, k)
                    assert ro[0] == rn[0], (where, ro, rn)
                    if ro[0] == 'ok':
                        if ro[1] is not None:
                            same_value(ro[1], rn[1], where)
                    else:
                        assert ro[1] == rn[1], (where, ro, rn)
                    for attr in ('_smooth_fa_spectrum', '_smooth_fa_freqs', '_cached_smooth_fa', '_cached_fa',
                                 '_fa_spectrum', '_fa_freqs'):
                        same_value(getattr(so, attr), getattr(sn, attr), where + ' ' + attr)
                    N_CHECKS[0] += 1
                same_value(outcome(mo.calc_smooth_fa_spectrum_w_custom_matrix, so,
                                   mo.calc_smoothing_matrix_konno_1998(so.fa_frequencies, so.smooth_fa_frequencies))[1],
                           outcome(mn.calc_smooth_fa_spectrum_w_custom_matrix, sn,
                                   mn.calc_smoothing_matrix_konno_1998(sn.fa_frequencies, sn.smooth_fa_frequencies))[1],
                           'custom matrix')
                same_value(outcome(old['eqsig.im'].calc_bandwidth_freqs, so), outcome(new['eqsig.im'].calc_bandwidth_freqs, sn),
                           'bandwidth')
                same_value(outcome(mo.get_sig_freq_range, so), outcome(mn.get_sig_freq_range, sn), 'sig freq range')

    print('equiv1: %d comparisons identical' % N_CHECKS[0])
    return 0


if __name__ == '__main__':
    sys.exit(main())

"""Equivalence program: original (git HEAD) eqsig.loader vs the edited working tree.

Run with cwd = the worktree:
    PYTHONPATH=$PWD python out/equivK.py

The ORIGINAL package is extracted from git (``git archive HEAD eqsig``) into a
temporary directory.  The same deterministic driver is then executed in two
separate subprocesses (one importing the original package, one importing the
edited package from os.getcwd()), each inside its own scratch directory and
using relative file names only, so that every observable (file bytes, returned
values, object state, warnings, exception types and messages) can be compared
literally.  Exit status 0 iff all records are identical.
"""
import io
import json
import os
import subprocess
import sys
import tarfile
import tempfile

DRIVER = r'''
import hashlib, json, os, sys, warnings, pathlib
import numpy as np
import eqsig
from eqsig import loader

OUT = []


def h(b):
    return hashlib.sha1(b).hexdigest()[:16]


def desc(x, depth=0):
    """A literal description of any returned object."""
    if x is None or isinstance(x, (bool, str)):
        return repr(x)
    if isinstance(x, (int, float)) and not isinstance(x, np.generic):
        return "%s:%r" % (type(x).__name__, x)
    if isinstance(x, np.generic):
        return "%s:%r:%s" % (type(x).__name__, x.item(), h(x.tobytes()))
    if isinstance(x, np.ndarray):
        return "nd:%s:%s:%s:%s:%s" % (x.dtype.str, x.shape, h(np.ascontiguousarray(x).tobytes()),
                                   x.flags['C_CONTIGUOUS'], x.flags['WRITEABLE'])
    if isinstance(x, (tuple, list)):
        return type(x).__name__ + "(" + ",".join(desc(v, depth + 1) for v in x) + ")"
    if isinstance(x, eqsig.Signal):
        parts = [type(x).__name__, desc(x.values), desc(x.dt), desc(x.label), desc(x.npts),
                 desc(x.smooth_fa_freqs), desc(x.verbose), desc(x.ccbox)]
        if isinstance(x, eqsig.AccSignal):
            parts.append(desc(x.response_times))
            parts.append(desc(x._cached_xi))
        try:
            parts.append(desc(x.time))
        except Exception as e:
            parts.append("timeerr:" + type(e).__name__)
        return "|".join(parts)
    return "obj:%s:%r" % (type(x).__name__, x)


def call(tag, fn, *a, **k):
    with warnings.catch_warnings(record=True) as w:
        warnings.simplefilter("always")
        try:
            r = ("ok", desc(fn(*a, **k)))
        except BaseException as e:
            r = ("exc", type(e).__name__, str(e))
    ws = [(x.category.__name__, str(x.message)) for x in w]
    OUT.append([tag, r, ws])
    return r


def fbytes(p):
    try:
        with open(p, "rb") as f:
            return h(f.read())
    except Exception as e:
        return "nofile:" + type(e).__name__


def snapshot(v):
    if isinstance(v, np.ndarray):
        return desc(v)
    try:
        return repr(v)
    except Exception:
        return "?"


ASTYPES = ["sig", "signal", "acc_sig", "asig", "", None, "Sig", 0]
MS = [1.0, 2, -0.5, 9.81, np.float32(0.1), 0, True, 1e-3, np.array(2.0)]
LLS = [True, False, 1, 0, "", "x", None, [], [0]]


def load_all(tag, fp, rng, full=False):
    call(tag + ":lvd", loader.load_values_and_dt, fp)
    call(tag + ":lvd_top", eqsig.load_values_and_dt, fp)
    ats = ASTYPES if full else [ASTYPES[i] for i in rng.choice(len(ASTYPES), 3, replace=False)]
    call(tag + ":lsignal_default", loader.load_signal, fp)
    for at in ats:
        call(tag + ":lsignal:%r" % (at,), loader.load_signal, fp, astype=at)
    call(tag + ":lsig_default", loader.load_sig, fp)
    call(tag + ":lasig_default", loader.load_asig, fp)
    ms = MS if full else [MS[i] for i in rng.choice(len(MS), 2, replace=False)]
    lls = LLS if full else [LLS[i] for i in rng.choice(len(LLS), 3, replace=False)]
    for m in ms:
        call(tag + ":lsig:m=%r" % (m,), loader.load_sig, fp, m=m)
        call(tag + ":lsig:posm=%r" % (m,), loader.load_sig, fp, m)
        for ll in lls:
            call(tag + ":lasig:%r:%r" % (ll, m), loader.load_asig, fp, load_label=ll, m=m)
    for ll in lls:
        call(tag + ":lasig:%r" % (ll,), loader.load_asig, fp, ll)


def make_values(rng, i):
    n = int(rng.choice([0, 1, 2, 3, 4, 5, 7, 10, 16, 33, 100, 257, 1000],
                       p=[.03, .05, .08, .08, .08, .08, .1, .1, .1, .1, .1, .05, .05]))
    kind = i % 12
    mag = 10.0 ** rng.integers(-8, 9)
    if kind == 0:
        v = rng.standard_normal(n) * mag
    elif kind == 1:
        v = (rng.standard_normal(n) * mag).tolist()
    elif kind == 2:
        v = tuple((rng.standard_normal(n) * mag).tolist())
    elif kind == 3:
        v = rng.integers(-1000, 1000, n)
    elif kind == 4:
        v = [int(x) for x in rng.integers(-5, 5, n)]
    elif kind == 5:
        v = (rng.standard_normal(n) * mag).astype(np.float32)
    elif kind == 6:
        v = np.zeros(n)
        if n:
            v[rng.integers(0, n)] = -0.0
    elif kind == 7:
        v = rng.standard_normal(n) * mag
        if n:
            v[rng.integers(0, n)] = [np.nan, np.inf, -np.inf, 1e300, -1e-300, 5e-7, -5e-7, 0.5e-6][i // 12 % 8]
    elif kind == 8:
        v = rng.integers(0, 2, n).astype(bool)
    elif kind == 9:
        v = np.abs(rng.standard_normal(n)) * mag * (-1 if i % 2 else 1)
    elif kind == 10:
        v = (rng.standard_normal(2 * n) * mag)[::2]      # non-contiguous view
    else:
        v = np.round(rng.standard_normal(n) * mag, int(rng.integers(0, 8)))
    return v


def make_dt(rng, i):
    k = i % 10
    if k == 0:
        return float(rng.choice([0.0001, 0.001, 0.005, 0.01, 0.02, 0.025, 0.05, 0.1, 0.5, 1.0, 2.0, 10.0, 100.0]))
    if k == 1:
        return float(10 ** rng.uniform(-4, 2))
    if k == 2:
        return int(rng.integers(1, 101))
    if k == 3:
        return float(rng.uniform(1, 100))
    if k == 4:
        return np.float32(10 ** rng.uniform(-4, 2))
    if k == 5:
        return np.float64(round(10 ** rng.uniform(-4, 2), 4))
    if k == 6:
        return float(rng.choice([0.00005, 0.00004, 0.99995, 1.00005, 99.99995, 1e-5, 0.0, -0.01, 12345.678]))
    if k == 7:
        return round(float(rng.uniform(0.0001, 1)), 4)
    if k == 8:
        return np.int64(rng.integers(1, 50))
    return float(rng.uniform(0.0001, 0.01))


LABELS = ["m1", "a label with spaces", "", "  padded  ", "ChiChi 1999 - TCU052 NS", "0.5 7",
          "unicode é中", "tab\tsep", "#comment like", "1,2,3", "label, with comma",
          "form\x0cfeed", "vt\x0bx", "cr\rx", "nl\nx", "nel\x85x", "ls x", "\n", "3 0.02", "fs\x1cx"]


def roundtrips(rng):
    for i in range(1400):
        tag = "rt%d" % i
        v = make_values(rng, i)
        dt = make_dt(rng, i // 12 + i)
        label = LABELS[int(rng.integers(0, len(LABELS)))] if i % 3 else "rec %d run" % i
        fp = "rt.txt" if i % 2 else os.path.join("sub", "rt_%d.txt" % (i % 7))
        before = snapshot(v)
        call(tag + ":save", loader.save_values_and_dt, fp, v, dt, label)
        OUT.append([tag + ":argsame", before == snapshot(v), fbytes(fp)])
        load_all(tag, fp, rng, full=(i % 100 == 0))
        if i % 5 == 0:
            # the object-level path and a history of operations
            for cls in (eqsig.Signal, eqsig.AccSignal):
                r = call(tag + ":mk" + cls.__name__, cls, v, dt, label=label)
                if r[0] != "ok":
                    continue
                s = cls(v, dt, label=label)
                call(tag + ":save_signal", loader.save_signal, "obj.txt", s)
                OUT.append([tag + ":objfile", fbytes("obj.txt"), desc(s)])
                load_all(tag + ":obj", "obj.txt", rng)
                r = call(tag + ":reload", loader.load_asig, "obj.txt", load_label=True, m=2.0)
                if r[0] == "ok":
                    s2 = loader.load_asig("obj.txt", load_label=True, m=2.0)
                    call(tag + ":resave", eqsig.save_signal, "obj2.txt", s2)
                    OUT.append([tag + ":obj2file", fbytes("obj2.txt")])
                    call(tag + ":reload2", eqsig.load_signal, "obj2.txt", astype="acc_sig")
                    try:
                        s2.reset_values(s2.values[::-1] * 0.5)
                        s2.label = "changed " + str(s2.label)
                        call(tag + ":resave2", eqsig.save_signal, "obj2.txt", s2)
                        OUT.append([tag + ":obj2file_b", fbytes("obj2.txt")])
                        load_all(tag + ":obj2", "obj2.txt", rng)
                    except Exception as e:
                        OUT.append([tag + ":hist_exc", type(e).__name__, str(e)])


class Dummy(object):
    pass


class Seq(object):
    """len / getitem only, not iterable in the usual way."""
    def __init__(self, d):
        self.d = d
        self.log = []

    def __len__(self):
        self.log.append("len")
        return len(self.d)

    def __getitem__(self, i):
        self.log.append(i)
        return self.d[i]


def bad_saves(rng):
    cases = [
        ("none_label", [1.0, 2.0, 3.0], 0.01, None),
        ("int_label", [1.0, 2.0, 3.0], 0.01, 5),
        ("bytes_label", [1.0, 2.0, 3.0], 0.01, b"abc"),
        ("str_dt", [1.0, 2.0, 3.0], "0.01", "x"),
        ("none_dt", [1.0, 2.0, 3.0], None, "x"),
        ("arr_dt", [1.0, 2.0, 3.0], np.array([0.01]), "x"),
        ("arr2_dt", [1.0, 2.0, 3.0], np.array([0.01, 0.02]), "x"),
        ("complex_dt", [1.0, 2.0, 3.0], 1j, "x"),
        ("str_value_last", [1.0, 2.0, "3.0"], 0.01, "x"),
        ("str_value_first", ["1.0", 2.0, 3.0], 0.01, "x"),
        ("none_value", [1.0, None, 3.0], 0.01, "x"),
        ("complex_value", [1.0, 2j, 3.0], 0.01, "x"),
        ("complex_arr", np.array([1.0, 2j, 3.0]), 0.01, "x"),
        ("scalar_values", 3.0, 0.01, "x"),
        ("none_values", None, 0.01, "x"),
        ("zero_d", np.array(3.0), 0.01, "x"),
        ("two_d_col", np.arange(4.0).reshape(4, 1), 0.01, "x"),
        ("two_d", np.arange(6.0).reshape(3, 2), 0.01, "x"),
        ("two_d_row", np.arange(4.0).reshape(1, 4), 0.01, "x"),
        ("nested_list", [[1.0], [2.0]], 0.01, "x"),
        ("str_values", "123", 0.01, "x"),
        ("dict_values", {0: 1.5, 1: 2.5}, 0.01, "x"),
        ("dict_badkeys", {"a": 1.5, 1: 2.5}, 0.01, "x"),
        ("range_values", range(5), 0.5, "x"),
        ("obj_arr", np.array([1, 2.5, None], dtype=object), 0.01, "x"),
        ("obj_arr_ok", np.array([1, 2.5, True], dtype=object), 2, "x"),
        ("gen_values", (x for x in [1.0, 2.0]), 0.01, "x"),
        ("ok", [1.0, -2.0, 3.5], 0.01, "fine"),
    ]
    for name, v, dt, label in cases:
        for pre in (False, True):
            fp = "bad_%s_%d.txt" % (name, pre)
            if pre:
                with open(fp, "w") as f:
                    f.write("old label\n2 0.0200\n1.000000\n2.000000")
            tag = "bad:%s:%d" % (name, pre)
            call(tag + ":save", loader.save_values_and_dt, fp, v, dt, label)
            OUT.append([tag + ":file", fbytes(fp)])
            load_all(tag, fp, rng)
    # access pattern on a minimal sequence
    for d in ([1.0, 2.0, 3.0], [], [1.0, "x", 2.0]):
        s = Seq(d)
        call("seq:save", loader.save_values_and_dt, "seq.txt", s, 0.01, "seq")
        OUT.append(["seq:log", repr(s.log), fbytes("seq.txt")])
    # save_signal on odd objects
    d = Dummy()
    call("dummy0", loader.save_signal, "dummy.txt", d)
    d.values = [1.0, 2.0]
    call("dummy1", loader.save_signal, "dummy.txt", d)
    d.dt = 0.1
    call("dummy2", loader.save_signal, "dummy.txt", d)
    d.label = "dummy label"
    call("dummy3", loader.save_signal, "dummy.txt", d)
    OUT.append(["dummy:file", fbytes("dummy.txt")])
    call("none_sig", loader.save_signal, "dummy.txt", None)
    # unwritable / odd targets
    call("save_dir", loader.save_values_and_dt, "sub", [1.0], 0.1, "x")
    call("save_nodir", loader.save_values_and_dt, os.path.join("nodir", "a.txt"), [1.0], 0.1, "x")
    call("save_none", loader.save_values_and_dt, None, [1.0], 0.1, "x")
    call("save_path", loader.save_values_and_dt, pathlib.Path("pp.txt"), [1.0, 2.0, 4.0], 0.1, "x")
    OUT.append(["pp:file", fbytes("pp.txt")])
    load_all("pathobj", pathlib.Path("pp.txt"), rng, full=True)
    load_all("nofile", "does_not_exist.txt", rng, full=True)
    load_all("dir", "sub", rng)
    load_all("nonepath", None, rng)
    load_all("intpath", 12345, rng)


HAND = [
    "", "\n", "label", "label\n", "label\n3 0.01", "label\n3 0.01\n", "label\n3\n1.0\n2.0\n3.0",
    "label\n\n1.0\n2.0\n3.0", "label\n3 abc\n1.0\n2.0\n3.0", "label\n3 0.01 extra tokens\n1.0\n2.0\n3.0",
    "label\n   3    0.01   \n1.0\n2.0\n3.0", "label\n3\t0.01\n1.0\n2.0\n3.0", "label\r\n3 0.01\r\n1.0\r\n2.0\r\n3.0\r\n",
    "label\r3 0.01\r1.0\r2.0\r3.0", "label\n3 0.01\n1.0,5.0\n2.0,6.0\n3.0,7.0", "label\n3 0.01\n1.0 5.0\n2.0 6.0",
    "label\n3 0.01\n# c\n1.0\n2.0", "label\n3 0.01\n\n1.0\n\n2.0\n", "label\n3 0.01\n1.0\nabc\n3.0",
    "label\n3 0.01\n1.0\n2.0\n3.0\n\n\n", "la\x0cbel\n3 0.01\n1.0\n2.0\n3.0", "la\x0c7 0.5\n3 0.01\n1.0\n2.0\n3.0",
    "label\n3 0.01\x0c9 9\n1.0\n2.0\n3.0", "label\n3 1e-2\n1.0\n2.0\n3.0", "label\n3 nan\n1.0\n2.0\n3.0",
    "label\n3 inf\n1\n2\n3", "label\n3 1_0.0\n1\n2\n3", "label\n3 0.01\n1e3\n-2E-2\n+3", "label\n3, 0.01\n1\n2\n3",
    "label\n3 0.01,\n1\n2\n3", "\n3 0.01\n1\n2\n3", "   \n3 0.01\n1\n2\n3", "label\n3 0.01\n1.5", "label\n3 0.01\n1.5\n",
    "label\n0 0.01\n", "label\n0 0.01", "lébel 中\n2 12.5\n1\n2", "label\n3 ٣.5\n1\n2\n3",
    "label\n3 0.01\n1\n2,\n,3\n", "label\n3 0.01\nnan\ninf\n-inf", "a\x85b\n3 0.01\n1\n2\n3", "a b 0.25\n3 0.01\n1\n2\n3",
    "label\n 0.01\n1\n2\n3", "label\n3 0x10\n1\n2\n3", "label\n3 0.01\n1 \n 2\n3 ",
]


def hand_files(rng):
    for i, content in enumerate(HAND):
        fp = "hand_%d.txt" % i
        with open(fp, "w", encoding="utf-8", newline="") as f:
            f.write(content)
        load_all("hand%d" % i, fp, rng, full=True)
    with open("latin.txt", "wb") as f:
        f.write(b"l\xe9bel\n2 0.5\n1\n2\n")
    load_all("latin", "latin.txt", rng)
    with open("bin.txt", "wb") as f:
        f.write(bytes(range(256)) * 3)
    load_all("bin", "bin.txt", rng)
    shipped = os.path.join(os.environ["EQ_TESTDATA"], "test_motion_dt0p01.txt")
    # copy so that the path is relative (messages identical on both sides)
    with open(shipped, "rb") as f, open("shipped.txt", "wb") as g:
        g.write(f.read())
    load_all("shipped", "shipped.txt", rng, full=True)
    s = loader.load_signal("shipped.txt", astype="acc_sig")
    call("shipped:resave", loader.save_signal, "shipped2.txt", s)
    OUT.append(["shipped2", fbytes("shipped2.txt")])
    load_all("shipped2", "shipped2.txt", rng, full=True)


def api_shape():
    import inspect
    names = ["load_values_and_dt", "save_values_and_dt", "load_signal", "load_sig", "load_asig", "save_signal",
             "load_3_comp_values_and_dt_from_v2a"]
    for n in names:
        f = getattr(loader, n)
        OUT.append(["sig:" + n, str(inspect.signature(f)), f.__doc__, f.__name__, f.__module__])
    OUT.append(["public", sorted(x for x in dir(loader) if not x.startswith("_"))])
    OUT.append(["toplevel", [getattr(eqsig, n) is getattr(loader, n) for n in names[:6]]])
    with open(loader.__file__) as f:
        src = f.read()
    # the V2A reader is outside the property; its source must be untouched
    OUT.append(["v2a_src", h(inspect.getsource(loader.load_3_comp_values_and_dt_from_v2a).encode())])


def main():
    os.makedirs("sub", exist_ok=True)
    rng = np.random.default_rng(20160916)
    api_shape()
    roundtrips(rng)
    bad_saves(rng)
    hand_files(rng)
    leftovers = sorted(os.listdir("."))
    OUT.append(["listing", leftovers])
    with open(os.environ["EQ_RESULT"], "w") as f:
        json.dump({"file": os.path.dirname(os.path.abspath(eqsig.__file__)), "out": OUT}, f)


main()
'''


def start(side, pkg_root, work, testdata):
    scratch = os.path.join(work, "scratch_" + side)
    os.makedirs(scratch)
    drv = os.path.join(scratch, "driver_script.py")
    with open(drv, "w") as f:
        f.write(DRIVER)
    res = os.path.join(work, "result_%s.json" % side)
    env = dict(os.environ)
    env["PYTHONPATH"] = pkg_root
    env["PYTHONHASHSEED"] = "0"
    env["PYTHONDONTWRITEBYTECODE"] = "1"
    env["EQ_RESULT"] = res
    env["EQ_TESTDATA"] = testdata
    p = subprocess.Popen([sys.executable, "driver_script.py"], cwd=scratch, env=env,
                         stdout=subprocess.PIPE, stderr=subprocess.PIPE, universal_newlines=True)
    return side, p, res


def finish(job):
    side, p, res = job
    out, err = p.communicate()
    if p.returncode != 0:
        print("driver failed on side", side)
        print(out[-3000:])
        print(err[-3000:])
        sys.exit(2)
    with open(res) as f:
        return json.load(f), out


def main():
    cwd = os.getcwd()
    with tempfile.TemporaryDirectory() as work:
        orig_root = os.path.join(work, "orig")
        os.makedirs(orig_root)
        blob = subprocess.check_output(["git", "archive", "HEAD", "eqsig"], cwd=cwd)
        with tarfile.open(fileobj=io.BytesIO(blob)) as tf:
            tf.extractall(orig_root)
        testdata = os.path.join(cwd, "tests", "unit_test_data") + os.sep
        if not os.path.isdir(testdata):
            for root, dirs, files in os.walk(os.path.join(cwd, "tests")):
                if "test_motion_dt0p01.txt" in files:
                    testdata = root + os.sep
        job_a = start("orig", orig_root, work, testdata)     # the two sides run concurrently
        job_b = start("edit", cwd, work, testdata)
        a, out_a = finish(job_a)
        b, out_b = finish(job_b)
        assert os.path.realpath(a["file"]) == os.path.realpath(os.path.join(orig_root, "eqsig")), a["file"]
        assert os.path.realpath(b["file"]) == os.path.realpath(os.path.join(cwd, "eqsig")), b["file"]
        ra, rb = a["out"], b["out"]
        bad = 0
        if out_a != out_b:
            print("stdout differs")
            bad += 1
        if len(ra) != len(rb):
            print("different number of records: %d vs %d" % (len(ra), len(rb)))
            bad += 1
        for x, y in zip(ra, rb):
            if x != y:
                bad += 1
                if bad <= 15:
                    print("MISMATCH")
                    print("  orig:", json.dumps(x)[:600])
                    print("  edit:", json.dumps(y)[:600])
        n_exc = sum(1 for x in ra if len(x) == 3 and isinstance(x[1], list) and x[1] and x[1][0] == "exc")
        n_ok = sum(1 for x in ra if len(x) == 3 and isinstance(x[1], list) and x[1] and x[1][0] == "ok")
        print("records compared: %d (ok results %d, exceptions %d); mismatches: %d" % (len(ra), n_ok, n_exc, bad))
        sys.exit(0 if bad == 0 else 1)


if __name__ == "__main__":
    main()

"""
Equivalence check for twin3 (Signal.gen_fa_spectrum, generate_fa_spectrum and calc_fa_spectrum all delegate to the
shared module-level helpers _padded_npts / _one_sided_fa_spectrum of eqsig.fns.frequency).

Run with twin3 applied, cwd = worktree:   /venv/bin/python out/equiv3.py
The same scenario script is executed in two subprocesses, one importing the ORIGINAL package
(extracted from git HEAD into a temp dir) and one importing the edited worktree; the pickled
results are compared bit-for-bit (dtype, shape, bytes), including object state and argument mutation.
"""
import os
import pickle
import shutil
import subprocess
import sys
import tempfile
import warnings

import numpy as np

WORKTREE = os.path.dirname(os.path.dirname(os.path.abspath(__file__)))


# ----------------------------------------------------------------------------- worker side
def snap(x):
    """Make a picklable, exactly comparable snapshot of a value"""
    if isinstance(x, np.ndarray):
        return ('nd', str(x.dtype), x.shape, x.tobytes())
    if isinstance(x, np.generic):
        return ('npscalar', type(x).__name__, np.asarray(x).tobytes())
    if isinstance(x, (list, tuple)):
        return (type(x).__name__, [snap(v) for v in x])
    if isinstance(x, (bool, int, float, complex, str, type(None))):
        return (type(x).__name__, repr(x))
    return ('obj', type(x).__name__)


def state(sig):
    return {k: snap(getattr(sig, k)) for k in ('_cached_fa', '_fa_spectrum', '_fa_freqs', '_npts', '_dt', '_values',
                                               '_cached_smooth_fa')}


def call(fn, *args, **kwargs):
    with warnings.catch_warnings(record=True) as ws:
        warnings.simplefilter('always')
        try:
            out = ('ok', snap(fn(*args, **kwargs)))
        except Exception as e:  # noqa
            out = ('exc', type(e).__name__, str(e))
    return out, sorted((w.category.__name__, str(w.message)) for w in ws)


def records():
    rng = np.random.RandomState(606)
    recs = []
    for npts in [2, 3, 4, 5, 7, 8, 9, 15, 16, 17, 31, 32, 33, 63, 64, 100, 127, 128, 129, 255, 256, 257, 500, 1000,
                 1024, 1025, 2049]:
        recs.append(('randn%d' % npts, rng.randn(npts)))
    for npts in [2, 3, 6, 8, 50, 64]:
        recs.append(('zeros%d' % npts, np.zeros(npts)))
        recs.append(('ones%d' % npts, np.ones(npts)))
        recs.append(('int%d' % npts, rng.randint(-5, 6, size=npts)))
        recs.append(('list%d' % npts, list(rng.randn(npts))))
        recs.append(('intlist%d' % npts, [int(v) for v in rng.randint(-3, 4, size=npts)]))
        d = np.zeros(npts)
        d[0] = 1.0
        recs.append(('delta%d' % npts, d))
    for npts, f in [(64, 3.0), (100, 1.7), (333, 0.4), (512, 11.0)]:
        t = np.arange(npts) * 0.01
        recs.append(('sine%d' % npts, np.sin(2 * np.pi * f * t)))
        recs.append(('cos+tie%d' % npts, np.cos(2 * np.pi * f * t) + np.cos(2 * np.pi * 2 * f * t)))
        recs.append(('f32sine%d' % npts, np.sin(2 * np.pi * f * t).astype(np.float32)))
    for i in range(40):
        npts = int(rng.randint(2, 700))
        recs.append(('rand_%d_%d' % (i, npts), rng.randn(npts) * 10 ** rng.uniform(-3, 3)))
    return recs


class Duck(object):
    """Minimal record-like object for the array-level functions"""
    def __init__(self, values, dt):
        self.values = values
        self.dt = dt
        self.npts = len(values)


def worker(out_path):
    sys.path.insert(0, os.getcwd())
    import eqsig
    from eqsig import im
    from eqsig.fns import frequency as fq
    res = {'__file__': os.path.dirname(eqsig.__file__)}
    dts = [0.01, 0.005, 1.0, 0.02, 1. / 3, 2, 1e-4, np.float32(0.01)]
    recs = records() + [('one', np.array([1.5])), ('empty', np.zeros(0)), ('big4684', np.random.RandomState(1).randn(4684))]
    k = 0
    for name, vals in recs:
        npts = len(vals)
        n_list = [npts, npts + 1, max(npts - 1, 1), 2 * npts + 3, 64, 2, 1, 3, 7, max(npts // 2, 1), 0, -4,
                  np.int64(2 * npts), 16.0]
        for cls in (eqsig.Signal, eqsig.AccSignal, Duck):
            k += 1
            dt = dts[k % len(dts)]
            key = (name, cls.__name__, repr(dt))
            keep = pickle.dumps(vals)
            log = []
            s = cls(vals, dt)
            is_sig = cls is not Duck
            st = (lambda: state(s)) if is_sig else (lambda: None)
            # ---- array-level functions (must not touch the cache of the object)
            log.append(('gen', call(fq.generate_fa_spectrum, s), st()))
            log.append(('gen_pad_kw', call(fq.generate_fa_spectrum, s, n_pad=True), st()))
            log.append(('gen_nopad', call(fq.generate_fa_spectrum, s, n_pad=False), st()))
            log.append(('gen_nopad_pos', call(fq.generate_fa_spectrum, s, False), st()))
            log.append(('gen_pad_0', call(fq.generate_fa_spectrum, s, 0), call(fq.generate_fa_spectrum, s, 1),
                        call(fq.generate_fa_spectrum, s, None)))
            log.append(('calc', call(fq.calc_fa_spectrum, s), st()))
            for p2 in (0, 1, 2, 3, np.int64(1)):
                log.append(('calc_p2_%d' % p2, call(fq.calc_fa_spectrum, s, p2_plus=p2), st()))
            for n in n_list:
                log.append(('calc_n_%r' % (n,), call(fq.calc_fa_spectrum, s, n=n), st()))
                log.append(('calc_n_%r_pos' % (n,), call(fq.calc_fa_spectrum, s, n)))
                log.append(('calc_n_%r_p2' % (n,), call(fq.calc_fa_spectrum, s, n=n, p2_plus=2)))
                log.append(('calc_n_%r_p2_pos' % (n,), call(fq.calc_fa_spectrum, s, n, 1)))
            log.append(('arg_unchanged_1', pickle.dumps(vals) == keep))
            if not is_sig:
                if npts:
                    s.values = list(np.asarray(vals).tolist())  # plain list as values
                    log.append(('duck_list', call(fq.generate_fa_spectrum, s), call(fq.generate_fa_spectrum, s, False),
                                call(fq.calc_fa_spectrum, s), call(fq.calc_fa_spectrum, s, p2_plus=1),
                                call(fq.calc_fa_spectrum, s, n=npts + 3)))
                res[key] = log
                continue
            # ---- object-level: lazy properties on fresh objects
            log.append(('fresh_spec', call(lambda: s.fa_spectrum), st()))
            s = cls(vals, dt)
            log.append(('fresh_freqs', call(lambda: s.fa_freqs), st()))
            s = cls(vals, dt)
            log.append(('fresh_frequencies', call(lambda: s.fa_frequencies), st()))
            s = cls(vals, dt)
            log.append(('fresh_abs', call(lambda: s.fa_spectrum_abs), st()))
            s = cls(vals, dt)
            log.append(('fresh_generate', call(s.generate_fa_spectrum), st()))
            s = cls(vals, dt)
            log.append(('fresh_gen', call(s.gen_fa_spectrum), st()))
            log.append(('mfp', call(im.max_fa_period, s), st()))
            # ---- multi-step history on one object
            for p2 in (0, 1, 2, 3, 1, 0):
                log.append(('gen_p2_%d' % p2, call(s.gen_fa_spectrum, p2_plus=p2), st()))
                log.append(('gen_p2_%d_pos' % p2, call(s.gen_fa_spectrum, p2), st()))
                log.append(('props', call(lambda: s.fa_spectrum), call(lambda: s.fa_freqs), call(im.max_fa_period, s)))
            for n in n_list:
                log.append(('gen_n_%r' % (n,), call(s.gen_fa_spectrum, n=n), st()))
                log.append(('gen_n_%r_p2' % (n,), call(s.gen_fa_spectrum, 3, n), st()))
                log.append(('props', call(lambda: s.fa_spectrum), call(lambda: s.fa_freqs)))
            log.append(('gen_p2_none', call(s.gen_fa_spectrum, p2_plus=None), st()))
            log.append(('gen_p2_float', call(s.gen_fa_spectrum, p2_plus=1.5), st()))
            log.append(('gen_p2_neg', call(s.gen_fa_spectrum, p2_plus=-1), st()))
            # the cached arrays are fresh objects, not views of the values
            if npts > 1:
                s.gen_fa_spectrum()
                sp = s.fa_spectrum
                sp[...] = 0
                log.append(('values_after_spec_mutation', st()))
            new_vals = np.asarray(vals, dtype=float)[::-1] * 2.0 + 0.25
            s.reset_values(new_vals)
            log.append(('after_reset', st()))
            log.append(('spec_after_reset', call(lambda: s.fa_spectrum), st()))
            log.append(('agree_after_reset', call(fq.calc_fa_spectrum, s, p2_plus=0), call(fq.generate_fa_spectrum, s)))
            s.reset_values(np.append(new_vals, [1.0, -2.0, 0.5]))
            log.append(('gen_after_reset2', call(s.gen_fa_spectrum, p2_plus=2), st()))
            s.clear_cache()
            log.append(('freqs_after_clear', call(lambda: s.fa_freqs), st()))
            if cls is eqsig.AccSignal and 4 <= npts <= 300:
                # smooth spectrum uses the cached spectrum
                log.append(('smooth', call(lambda: s.smooth_fa_spectrum), st()))
            log.append(('arg_unchanged_2', pickle.dumps(vals) == keep))
            res[key] = log
    with open(out_path, 'wb') as f:
        pickle.dump(res, f)


# ----------------------------------------------------------------------------- driver side
def main():
    tmp = tempfile.mkdtemp(prefix='c06_equiv3_', dir='/tmp')
    try:
        orig = os.path.join(tmp, 'orig')
        os.makedirs(orig)
        subprocess.check_call('git archive HEAD eqsig | tar -x -C %s' % orig, shell=True, cwd=WORKTREE)
        outs = {}
        for tag, cwd in (('orig', orig), ('edit', WORKTREE)):
            out_path = os.path.join(tmp, tag + '.pkl')
            env = dict(os.environ)
            env.pop('PYTHONPATH', None)
            subprocess.check_call([sys.executable, os.path.abspath(__file__), '--worker', out_path], cwd=cwd, env=env)
            with open(out_path, 'rb') as f:
                outs[tag] = pickle.load(f)
        assert outs['orig'].pop('__file__').startswith(orig), 'original package not imported from the archive'
        assert outs['edit'].pop('__file__').startswith(WORKTREE), 'edited package not imported from the worktree'
        assert outs['orig'].keys() == outs['edit'].keys()
        bad = 0
        n_items = 0
        for key in outs['orig']:
            lo, le = outs['orig'][key], outs['edit'][key]
            assert len(lo) == len(le)
            for a, b in zip(lo, le):
                n_items += 1
                if a != b:
                    bad += 1
                    if bad < 10:
                        print('MISMATCH', key, a[0] if isinstance(a, tuple) else a)
        print('compared %d scenarios, %d steps, %d mismatches' % (len(outs['orig']), n_items, bad))
        return 1 if bad else 0
    finally:
        shutil.rmtree(tmp, ignore_errors=True)


if __name__ == '__main__':
    if len(sys.argv) == 3 and sys.argv[1] == '--worker':
        worker(sys.argv[2])
    else:
        sys.exit(main())

"""Equivalence program for the C09 twin (cumulative intensity measures in eqsig/im.py).

Run with the edit applied and cwd = the worktree:
    cd <worktree> && PYTHONPATH=<worktree> /venv/bin/python out/equivK.py

The original package is taken from `git archive HEAD eqsig` into a temporary directory. The same
deterministic driver is executed in two subprocesses (original / edited package on PYTHONPATH), every
result (or exception) is recorded and the two records are compared entry by entry.
Exit status 0 iff everything matches.
"""
import io
import os
import pickle
import subprocess
import sys
import tarfile
import tempfile
import time

FUNCS = ['calc_arias_intensity', 'calc_cav', 'calc_isv', 'calc_integral_of_abs_velocity',
         'calc_integral_of_abs_acceleration', 'calc_cumulative_abs_displacement', 'calc_unit_kinetic_energy']


# --------------------------------------------------------------------------------------------------
# worker
# --------------------------------------------------------------------------------------------------

def _enc(val):
    import numpy as np
    if isinstance(val, np.ndarray):
        return ('arr', str(val.dtype), val.shape, val.tobytes())
    if isinstance(val, (np.generic,)):
        return ('npscalar', str(val.dtype), val.tobytes())
    if isinstance(val, tuple):
        return ('tuple',) + tuple(_enc(v) for v in val)
    return ('py', type(val).__name__, repr(val))


def _call(fn, *args, **kwargs):
    try:
        return _enc(fn(*args, **kwargs))
    except Exception as e:  # noqa
        return ('exc', type(e).__name__, str(e))


def worker(expected_root, out_path):
    import warnings
    warnings.simplefilter('ignore')
    import types
    import numpy as np
    import eqsig
    from eqsig import im
    assert os.path.realpath(eqsig.__file__).startswith(os.path.realpath(expected_root) + os.sep), \
        (eqsig.__file__, expected_root)
    np.seterr(all='ignore')
    rng = np.random.RandomState(20240909)
    res = []

    def rec(tag, val):
        res.append((tag, val))

    g = 9.81
    dts_int = [0.001, 0.002, 0.004, 0.005, 0.01, 0.02, 0.025, 0.04, 0.05, 0.1, 0.2, 0.25, 0.5, 1.0,
               1. / 3, 1. / 7, 1. / 64, 1. / 128, 1. / 30, 1. / 60]
    dts_odd = [0.0123, 0.03, 0.3, 0.7, 2.0, 0.00999, 0.0101, 1.5, 0.45]

    def make_record(n, kind):
        if kind == 0:
            v = rng.randn(n)
        elif kind == 1:
            v = rng.randn(n) * 10.0 ** rng.randint(-8, 8)
        elif kind == 2:
            v = rng.randint(-5, 6, size=n)  # integer typed
        elif kind == 3:
            v = list(rng.randn(n))  # python list of floats
        elif kind == 4:
            v = [int(x) for x in rng.randint(-3, 4, size=n)]  # list of ints
        elif kind == 5:
            v = np.zeros(n)
        elif kind == 6:
            v = np.ones(n) * rng.randn()
        elif kind == 7:
            v = rng.randn(n)
            v[n // 2:] = 0.0  # trailing zeros
        elif kind == 8:
            v = np.zeros(n)
            k = max(1, n // 10)
            v[rng.randint(0, n, size=k)] = rng.randn(k) * 3  # sparse spikes
        elif kind == 9:
            v = rng.randn(n).astype(np.float32)
        elif kind == 10:
            v = -np.abs(rng.randn(n))
            v[::3] = -0.0
        elif kind == 11:
            v = np.sin(np.arange(n) * 0.3) * rng.uniform(0.1, 4)
        else:
            # amplitudes around the 0.025 g gate, constant per block
            levels = np.array([0.0, 0.01, 0.024, 0.025, 0.0250001, 0.026, 0.5]) * g
            blk = max(1, n // rng.randint(1, 12))
            amp = levels[rng.randint(0, len(levels), size=n // blk + 1)]
            amp = np.repeat(amp, blk)[:n]
            v = amp * rng.choice([-1.0, 1.0], size=n) * rng.choice([1.0, 1.0, 0.5, 0.0], size=n)
        return v

    def run_all(tag, asig, with_cav_dp=True):
        before = np.array(asig.values, copy=True)
        for fname in FUNCS:
            rec(tag + ':' + fname, _call(getattr(im, fname), asig))
        if with_cav_dp:
            rec(tag + ':calc_cav_dp', _call(im.calc_cav_dp, asig))
        rec(tag + ':values_unchanged', ('py', 'bool', repr(bool(
            before.shape == asig.values.shape and before.dtype == asig.values.dtype
            and before.tobytes() == asig.values.tobytes()))))

    # ---- A: all cumulative measures on many short records, every dt --------------------------------
    for case in range(2600):
        n = int(rng.choice([1, 2, 3, 4, 5, 7, 10, 33, 64, 100, 101, 257, 400]))
        if rng.rand() < 0.4:
            n = int(rng.randint(1, 420))
        dt = (dts_int + dts_odd)[rng.randint(0, len(dts_int) + len(dts_odd))]
        kind = case % 13
        v = make_record(n, kind)
        asig = eqsig.AccSignal(v, dt)
        run_all('A%d' % case, asig, with_cav_dp=(case % 2 == 0))
        if case % 5 == 0:
            rec('A%d:raw_arias' % case, _call(im._raw_calc_arias_intensity, np.asarray(v), dt))
        if case % 7 == 0:
            # scaling / sign / padding relatives of the same record
            va = np.asarray(v, dtype=float)
            for alpha in (-1.0, 2.0, -0.37, 1e3):
                run_all('A%d:alpha%r' % (case, alpha), eqsig.AccSignal(va * alpha, dt), with_cav_dp=False)
            vp = np.concatenate([va, [0.0], np.zeros(int(rng.randint(0, 50)))])
            run_all('A%d:pad' % case, eqsig.AccSignal(vp, dt), with_cav_dp=False)

    # ---- B: standardised CAV on its domain (>= 2 s, integer samples per second) and around it ------
    for case in range(1300):
        if case % 6 == 5:
            dt = dts_odd[rng.randint(0, len(dts_odd))]
        else:
            dt = dts_int[rng.randint(0, len(dts_int))]
        pps = max(1, int(round(1 / dt)))
        if case % 10 == 9:
            secs = rng.uniform(0.0, 2.2)  # shorter than the domain: errors / degenerate series
        else:
            secs = rng.uniform(2.0, 14.0)
        if dt <= 0.002:
            secs = min(secs, 5.0)
        n = max(1, int(secs * pps) + int(rng.randint(0, 3)))
        if case % 4 == 0:
            n = max(1, int(round(secs)) * pps + int(rng.randint(-1, 2)))  # whole seconds +-1 sample
        kind = [12, 12, 0, 1, 2, 4, 7, 8, 11, 5, 12, 9][case % 12]
        v = make_record(n, kind)
        if kind in (0, 11) and case % 3 == 0:
            v = np.asarray(v) * 0.025 * g  # straddle the gate
        asig = eqsig.AccSignal(v, dt)
        before = asig.values.copy()
        rec('B%d:cav_dp' % case, _call(im.calc_cav_dp, asig))
        rec('B%d:cav' % case, _call(im.calc_cav, asig))
        rec('B%d:unchanged' % case, ('py', 'bool', repr(before.tobytes() == asig.values.tobytes())))
        if case % 9 == 0:
            va = np.asarray(v, dtype=float)
            rec('B%d:cav_dp_neg' % case, _call(im.calc_cav_dp, eqsig.AccSignal(-va, dt)))
            rec('B%d:cav_dp_x3' % case, _call(im.calc_cav_dp, eqsig.AccSignal(3 * va, dt)))
            rec('B%d:cav_dp_pad' % case, _call(im.calc_cav_dp, eqsig.AccSignal(
                np.concatenate([va, np.zeros(1 + int(rng.randint(0, 3 * pps)))]), dt)))

    # non-finite data (outside the domain, compared anyway)
    for case in range(120):
        dt = [0.01, 0.02, 0.05, 0.1][case % 4]
        n = int(rng.randint(2, 6) / dt) + int(rng.randint(0, 5))
        v = rng.randn(n) * [0.01, 0.3, 2.0][case % 3]
        pos = rng.randint(0, n, size=int(rng.randint(1, 4)))
        v[pos] = [np.nan, np.inf, -np.inf, np.nan][case % 4]
        run_all('N%d' % case, eqsig.AccSignal(v, dt))

    # ---- C: histories of operations on one object --------------------------------------------------
    allf = FUNCS + ['calc_cav_dp']
    for case in range(150):
        dt = [0.005, 0.01, 0.02, 0.05, 0.1][case % 5]
        n = int(rng.uniform(2.0, 6.0) / dt) + int(rng.randint(0, 4))
        asig = eqsig.AccSignal(make_record(n, [0, 12, 2, 7][case % 4]), dt)
        for step in range(10):
            op = rng.randint(0, 8)
            tag = 'C%d.%d' % (case, step)
            if op <= 3:
                fname = allf[rng.randint(0, len(allf))]
                rec(tag + ':' + fname, _call(getattr(im, fname), asig))
            elif op == 4:
                m = int(rng.uniform(2.0, 5.0) / dt)
                asig.reset_values(make_record(m, [0, 12, 5, 1][step % 4]))
                rec(tag + ':reset', ('py', 'int', repr(asig.npts)))
            elif op == 5:
                rec(tag + ':gen_cum_stats', _call(asig.generate_cumulative_stats))
                for att in ('arias_intensity_series', 'arias_intensity', 'cav_series', 'cav'):
                    rec(tag + ':' + att, _call(getattr, asig, att))
            elif op == 6:
                imf = [None, im.calc_cav, im.calc_isv, im.calc_unit_kinetic_energy,
                       im.calc_integral_of_abs_acceleration][rng.randint(0, 5)]
                rec(tag + ':sig_dur', _call(im.calc_sig_dur, asig, im=imf, se=bool(step % 2)))
            else:
                rec(tag + ':vel', _call(lambda a: a.velocity.copy(), asig))
                rec(tag + ':vals', _call(lambda a: a.values.copy(), asig))

    # ---- D: other argument forms: eqsig.Signal, duck-typed stubs, bad inputs ----------------------
    for case in range(120):
        dt = [0.01, 0.05, 0.1, 0.25][case % 4]
        n = int(rng.uniform(0.5, 5.0) / dt) + 1
        v = make_record(n, [0, 2, 12][case % 3])
        sig = eqsig.Signal(v, dt)  # has no velocity
        for fname in allf:
            rec('D%d:Signal:%s' % (case, fname), _call(getattr(im, fname), sig))
        va = np.asarray(v)
        forms = [
            types.SimpleNamespace(values=va, dt=dt, time=np.arange(len(va)) * dt, velocity=np.cumsum(va) * dt),
            types.SimpleNamespace(values=list(va), dt=dt, time=list(np.arange(len(va)) * dt),
                                  velocity=list(np.cumsum(va) * dt)),
            types.SimpleNamespace(values=va, dt=int(1), time=np.arange(len(va)), velocity=va),
            types.SimpleNamespace(values=va[:0], dt=dt, time=va[:0], velocity=va[:0]),
            types.SimpleNamespace(values=va.reshape(1, -1), dt=dt, time=np.arange(len(va)) * dt,
                                  velocity=va.reshape(1, -1)),
        ]
        stub = forms[case % len(forms)]
        for fname in allf:
            rec('D%d:stub:%s' % (case, fname), _call(getattr(im, fname), stub))
    for bad in (None, 3.0, 'abc', [1.0, 2.0]):
        for fname in allf:
            rec('D:bad%r:%s' % (bad, fname), _call(getattr(im, fname), bad))
    for dt in (0.0, -0.01, 1e-3, 3.0):
        for n in (1, 2, 50, 2500):
            asig = eqsig.AccSignal(rng.randn(n), dt)
            for fname in allf:
                rec('D:dt%r:n%d:%s' % (dt, n, fname), _call(getattr(im, fname), asig))

    with open(out_path, 'wb') as f:
        pickle.dump(res, f, protocol=2)


# --------------------------------------------------------------------------------------------------
# comparison
# --------------------------------------------------------------------------------------------------

def same(a, b, stats):
    import numpy as np
    if a == b:
        return True
    if a[0] == 'arr' and b[0] == 'arr' and a[1:3] == b[1:3]:
        x = np.frombuffer(a[3], dtype=a[1])
        y = np.frombuffer(b[3], dtype=b[1])
        if x.dtype.kind == 'f' and np.allclose(x, y, rtol=1e-12, atol=0.0, equal_nan=True):
            stats['inexact'] += 1
            return True
    if a[0] == 'tuple' and b[0] == 'tuple' and len(a) == len(b):
        return all(same(p, q, stats) for p, q in zip(a[1:], b[1:]))
    return False


def main():
    t0 = time.time()
    cwd = os.getcwd()
    me = os.path.abspath(__file__)
    with tempfile.TemporaryDirectory() as tmp:
        orig_root = os.path.join(tmp, 'orig')
        os.makedirs(orig_root)
        blob = subprocess.check_output(['git', 'archive', 'HEAD', 'eqsig'], cwd=cwd)
        with tarfile.open(fileobj=io.BytesIO(blob)) as tf:
            tf.extractall(orig_root)
        outs = {}
        procs = []
        for name, root in (('orig', orig_root), ('edit', cwd)):
            env = dict(os.environ)
            env['PYTHONPATH'] = root
            env['PYTHONDONTWRITEBYTECODE'] = '1'
            env['PYTHONHASHSEED'] = '0'
            outs[name] = os.path.join(tmp, name + '.pkl')
            procs.append((name, subprocess.Popen([sys.executable, me, '--worker', root, outs[name]],
                                                 env=env, cwd=tmp)))
        for name, p in procs:
            if p.wait() != 0:
                print('worker %s failed' % name)
                return 1
        with open(outs['orig'], 'rb') as f:
            ro = pickle.load(f)
        with open(outs['edit'], 'rb') as f:
            re_ = pickle.load(f)
    if len(ro) != len(re_):
        print('different number of records', len(ro), len(re_))
        return 1
    stats = {'inexact': 0}
    bad = 0
    n_exc = 0
    for (ta, a), (tb, b) in zip(ro, re_):
        if a[0] == 'exc':
            n_exc += 1
        if ta != tb or not same(a, b, stats):
            bad += 1
            if bad <= 15:
                print('MISMATCH', ta, tb, str(a)[:160], '|', str(b)[:160])
    print('%d comparisons, %d exceptions compared, %d within 1e-12 but not bit-identical, %d mismatches, %.1f s'
          % (len(ro), n_exc, stats['inexact'], bad, time.time() - t0))
    return 1 if bad else 0


if __name__ == '__main__':
    if len(sys.argv) > 1 and sys.argv[1] == '--worker':
        worker(sys.argv[2], sys.argv[3])
        sys.exit(0)
    sys.exit(main())

"""Equivalence check for twin2 (calc_velo_and_disp_from_accel_arr split into wrapper + two workers).

Run with twin1 applied, cwd = the worktree.  Loads the ORIGINAL package from
`git archive HEAD` into a temporary directory and compares it in-process with
the edited package found in the current working directory.
"""
import os
import shutil
import subprocess
import sys
import tempfile
import warnings

import numpy as np

HERE = os.getcwd()


def _purge():
    for name in [m for m in sys.modules if m == 'eqsig' or m.startswith('eqsig.')]:
        del sys.modules[name]


def load_both():
    tmp = tempfile.mkdtemp(prefix='c08_orig_', dir='/tmp')
    arch = subprocess.Popen(['git', 'archive', 'HEAD', 'eqsig'], cwd=HERE, stdout=subprocess.PIPE)
    subprocess.check_call(['tar', '-x', '-C', tmp], stdin=arch.stdout)
    arch.wait()
    assert arch.returncode == 0
    _purge()
    sys.path.insert(0, HERE)
    import eqsig as new
    import eqsig.im, eqsig.displacements, eqsig.single  # noqa
    new_mods = {k: v for k, v in sys.modules.items() if k == 'eqsig' or k.startswith('eqsig.')}
    assert os.path.realpath(new.__file__).startswith(os.path.realpath(HERE) + os.sep), new.__file__
    _purge()
    sys.path.remove(HERE)
    sys.path.insert(0, tmp)
    import eqsig as old
    import eqsig.im, eqsig.displacements, eqsig.single  # noqa
    old_mods = {k: v for k, v in sys.modules.items() if k == 'eqsig' or k.startswith('eqsig.')}
    assert os.path.realpath(old.__file__).startswith(os.path.realpath(tmp) + os.sep), old.__file__
    sys.path.remove(tmp)
    return tmp, old_mods, new_mods


N_CHECKS = [0]


def same(a, b, ctx=''):
    """bit-for-bit equality including type, dtype and shape"""
    N_CHECKS[0] += 1
    assert type(a) is type(b), (ctx, type(a), type(b))
    if isinstance(a, np.ndarray):
        assert a.dtype == b.dtype, (ctx, a.dtype, b.dtype)
        assert a.shape == b.shape, (ctx, a.shape, b.shape)
        if a.dtype == object:
            same(a.tolist(), b.tolist(), ctx)
        else:
            assert a.tobytes() == b.tobytes(), (ctx, a, b)
    elif isinstance(a, (tuple, list)):
        assert len(a) == len(b), ctx
        for x, y in zip(a, b):
            same(x, y, ctx)
    elif isinstance(a, np.generic):
        assert a.dtype == b.dtype, (ctx, a.dtype, b.dtype)
        assert a.tobytes() == b.tobytes(), (ctx, a, b)
    elif isinstance(a, float):
        assert repr(a) == repr(b), (ctx, a, b)
    elif isinstance(a, dict):
        assert list(a.keys()) == list(b.keys()), (ctx, a, b)
        for k in a:
            same(a[k], b[k], (ctx, k))
    else:
        assert a == b, (ctx, a, b)


def run(fn, *args, **kwargs):
    """returns ('ok', value, warnings) or ('exc', type, message, warnings)"""
    with warnings.catch_warnings(record=True) as w:
        warnings.simplefilter('always')
        try:
            out = ('ok', fn(*args, **kwargs))
        except Exception as e:  # noqa
            out = ('exc', type(e).__name__, str(e))
    return out + ([(x.category.__name__, str(x.message)) for x in w],)


def snapshot(x):
    if isinstance(x, np.ndarray):
        return x.copy()
    if isinstance(x, (list, tuple)):
        return type(x)(x)
    return x


def compare_call(f_old, f_new, make_arg, ctx):
    a_old = make_arg()
    a_new = make_arg()
    keep_old = snapshot(a_old)
    r_old = run(f_old, a_old)
    r_new = run(f_new, a_new)
    same(r_old, r_new, ctx)
    if isinstance(a_old, (np.ndarray, list, tuple)):
        same(a_old, a_new, (ctx, 'arg after call'))
        same(a_old, keep_old, (ctx, 'arg not mutated'))
    return r_old


def compare_integration(f_old, f_new, make_acc, dt, kwargs, ctx):
    a_old = make_acc()
    a_new = make_acc()
    keep = snapshot(a_old)
    r_old = run(f_old, a_old, dt, **kwargs)
    r_new = run(f_new, a_new, dt, **kwargs)
    same(r_old, r_new, ctx)
    if isinstance(a_old, (np.ndarray, list, tuple)):
        same(a_old, a_new, (ctx, 'arg after call'))
        same(a_old, keep, (ctx, 'arg not mutated'))
    if r_old[0] == 'ok':
        # results must not alias the input nor each other, in both versions
        for r, a in ((r_old, a_old), (r_new, a_new)):
            v, d = r[1]
            assert not np.shares_memory(v, d), ctx
            if isinstance(a, np.ndarray):
                assert not np.shares_memory(v, a) and not np.shares_memory(d, a), ctx
            assert v.flags.writeable and d.flags.writeable, ctx
            assert v.flags.c_contiguous and d.flags.c_contiguous, ctx
    return r_old


def main():
    tmp, old_mods, new_mods = load_both()
    try:
        d_old, d_new = old_mods['eqsig.displacements'], new_mods['eqsig.displacements']
        assert d_old is not d_new
        rng = np.random.RandomState(808)
        fns = [(d_old.calc_velo_and_disp_from_accel_arr, d_new.calc_velo_and_disp_from_accel_arr, 'calc'),
               (d_old.velocity_and_displacement_from_acceleration, d_new.velocity_and_displacement_from_acceleration,
                'alias')]
        # every way of passing the `trap` option (note: the code tests `trap is False`)
        trap_opts = [{}, {'trap': True}, {'trap': False}, {'trap': 0}, {'trap': 1}, {'trap': None},
                     {'trap': np.False_}, {'trap': np.True_}, {'trap': 'no'}]
        dts = [0.01, 0.005, 1.0, 1, 2, 0.1, 1e-6, 37.5, np.float64(0.02), np.float32(0.02), -0.01, 0.0, 0,
               np.nan, np.inf]

        makers = []
        for n in [0, 1, 2, 3, 4, 5, 8, 17, 100, 1000, 4096]:
            for k in range(4):
                v = rng.randn(n) * 10 ** rng.uniform(-5, 5)
                makers.append(('rand%d_%d' % (n, k), lambda v=v: v.copy()))
                makers.append(('list%d_%d' % (n, k), lambda v=v: v.tolist()))
                makers.append(('tuple%d_%d' % (n, k), lambda v=v: tuple(v.tolist())))
                makers.append(('f32_%d_%d' % (n, k), lambda v=v: v.astype(np.float32)))
                makers.append(('int_%d_%d' % (n, k), lambda v=v: np.clip(np.round(v), -10 ** 9, 10 ** 9).astype(np.int64)))
                makers.append(('int32_%d_%d' % (n, k), lambda v=v: np.clip(np.round(v), -10 ** 4, 10 ** 4).astype(np.int32)))
                makers.append(('intlist_%d_%d' % (n, k), lambda v=v: [int(x) for x in np.round(v)]))
                makers.append(('strided%d_%d' % (n, k), lambda v=v: np.repeat(v, 3)[::3]))
                makers.append(('reversed%d_%d' % (n, k), lambda v=v: v.copy()[::-1]))
                makers.append(('readonly%d_%d' % (n, k), lambda v=v: _readonly(v)))
            makers.append(('zeros%d' % n, lambda n=n: np.zeros(n)))
            makers.append(('negzeros%d' % n, lambda n=n: -np.zeros(n)))
            makers.append(('ones%d' % n, lambda n=n: np.ones(n)))
            makers.append(('const%d' % n, lambda n=n: np.full(n, -9.81)))
            makers.append(('ramp%d' % n, lambda n=n: np.arange(n) * 0.3 - 1.0))
            makers.append(('intramp%d' % n, lambda n=n: np.arange(n)))
            makers.append(('bool%d' % n, lambda n=n: (np.arange(n) % 3 == 0)))
            makers.append(('sine%d' % n, lambda n=n: np.sin(np.arange(n) * 0.1)))
        n_regular = len(makers)
        makers.append(('nan', lambda: np.array([1.0, np.nan, 2.0, 3.0])))
        makers.append(('inf', lambda: np.array([1.0, np.inf, -np.inf, 3.0])))
        makers.append(('huge', lambda: np.array([1e308, 1e308, -1e308, 3.0])))
        makers.append(('tiny', lambda: np.array([5e-324, -5e-324, 1e-310, 3e-320])))
        makers.append(('negzero_first', lambda: np.array([-0.0, -0.0, 1.0])))
        # invalid shapes / types must fail (or not) in the same way
        makers.append(('two_d', lambda: np.arange(12.).reshape(3, 4)))
        makers.append(('two_d_col', lambda: np.arange(3.).reshape(3, 1)))
        makers.append(('two_d_row', lambda: np.arange(3.).reshape(1, 3)))
        makers.append(('scalar', lambda: 2.5))
        makers.append(('zero_d', lambda: np.array(2.5)))
        makers.append(('none', lambda: None))
        makers.append(('complex', lambda: np.array([1 + 1j, 2 - 3j, 0.5j])))
        makers.append(('object', lambda: np.array([1, 2.5, -3], dtype=object)))
        makers.append(('strings', lambda: ['a', 'b', 'c']))
        makers.append(('generator', lambda: (x for x in [1.0, 2.0])))
        makers.append(('longdouble', lambda: np.array([1.5, -2.25, 3.125], dtype=np.longdouble)))
        makers.append(('f16', lambda: np.array([1.5, -2.25, 3.125], dtype=np.float16)))
        makers.append(('uint8', lambda: np.array([1, 200, 255, 3], dtype=np.uint8)))

        for i, (name, mk) in enumerate(makers):
            full = (i % 7 == 0) or i >= n_regular
            for dt in (dts if full else [dts[i % len(dts)], 0.01]):
                for kw in (trap_opts if full else trap_opts[:3]):
                    for f_old, f_new, fname in (fns if full else fns[:1]):
                        compare_integration(f_old, f_new, mk, dt, kw, (fname, name, dt, kw))
        # positional `trap`
        for name, mk in makers[:60]:
            for trap in (True, False):
                same(run(d_old.calc_velo_and_disp_from_accel_arr, mk(), 0.01, trap),
                     run(d_new.calc_velo_and_disp_from_accel_arr, mk(), 0.01, trap), ('positional', name, trap))

        # object-level access: AccSignal integrates through this function
        Acc_old, Acc_new = old_mods['eqsig'].AccSignal, new_mods['eqsig'].AccSignal

        def state(s):
            return {'values': s._values, 'velocity': s._velocity, 'displacement': s._displacement,
                    'flag': s._cached_disp_and_velo, 'params': s._cached_params, 'npts': s._npts}

        for n in [2, 3, 5, 10, 64, 500]:
            for k in range(5):
                v = rng.randn(n) * 10 ** rng.uniform(-3, 3)
                dt = float(10 ** rng.uniform(-3, 0))
                for values in (v, list(v), v.astype(np.float32), np.round(v * 10).astype(int), np.zeros(n),
                               np.full(n, 2.0), np.arange(n) * 1.5):
                    so, sn = Acc_old(values, dt), Acc_new(values, dt)
                    same(state(so), state(sn), 'fresh')
                    same(so.velocity, sn.velocity, 'lazy velocity')
                    same(so.displacement, sn.displacement, 'lazy displacement')
                    same((so.pga, so.pgv, so.pgd), (sn.pga, sn.pgv, sn.pgd), 'peaks')
                    same(state(so), state(sn), 'after lazy')
                    for trap in (False, True, False):
                        same(run(so.generate_displacement_and_velocity_series, trap=trap),
                             run(sn.generate_displacement_and_velocity_series, trap=trap), 'gen')
                        same(state(so), state(sn), ('after gen', trap))
                        same(so.velocity, sn.velocity, 'velocity')
                        same(so.displacement, sn.displacement, 'displacement')
                        same((so.pga, so.pgv, so.pgd), (sn.pga, sn.pgv, sn.pgd), 'peaks (cached)')
                    # writing into the returned series behaves the same (private, writable arrays)
                    so.velocity[0] = 7.0
                    sn.velocity[0] = 7.0
                    same(state(so), state(sn), 'after write')
                    so.reset_values(so.values * -2.5)
                    sn.reset_values(sn.values * -2.5)
                    so.generate_displacement_and_velocity_series(trap=False)
                    sn.generate_displacement_and_velocity_series(trap=False)
                    same((so.pgd, so.pgv, so.pga), (sn.pgd, sn.pgv, sn.pga), 'peaks rect')
                    same(state(so), state(sn), 'after reset + rect')
                    so.rebase_displacement()
                    sn.rebase_displacement()
                    same(state(so), state(sn), 'after rebase')
                    same(so.displacement, sn.displacement, 'displacement after rebase')
                    same(state(so), state(sn), 'end')
        print('equiv2: %d comparisons identical' % N_CHECKS[0])
    finally:
        shutil.rmtree(tmp, ignore_errors=True)


def _readonly(v):
    v = v.copy()
    v.setflags(write=False)
    return v


if __name__ == '__main__':
    main()

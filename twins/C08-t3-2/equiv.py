"""Equivalence check for twin2 (run with twin2 applied, cwd = worktree).

Drives pairs of AccSignal objects (ORIGINAL package from git HEAD vs edited working copy) through the
same random multi-step histories and compares every returned value and the complete object state
bit for bit, including the laziness (when the integration runs and that the stored arrays are returned
uncopied).
"""
import contextlib
import io
import os
import subprocess
import sys
import tempfile
import warnings

import numpy as np

HERE = os.getcwd()


def load_pair():
    tmp = tempfile.mkdtemp(prefix="c08_equiv2_", dir="/tmp")
    subprocess.check_call("git archive HEAD eqsig | tar -x -C %s" % tmp, shell=True, cwd=HERE)

    def _import(root):
        for name in [m for m in sys.modules if m == "eqsig" or m.startswith("eqsig.")]:
            del sys.modules[name]
        sys.path.insert(0, root)
        try:
            import eqsig
            import eqsig.displacements
            import eqsig.single
            import eqsig.im
            assert eqsig.__file__.startswith(root + os.sep), (eqsig.__file__, root)
            return eqsig
        finally:
            sys.path.remove(root)

    orig = _import(tmp)
    new = _import(HERE)
    assert orig is not new and orig.single is not new.single
    return orig, new


n_checks = 0


def same(a, b, ctx):
    global n_checks
    n_checks += 1
    assert type(a) is type(b), (ctx, type(a), type(b))
    if isinstance(a, (tuple, list)):
        assert len(a) == len(b), (ctx, len(a), len(b))
        for k, (x, y) in enumerate(zip(a, b)):
            same(x, y, ctx + (k,))
        return
    if isinstance(a, dict):
        assert sorted(a, key=str) == sorted(b, key=str), (ctx, sorted(a, key=str), sorted(b, key=str))
        for k in a:
            same(a[k], b[k], ctx + (k,))
        return
    if isinstance(a, np.ndarray):
        assert a.dtype == b.dtype, (ctx, a.dtype, b.dtype)
        assert a.shape == b.shape, (ctx, a.shape, b.shape)
        assert a.flags.writeable == b.flags.writeable, ctx
        assert a.tobytes() == b.tobytes(), (ctx, a, b)
        return
    assert a == b or (a != a and b != b), (ctx, a, b)


def state(sig):
    return dict(sig.__dict__)


def outcome(fn):
    try:
        with warnings.catch_warnings():
            warnings.simplefilter("ignore")
            return ("ok", fn())
    except Exception as e:  # noqa
        return ("err", type(e).__name__, str(e))


class Counting(object):
    """mixin for subclasses that count how often the integration is run"""
    n_runs = 0

    def generate_displacement_and_velocity_series(self, trap=True):
        self.n_runs += 1
        super(Counting, self).generate_displacement_and_velocity_series(trap=trap)


def main():
    orig, new = load_pair()
    rng = np.random.default_rng(20808)

    class Sig0(Counting, orig.AccSignal):
        pass

    class Sig1(Counting, new.AccSignal):
        pass

    # ---- class-level behaviour -------------------------------------------------------------
    for name, doc in (("velocity", "Velocity time series"), ("displacement", "Displacement time series")):
        assert getattr(orig.AccSignal, name).__doc__ == doc
        assert getattr(new.AccSignal, name).__doc__ == doc
        assert name in vars(orig.AccSignal) and name in vars(new.AccSignal)
        for pkg in (orig, new):
            s = pkg.AccSignal([0.0, 1.0, -1.0], 0.1)
            assert name not in s.__dict__
            r = outcome(lambda: setattr(s, name, np.zeros(3)))
            assert r[0] == "err" and r[1] == "AttributeError", r
            r = outcome(lambda: delattr(s, name))
            assert r[0] == "err" and r[1] == "AttributeError", r
            assert hasattr(s, name) and name not in s.__dict__
    s0 = orig.AccSignal([0.0, 1.0, -1.0], 0.1)
    s1 = new.AccSignal([0.0, 1.0, -1.0], 0.1)
    same(outcome(lambda: setattr(s0, "velocity", 1)), outcome(lambda: setattr(s1, "velocity", 1)), ("set msg",))
    same(outcome(lambda: delattr(s0, "displacement")), outcome(lambda: delattr(s1, "displacement")), ("del msg",))
    same(sorted(n for n in dir(s0)), sorted(n for n in dir(s1)), ("dir",))

    sink = io.StringIO()
    with contextlib.redirect_stdout(sink), contextlib.redirect_stderr(sink):
        # ---- edge-case records: fresh object, every single first access --------------------------
        edge = [
            [0.0, 0.0], [1.0, -1.0], np.array([1.0, 1.0, 1.0]), np.full(6, 3.0), np.arange(7.0), np.arange(7),
            np.arange(-4, 5, dtype=np.int32), np.zeros(10), -np.zeros(4), np.ones(4, dtype=np.float32),
            np.array([1e308, 1e308, -1e308]), np.array([1e-320, -1e-320, 5e-324]), np.array([0.1, np.nan, 0.3]),
            (0.5, 0.25, -0.75), [1, 2, 3], np.linspace(-1, 1, 11)[::-2],
        ]
        firsts = ["velocity", "displacement", "pga", "pgv", "pgd"]
        for i, vals in enumerate(edge):
            for dt in (0.01, 1, 0.5, np.float64(0.02), 2.0):
                for first in firsts:
                    a0, a1 = Sig0(vals, dt), Sig1(vals, dt)
                    same(state(a0), state(a1), ("edge", i, dt, first, "fresh"))
                    assert a0._cached_disp_and_velo is False and a1._cached_disp_and_velo is False
                    same(outcome(lambda: getattr(a0, first)), outcome(lambda: getattr(a1, first)),
                         ("edge", i, dt, first, "value"))
                    same(state(a0), state(a1), ("edge", i, dt, first, "after first"))
                    assert a0.n_runs == a1.n_runs, ("edge", i, dt, first)
                    for other in firsts:
                        same(outcome(lambda: getattr(a0, other)), outcome(lambda: getattr(a1, other)),
                             ("edge", i, dt, first, other))
                    same(state(a0), state(a1), ("edge", i, dt, first, "after all"))
                    assert a0.n_runs == a1.n_runs == 1, ("edge", i, dt, first, a0.n_runs, a1.n_runs)
                    # the stored arrays are handed out uncopied, every time
                    assert a0.velocity is a0._velocity and a1.velocity is a1._velocity
                    assert a0.displacement is a0._displacement and a1.displacement is a1._displacement
                    assert len(a1.velocity) == len(vals) and len(a1.displacement) == len(vals)

        # ---- random histories ---------------------------------------------------------------------
        ops = ["velocity", "displacement", "pga", "pgv", "pgd", "reset", "reset_list", "rect", "trap", "add_constant",
               "add_series", "remove_average", "remove_poly", "rebase", "zero_vel", "zero_disp", "zero_both",
               "clear", "poke_vel", "poke_disp", "poke_values", "cav", "rolling", "correct", "npts", "time",
               "zero_vel_tz", "zero_both_tz"]
        for trial in range(250):
            n = int(rng.choice([2, 3, 5, 12, 40, 200, 1500]))
            vals = rng.standard_normal(n) * 10.0 ** rng.integers(-3, 3)
            if trial % 9 == 0:
                vals = rng.integers(-20, 20, n)
            if trial % 13 == 0:
                vals = list(vals)
            dt = float(rng.choice([0.005, 0.01, 0.02, 0.1, 1.0]))
            a0, a1 = Sig0(vals, dt), Sig1(vals, dt)
            for step in range(int(rng.integers(5, 30))):
                op = str(rng.choice(ops))
                ctx = ("hist", trial, step, op)
                npts = a0.npts
                if op in ("velocity", "displacement", "pga", "pgv", "pgd", "npts", "time"):
                    r0, r1 = outcome(lambda: getattr(a0, op)), outcome(lambda: getattr(a1, op))
                elif op == "reset":
                    nv = rng.standard_normal(int(rng.choice([2, 3, npts, npts + 5])))
                    r0, r1 = outcome(lambda: a0.reset_values(nv)), outcome(lambda: a1.reset_values(nv))
                elif op == "reset_list":
                    nv = [float(x) for x in rng.integers(-5, 5, int(rng.choice([2, 4, npts])))]
                    r0, r1 = outcome(lambda: a0.reset_values(nv)), outcome(lambda: a1.reset_values(nv))
                elif op in ("rect", "trap"):
                    flag = op == "trap"
                    r0 = outcome(lambda: a0.generate_displacement_and_velocity_series(trap=flag))
                    r1 = outcome(lambda: a1.generate_displacement_and_velocity_series(trap=flag))
                elif op == "add_constant":
                    c = float(rng.standard_normal())
                    r0, r1 = outcome(lambda: a0.add_constant(c)), outcome(lambda: a1.add_constant(c))
                elif op == "add_series":
                    ser = rng.standard_normal(npts if rng.random() < 0.8 else npts + 1)
                    r0, r1 = outcome(lambda: a0.add_series(ser)), outcome(lambda: a1.add_series(ser))
                elif op == "remove_average":
                    r0, r1 = outcome(lambda: a0.remove_average()), outcome(lambda: a1.remove_average())
                elif op == "remove_poly":
                    deg = int(rng.integers(0, 3))
                    r0, r1 = outcome(lambda: a0.remove_poly(deg)), outcome(lambda: a1.remove_poly(deg))
                elif op == "rebase":
                    r0, r1 = outcome(lambda: a0.rebase_displacement()), outcome(lambda: a1.rebase_displacement())
                elif op == "zero_vel":
                    r0 = outcome(lambda: a0.set_zero_residual_velocity())
                    r1 = outcome(lambda: a1.set_zero_residual_velocity())
                elif op == "zero_vel_tz":
                    tz = (0.0, None) if rng.random() < 0.5 else (dt, dt * max(2, npts // 2))
                    r0 = outcome(lambda: a0.set_zero_residual_velocity(timezone=tz))
                    r1 = outcome(lambda: a1.set_zero_residual_velocity(timezone=tz))
                elif op == "zero_disp":
                    r0 = outcome(lambda: a0.set_zero_residual_displacement())
                    r1 = outcome(lambda: a1.set_zero_residual_displacement())
                elif op == "zero_both":
                    r0 = outcome(lambda: a0.set_zero_residual_displacement_and_velocity())
                    r1 = outcome(lambda: a1.set_zero_residual_displacement_and_velocity())
                elif op == "zero_both_tz":
                    tz = (dt, None) if rng.random() < 0.5 else (dt, dt * max(2, npts // 2))
                    r0 = outcome(lambda: a0.set_zero_residual_displacement_and_velocity(timezone=tz))
                    r1 = outcome(lambda: a1.set_zero_residual_displacement_and_velocity(timezone=tz))
                elif op == "clear":
                    r0, r1 = outcome(lambda: a0.clear_cache()), outcome(lambda: a1.clear_cache())
                elif op == "poke_vel":  # callers may write into the returned (uncopied) array
                    def poke(a):
                        a.velocity[-1] += 0.5
                    r0, r1 = outcome(lambda: poke(a0)), outcome(lambda: poke(a1))
                elif op == "poke_disp":
                    def poke(a):
                        a.displacement[0] -= 0.25
                    r0, r1 = outcome(lambda: poke(a0)), outcome(lambda: poke(a1))
                elif op == "poke_values":  # in-place change of the values WITHOUT invalidation: stale cache kept
                    def poke(a):
                        a.values[0] = a.values[0] + 1
                    r0, r1 = outcome(lambda: poke(a0)), outcome(lambda: poke(a1))
                elif op == "cav":
                    r0 = outcome(lambda: (orig.im.calc_cav(a0) if hasattr(orig.im, "calc_cav") else None,
                                          orig.im.calc_cum_abs_delta_velocity(a0)
                                          if hasattr(orig.im, "calc_cum_abs_delta_velocity") else None))
                    r1 = outcome(lambda: (new.im.calc_cav(a1) if hasattr(new.im, "calc_cav") else None,
                                          new.im.calc_cum_abs_delta_velocity(a1)
                                          if hasattr(new.im, "calc_cum_abs_delta_velocity") else None))
                elif op == "rolling":
                    if npts > 300:
                        continue
                    mt = "velocity" if rng.random() < 0.7 else "acceleration"
                    r0 = outcome(lambda: a0.remove_rolling_average(mtype=mt, freq_window=1. / (dt * 4)))
                    r1 = outcome(lambda: a1.remove_rolling_average(mtype=mt, freq_window=1. / (dt * 4)))
                elif op == "correct":
                    if npts > 300:
                        continue
                    r0, r1 = outcome(lambda: a0.correct_me()), outcome(lambda: a1.correct_me())
                else:
                    raise AssertionError(op)
                same(r0, r1, ctx)
                same(state(a0), state(a1), ctx + ("state",))
                assert a0.n_runs == a1.n_runs, ctx + (a0.n_runs, a1.n_runs)
                # handing out the stored arrays never copies and never recomputes when cached
                if a0._cached_disp_and_velo:
                    runs = a0.n_runs
                    assert a0.velocity is a0._velocity and a1.velocity is a1._velocity, ctx
                    assert a0.displacement is a0._displacement and a1.displacement is a1._displacement, ctx
                    assert a0.n_runs == runs and a1.n_runs == runs, ctx

        # ---- plain (non-subclassed) objects, the same short history ------------------------------
        for trial in range(40):
            vals = rng.standard_normal(int(rng.integers(2, 50)))
            dt = float(rng.choice([0.01, 0.1]))
            b0, b1 = orig.AccSignal(vals, dt), new.AccSignal(vals, dt)
            seq = [str(x) for x in rng.choice(["velocity", "displacement", "pgv", "pgd", "pga"], 6)]
            for k, name in enumerate(seq):
                same(getattr(b0, name), getattr(b1, name), ("plain", trial, k, name))
                same(state(b0), state(b1), ("plain", trial, k, name, "state"))
                if k == 2:
                    b0.add_constant(0.1)
                    b1.add_constant(0.1)
                    same(state(b0), state(b1), ("plain", trial, k, "added"))

    print("equiv2: %d comparisons identical" % n_checks)


if __name__ == "__main__":
    main()

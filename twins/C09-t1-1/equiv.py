"""
Equivalence check for twin1 (calc_cav_dp restructured).

Run with twin1.diff applied, cwd = the worktree:
    /venv/bin/python out/equiv1.py
Loads the ORIGINAL eqsig/im.py from git (HEAD) into a fresh module and compares it with the
edited eqsig.im on many inputs. Exit 0 iff everything matches.
"""
import os
import sys
import copy
import types
import subprocess
import warnings

HERE = os.getcwd()
sys.path.insert(0, HERE)

import numpy as np
import eqsig
import eqsig.im as new_im

assert os.path.realpath(eqsig.__file__).startswith(os.path.realpath(HERE)), eqsig.__file__
assert os.path.realpath(new_im.__file__).startswith(os.path.realpath(HERE)), new_im.__file__

warnings.simplefilter("ignore")
np.seterr(all="ignore")


def load_original(relpath, modname):
    src = subprocess.check_output(["git", "show", "HEAD:" + relpath], cwd=HERE).decode()
    mod = types.ModuleType(modname)
    mod.__file__ = "<git HEAD:%s>" % relpath
    mod.__package__ = "eqsig"
    exec(compile(src, mod.__file__, "exec"), mod.__dict__)
    return mod


old_im = load_original("eqsig/im.py", "eqsig._orig_im")
assert old_im.calc_cav_dp is not new_im.calc_cav_dp

FUNCS = ["calc_cav_dp"]
N_CHECKS = 0


def same_value(a, b):
    if type(a) is not type(b):
        return False
    if isinstance(a, np.ndarray):
        return a.dtype == b.dtype and a.shape == b.shape and np.array_equal(a, b, equal_nan=(a.dtype.kind in "fc"))
    if isinstance(a, dict):
        return a.keys() == b.keys() and all(same_value(a[k], b[k]) for k in a)
    if isinstance(a, (list, tuple)):
        return len(a) == len(b) and all(same_value(x, y) for x, y in zip(a, b))
    if isinstance(a, (float, np.floating)):
        return (a == b) or (a != a and b != b)
    try:
        return bool(a == b)
    except Exception:
        return a is b


def run(fn, *args):
    try:
        return ("ok", fn(*args))
    except Exception as e:  # noqa
        return ("exc", type(e), str(e))


def same_outcome(o, n):
    if o[0] != n[0]:
        return False
    if o[0] == "ok":
        return same_value(o[1], n[1])
    if o[1] is not n[1]:
        return False
    if o[1] is IndexError:  # running off the end of the record: only the class is preserved
        return True
    return o[2] == n[2]


def state_of(obj):
    return {k: copy.deepcopy(v) for k, v in vars(obj).items()}


def check_pair(make_obj, label, prepare=None):
    """Build two identical objects, run old on one and new on the other, compare result+state."""
    global N_CHECKS
    for name in FUNCS:
        a = make_obj()
        b = make_obj()
        if prepare is not None:
            prepare(a)
            prepare(b)
        va = copy.deepcopy(a.values)
        o = run(getattr(old_im, name), a)
        n = run(getattr(new_im, name), b)
        assert same_outcome(o, n), (label, name, o, n)
        if hasattr(a, "__dict__"):
            assert same_value(state_of(a), state_of(b)), (label, name, "state differs")
        assert same_value(a.values, va) and same_value(b.values, va), (label, name, "argument mutated")
        # second call on the same objects (cached state)
        o2 = run(getattr(old_im, name), a)
        n2 = run(getattr(new_im, name), b)
        assert same_outcome(o2, n2), (label, name, "second call", o2, n2)
        assert same_outcome(o, o2) and same_outcome(n, n2), (label, name, "not idempotent alike")
        N_CHECKS += 1


def acc(values, dt):
    return lambda: eqsig.AccSignal(copy.deepcopy(values), dt)


rng = np.random.default_rng(20240909)
G = 9.81
DTS = [0.01, 0.005, 0.02, 0.05, 0.1, 0.2, 0.25, 0.5, 1.0, 0.004, 0.002, 0.001, 0.04, 0.025, 0.0125,
       1.0 / 3, 0.3, 0.03, 0.007, 2.0, 1.5, np.float64(0.01), np.float32(0.01), 1]

# 1. random records, amplitudes straddling the 0.025 g gate
for dt in DTS:
    for rep in range(12):
        dur = rng.choice([2.0, 2.5, 3.0, 5.0, 7.3, 12.0, 20.0])
        n = max(int(round(dur / float(dt))) + int(rng.integers(0, 3)), 3)
        amp = rng.choice([0.01, 0.1, 0.2, 0.245, 0.3, 1.0, 5.0])
        env = np.exp(-0.5 * ((np.arange(n) * float(dt) - dur / 2) / (dur / 5)) ** 2)
        vals = amp * env * rng.standard_normal(n)
        check_pair(acc(vals, dt), ("random", dt, rep))
        check_pair(acc(-vals, dt), ("random-neg", dt, rep))
        check_pair(acc(vals * 3.7, dt), ("random-scaled", dt, rep))
        check_pair(acc(np.concatenate([vals, np.zeros(int(rng.integers(1, 400)))]), dt), ("random-padded", dt, rep))
        check_pair(acc(list(vals), dt), ("random-list", dt, rep))
        check_pair(acc(vals.astype(np.float32), dt), ("random-f32", dt, rep))

# 2. integer dtype, zeros, constants, exactly-at-gate values, tiny records
gate = 0.025 * G
for dt in [0.01, 0.1, 0.5, 1.0, 0.2, 0.005]:
    pps = int(round(1 / dt))
    for secs in [2, 3, 4, 9]:
        n = secs * pps + 1
        check_pair(acc(np.zeros(n), dt), ("zeros", dt, secs))
        check_pair(acc(np.zeros(n, dtype=int), dt), ("int zeros", dt, secs))
        check_pair(acc(rng.integers(-3, 4, n), dt), ("ints", dt, secs))
        check_pair(acc(list(map(int, rng.integers(-1, 2, n))), dt), ("int list", dt, secs))
        check_pair(acc(np.full(n, gate), dt), ("gate const", dt, secs))
        check_pair(acc(np.full(n, np.nextafter(gate, 0)), dt), ("below gate const", dt, secs))
        check_pair(acc(np.full(n, np.nextafter(gate, 1)), dt), ("above gate const", dt, secs))
        for g in [0.025, np.nextafter(0.025, 0), np.nextafter(0.025, 1)]:
            v = np.zeros(n)
            v[rng.integers(0, n, size=secs)] = g * G * rng.choice([-1, 1])
            check_pair(acc(v, dt), ("gate spikes", dt, secs, g))
        # spikes exactly on the window boundaries (shared sample between consecutive windows)
        v = np.zeros(n)
        v[::pps] = 0.3
        check_pair(acc(v, dt), ("boundary spikes", dt, secs))
        v = np.zeros(n)
        v[pps - 1::pps] = -0.3
        check_pair(acc(v, dt), ("pre-boundary spikes", dt, secs))
        # one sample more / fewer than a whole number of seconds
        for extra in [-2, -1, 0, 1, 2, pps // 2]:
            m = max(n + extra, 1)
            check_pair(acc(0.5 * rng.standard_normal(m), dt), ("len offsets", dt, secs, extra))

# 3. records shorter than two seconds / one second / single sample / empty (same exceptions)
for dt in [0.01, 0.1, 0.5, 1.0, 2.0]:
    for n in [0, 1, 2, 3, 5, 11, 50, 101, 150]:
        check_pair(acc(rng.standard_normal(n), dt), ("short", dt, n))

# 4. non-finite samples and odd dt values: same result or same exception
for dt in [0.01, 0.1]:
    n = int(3 / dt) + 1
    for bad in [np.nan, np.inf, -np.inf]:
        for pos in [0, 1, n // 2, n - 1, int(1 / dt), int(1 / dt) + 1]:
            v = 0.5 * rng.standard_normal(n)
            v[pos] = bad
            check_pair(acc(v, dt), ("nonfinite", dt, bad, pos))
    check_pair(acc(np.full(n, np.nan), dt), ("all nan", dt))
for dt in [0, 0.0, -0.01, -1.0, np.float64(0.0), np.inf, np.nan, 1e-300, 3.0, 10.0]:
    check_pair(acc(rng.standard_normal(40), dt), ("odd dt", dt))

# 5. duck-typed signals whose time axis is longer than the record (window runs off the end)
def duck(values, dt, t_end):
    def make():
        ns = types.SimpleNamespace()
        ns.values = np.array(values)
        ns.dt = dt
        ns.time = np.arange(0, int(t_end / dt) + 1) * dt
        return ns
    return make


for dt in [0.01, 0.1, 0.5]:
    for n, t_end in [(int(2 / dt), 2), (int(2 / dt) + 1, 3), (5, 4), (int(2.5 / dt), 3.2), (int(3 / dt) + 1, 3)]:
        check_pair(duck(0.4 * rng.standard_normal(n), dt, t_end), ("duck", dt, n, t_end))

# 6. multi-step histories on one object: filters, resets, cached velocity
def history(a):
    _ = a.velocity
    a.butter_pass((0.2, 2.0))
    a.remove_poly(1)
    a.reset_values(a.values * 1.3)


for dt in [0.01, 0.02, 0.1]:
    for rep in range(5):
        n = int(rng.choice([4, 8, 15]) / dt) + int(rng.integers(0, 5))
        vals = rng.choice([0.1, 0.5, 2.0]) * rng.standard_normal(n)
        check_pair(acc(vals, dt), ("history", dt, rep), prepare=history)

# 7. the other anchored functions are untouched by this edit but must still agree
FUNCS = ["calc_arias_intensity", "calc_cav", "calc_cav_dp", "calc_isv", "calc_integral_of_abs_velocity",
         "calc_integral_of_abs_acceleration", "calc_unit_kinetic_energy"]
for dt in [0.01, 0.05, 0.5]:
    for rep in range(4):
        n = int(6 / dt) + 1
        check_pair(acc(rng.standard_normal(n), dt), ("all funcs", dt, rep))

print("equiv1: %d comparisons, all identical" % N_CHECKS)
sys.exit(0)

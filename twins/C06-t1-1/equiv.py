"""
Equivalence check for twin1 (run with twin1.diff applied, cwd = the worktree).

Edited: eqsig/single.py  Signal.gen_fa_spectrum
        eqsig/im.py      max_fa_period

The original package is exported from git (HEAD) into a temp dir under /tmp and imported as a second,
independent set of module objects; original and edited are then compared on many inputs.
Exit status 0 iff everything matches.
"""
import importlib
import io
import os
import shutil
import subprocess
import sys
import tarfile
import tempfile
import warnings

import numpy as np

HERE = os.getcwd()
assert os.path.isdir(os.path.join(HERE, 'eqsig')), 'run with cwd = the worktree'


def _purge():
    for k in [k for k in sys.modules if k == 'eqsig' or k.startswith('eqsig.')]:
        del sys.modules[k]


def load_pkg(root):
    """Imports the eqsig package found under `root` as a fresh set of modules; returns {name: module}"""
    _purge()
    sys.path.insert(0, root)
    try:
        importlib.invalidate_caches()
        import eqsig
        import eqsig.single
        import eqsig.im
        import eqsig.fns.frequency
        assert os.path.realpath(eqsig.__file__).startswith(os.path.realpath(root) + os.sep), eqsig.__file__
        mods = {k: v for k, v in sys.modules.items() if k == 'eqsig' or k.startswith('eqsig.')}
    finally:
        sys.path.remove(root)
    _purge()
    return mods


class using(object):
    """Installs one set of package modules in sys.modules (for the lazy imports done inside functions)"""

    def __init__(self, mods):
        self.mods = mods

    def __enter__(self):
        _purge()
        sys.modules.update(self.mods)

    def __exit__(self, *args):
        _purge()


tmp = tempfile.mkdtemp(prefix='eqsig_orig_', dir='/tmp')
try:
    tar_bytes = subprocess.check_output(['git', 'archive', 'HEAD', 'eqsig'], cwd=HERE)
    tarfile.open(fileobj=io.BytesIO(tar_bytes)).extractall(tmp)
    ORIG = load_pkg(tmp)
    NEW = load_pkg(HERE)
finally:
    pass

# the module under test really differs, the other really is the git version
src_new = open(os.path.join(HERE, 'eqsig', 'single.py')).read()
src_orig = subprocess.check_output(['git', 'show', 'HEAD:eqsig/single.py'], cwd=HERE).decode()
assert src_new != src_orig, 'twin1 is not applied'
assert open(os.path.join(tmp, 'eqsig', 'single.py')).read() == src_orig
assert ORIG['eqsig.single'] is not NEW['eqsig.single']

n_checks = 0


def same(a, b, what):
    """bit-for-bit equality incl. type, dtype and shape"""
    global n_checks
    n_checks += 1
    assert type(a) is type(b), (what, type(a), type(b))
    if isinstance(a, np.ndarray):
        assert a.dtype == b.dtype, (what, a.dtype, b.dtype)
        assert a.shape == b.shape, (what, a.shape, b.shape)
        assert np.array_equal(a, b, equal_nan=True), (what, a, b)
        assert a.tobytes() == b.tobytes(), what
    elif isinstance(a, (float, np.floating)):
        assert (a == b) or (np.isnan(a) and np.isnan(b)), (what, a, b)
    else:
        assert a == b, (what, a, b)


STATE = ('_fa_spectrum', '_fa_freqs', '_cached_fa', '_cached_smooth_fa', '_values', '_npts', '_dt',
         '_smooth_fa_freqs', '_smooth_fa_spectrum')


def same_state(so, sn, what):
    for att in STATE:
        same(getattr(so, att), getattr(sn, att), (what, att))
    assert set(so.__dict__) == set(sn.__dict__), (what, set(so.__dict__) ^ set(sn.__dict__))


def both(f):
    """Runs f(mods) for the original and the edited package; results or exceptions must agree"""
    out = []
    for mods in (ORIG, NEW):
        with using(mods):
            try:
                out.append(('ok', f(mods)))
            except Exception as e:  # noqa
                out.append(('exc', type(e).__name__))
    assert out[0][0] == out[1][0], out
    if out[0][0] == 'exc':
        assert out[0][1] == out[1][1], out
    return out[0], out[1]


def make(mods, kind, values, dt):
    cls = getattr(mods['eqsig.single'], kind)
    return cls(values, dt)


rng = np.random.RandomState(606)
warnings.simplefilter('ignore')

lengths = list(range(2, 70)) + [100, 127, 128, 129, 255, 256, 257, 500, 1000, 1023, 1024, 1025, 4096, 5000]
dts = [0.01, 0.005, 0.02, 0.1, 1.0, 0.0078125, 1. / 3, 2, np.float64(0.004), np.float32(0.01)]


def record(npts, flavour):
    if flavour == 'normal':
        return rng.randn(npts)
    if flavour == 'list':
        return list(rng.randn(npts))
    if flavour == 'int':
        return rng.randint(-50, 50, size=npts)
    if flavour == 'intlist':
        return [int(v) for v in rng.randint(-50, 50, size=npts)]
    if flavour == 'zeros':
        return np.zeros(npts)
    if flavour == 'trailing_zeros':
        v = rng.randn(npts)
        v[npts // 2:] = 0
        return v
    if flavour == 'float32':
        return rng.randn(npts).astype(np.float32)
    if flavour == 'sine':
        return np.sin(2 * np.pi * 1.3 * np.arange(npts) * 0.01)
    if flavour == 'const':
        return np.ones(npts) * 3.5
    if flavour == 'tuple':
        return tuple(rng.randn(npts))
    raise ValueError(flavour)


flavours = ['normal', 'list', 'int', 'intlist', 'zeros', 'trailing_zeros', 'float32', 'sine', 'const', 'tuple']

# 1. default spectrum through the properties, every length, flavour, class
for npts in lengths:
    for iflav, flavour in enumerate(flavours):
        if npts > 300 and flavour in ('list', 'intlist', 'tuple') and npts not in (1000, 1024):
            continue
        values = record(npts, flavour)
        keep = np.array(values).copy()
        dt = dts[(npts + iflav) % len(dts)]
        for kind in ('Signal', 'AccSignal'):
            so = make(ORIG, kind, values, dt)
            sn = make(NEW, kind, values, dt)
            same_state(so, sn, (npts, flavour, kind, 'fresh'))
            # lazily through either property first
            if npts % 2:
                same(so.fa_spectrum, sn.fa_spectrum, (npts, flavour, kind, 'fa_spectrum'))
                same(so.fa_freqs, sn.fa_freqs, (npts, flavour, kind, 'fa_freqs'))
            else:
                same(so.fa_frequencies, sn.fa_frequencies, (npts, flavour, kind, 'fa_frequencies'))
                same(so.fa_spectrum, sn.fa_spectrum, (npts, flavour, kind, 'fa_spectrum'))
            same(so.fa_spectrum_abs, sn.fa_spectrum_abs, (npts, flavour, kind, 'fa_spectrum_abs'))
            same_state(so, sn, (npts, flavour, kind, 'after default'))
            # the cached arrays are fresh objects that own their data in both versions
            for s in (so, sn):
                assert s._fa_spectrum.flags.owndata and s._fa_freqs.flags.owndata
                assert s._fa_spectrum.flags.writeable and s._fa_spectrum.flags.c_contiguous
                assert not np.shares_memory(s._fa_spectrum, s._values)
            # dominant period
            ro, rn = both(lambda mods, so=so, sn=sn: mods['eqsig.im'].max_fa_period(so if mods is ORIG else sn))
            assert ro[0] == 'ok'
            same(ro[1], rn[1], (npts, flavour, kind, 'max_fa_period'))
            same_state(so, sn, (npts, flavour, kind, 'after max_fa_period'))
            # the input is not touched
            assert np.array_equal(np.array(values), keep)
            assert np.array_equal(so.values, sn.values)

# 2. option combinations: p2_plus in 0..3 (and some others), explicit n
for npts in lengths:
    if npts > 1100:
        continue
    values = record(npts, 'normal' if npts % 3 else 'int')
    dt = dts[npts % len(dts)]
    n_opts = [None, npts, npts + 1, npts + 7, 2 * npts, 2 * npts + 1, 3 * npts, max(npts - 1, 1), max(npts // 2, 1), 2, 3,
              64, np.int64(2 * npts), np.int32(npts + 3)]
    for kind in ('Signal', 'AccSignal'):
        for p2_plus in (0, 1, 2, 3, np.int64(2), 1.0, True):
            for n in n_opts:
                if n is not None and p2_plus not in (0, 2):
                    continue

                def run(mods, kind=kind, p2_plus=p2_plus, n=n):
                    s = make(mods, kind, values, dt)
                    ret = s.gen_fa_spectrum(p2_plus=p2_plus, n=n)
                    assert ret is None
                    return s
                ro, rn = both(run)
                assert ro[0] == 'ok', (npts, kind, p2_plus, n, ro)
                same_state(ro[1], rn[1], (npts, kind, p2_plus, n))
                same(ro[1].fa_spectrum, rn[1].fa_spectrum, (npts, kind, p2_plus, n, 'prop'))
                same(ro[1].fa_freqs, rn[1].fa_freqs, (npts, kind, p2_plus, n, 'prop f'))
                mo, mn = both(lambda mods, a=ro[1], b=rn[1]: mods['eqsig.im'].max_fa_period(a if mods is ORIG else b))
                if mo[0] == 'ok':  # (n=1 leaves no bins: argmax raises ValueError, in both versions, checked by both())
                    same(mo[1], mn[1], (npts, kind, p2_plus, n, 'max_fa_period'))
                else:
                    assert n is not None and int(n / 2) == 0, (npts, kind, p2_plus, n, mo)
        # positional / keyword spellings
        for args, kwargs in [((), {}), ((1,), {}), ((0, 50), {}), ((), {'n': 33}), ((2,), {'n': None}), ((), {'p2_plus': 3})]:
            ro, rn = both(lambda mods: (lambda s: (s.gen_fa_spectrum(*args, **kwargs), s)[1])(make(mods, kind, values, dt)))
            assert ro[0] == 'ok'
            same_state(ro[1], rn[1], (npts, kind, args, kwargs))

# 3. invalid options: same exception type, same (untouched) state
for bad in [dict(n=0), dict(n=-4), dict(n=8.0), dict(n='8'), dict(p2_plus=None), dict(p2_plus='1'), dict(n=[8])]:
    def run(mods, bad=bad):
        s = make(mods, 'AccSignal', np.arange(10.), 0.01)
        try:
            s.gen_fa_spectrum(**bad)
        except Exception as e:  # noqa
            return type(e).__name__, s
        return 'no exception', s
    ro, rn = both(run)
    assert ro[0] == 'ok'
    assert ro[1][0] == rn[1][0], (bad, ro[1][0], rn[1][0])
    same_state(ro[1][1], rn[1][1], bad)

# 4. multi-step histories on one object
for trial in range(150):
    npts = int(rng.choice(lengths[:80]))
    values = record(npts, flavours[trial % len(flavours)])
    dt = dts[trial % len(dts)]
    kind = ('Signal', 'AccSignal')[trial % 2]
    so = make(ORIG, kind, values, dt)
    sn = make(NEW, kind, values, dt)
    for step in range(12):
        op = rng.randint(0, 9)
        what = (trial, step, op)
        if op == 0:
            p = int(rng.randint(0, 4))
            so.gen_fa_spectrum(p2_plus=p)
            sn.gen_fa_spectrum(p2_plus=p)
        elif op == 1:
            n = int(rng.randint(2, 3 * npts + 5))
            so.gen_fa_spectrum(n=n)
            sn.gen_fa_spectrum(n=n)
        elif op == 2:
            same(so.fa_spectrum, sn.fa_spectrum, what)
        elif op == 3:
            same(so.fa_freqs, sn.fa_freqs, what)
        elif op == 4:
            new_npts = int(rng.choice(lengths[:80]))
            nv = record(new_npts, flavours[(trial + step) % len(flavours)])
            so.reset_values(nv)
            sn.reset_values(nv)
        elif op == 5:
            so.clear_cache()
            sn.clear_cache()
        elif op == 6:
            so.generate_fa_spectrum()
            sn.generate_fa_spectrum()
        elif op == 7:
            with using(ORIG):
                po = ORIG['eqsig.im'].max_fa_period(so)
            with using(NEW):
                pn = NEW['eqsig.im'].max_fa_period(sn)
            same(po, pn, what)
        elif op == 8:
            same(so.smooth_fa_spectrum, sn.smooth_fa_spectrum, what)
        same_state(so, sn, what)

# 5. the cached spectrum is a new array on each generation (not aliased to the previous one)
for mods in (ORIG, NEW):
    s = make(mods, 'Signal', rng.randn(40), 0.01)
    first = s.fa_spectrum
    first_copy = first.copy()
    s.gen_fa_spectrum(p2_plus=1)
    assert s.fa_spectrum is not first and np.array_equal(first, first_copy)

# 6. max_fa_period on duck-typed objects (only .fa_spectrum and .fa_frequencies are used), ties, zero bin
class Duck(object):
    def __init__(self, fas, freqs):
        self.fa_spectrum = fas
        self.fa_frequencies = freqs


for trial in range(300):
    m = int(rng.randint(1, 40))
    fas = rng.randn(m) + 1j * rng.randn(m)
    if trial % 4 == 0:
        fas[rng.randint(0, m)] = fas[rng.randint(0, m)]  # possible tie
    if trial % 5 == 0:
        fas = np.abs(fas)  # real valued
    if trial % 7 == 0:
        fas[0] = 100.  # peak at the zero-frequency bin -> inf
    if trial % 11 == 0:
        fas = fas * 0
    freqs = np.arange(m) / (2 * m * 0.01)
    po = ORIG['eqsig.im'].max_fa_period(Duck(fas, freqs))
    pn = NEW['eqsig.im'].max_fa_period(Duck(fas, freqs))
    same(po, pn, ('duck', trial))

shutil.rmtree(tmp, ignore_errors=True)
print('equiv1: %i comparisons, all identical' % n_checks)
sys.exit(0)

"""
Equivalence check for twin3 (pseudo_response_spectra / true_response_spectra share one worker).

Run with twin3 applied, cwd = the worktree:
    /venv/bin/python out/equiv3.py

The ORIGINAL package is extracted from git HEAD into a temporary directory and every scenario is executed
in two separate worker processes (original / edited); the pickled outcomes are compared exactly.
"""
import os
import pickle
import subprocess
import sys
import tempfile
import shutil

import numpy as np

HERE = os.path.dirname(os.path.abspath(__file__))
WORKTREE = os.path.dirname(HERE)


# ----------------------------------------------------------------------------------------------------------------------
# worker
# ----------------------------------------------------------------------------------------------------------------------

def freeze(obj):
    """Turn an outcome into something picklable that keeps type / dtype / shape information"""
    if isinstance(obj, np.ndarray):
        return ('ndarray', str(obj.dtype), obj.shape, obj.copy())
    if isinstance(obj, np.generic):
        return ('npscalar', type(obj).__name__, obj.item())
    if isinstance(obj, (list, tuple)):
        return (type(obj).__name__, [freeze(o) for o in obj])
    if isinstance(obj, dict):
        return ('dict', [(k, freeze(obj[k])) for k in sorted(obj)])
    if isinstance(obj, (bool, int, float, str, type(None))):
        return (type(obj).__name__, obj)
    return ('repr', type(obj).__name__, repr(obj))


def sig_state(asig):
    keys = ['_values', '_dt', '_npts', '_response_times', '_cached_response_spectra', '_cached_xi', '_s_a', '_s_v',
            '_s_d', '_cached_fa', '_cached_smooth_fa', '_cached_disp_and_velo', '_cached_params']
    return freeze(dict((k, getattr(asig, k, 'MISSING')) for k in keys))


def attempt(fn):
    try:
        return ('ok', fn())
    except Exception as e:  # noqa
        return ('EXC', type(e).__name__, str(e))


def make_periods(kind, dt, rng):
    if kind == 'lead0_short':
        return [0.0, 2 * dt, 5.9 * dt, 6 * dt, 6.5 * dt, 20 * dt, 1.0]
    if kind == 'lead0_long':
        return [0.0, 0.5, 1.0, 2.0]
    if kind == 'short_only':
        return [1.5 * dt, 3 * dt, 5 * dt]
    if kind == 'mixed':
        return [3 * dt, 6 * dt, 7 * dt, 0.3, 1.1, 4.0]
    if kind == 'long':
        return [0.4, 0.8, 1.6]
    if kind == 'int_periods':
        return [1, 2, 3]
    if kind == 'lead0_int':
        return [0, 1, 2]
    if kind == 'random':
        n = int(rng.integers(1, 8))
        return list(np.sort(rng.uniform(0.5 * dt, 3.0, n)))
    if kind == 'random_lead0':
        n = int(rng.integers(1, 8))
        return [0.0] + list(np.sort(rng.uniform(0.5 * dt, 3.0, n)))
    if kind == 'unsorted':
        return [1.0, 0.02, 0.5, 0.0]
    if kind == 'single':
        return [0.7]
    if kind == 'single_zero':
        return [0.0]
    raise ValueError(kind)


def containerise(periods, container):
    if container == 'list':
        return list(periods)
    if container == 'tuple':
        return tuple(periods)
    if container == 'array':
        return np.array(periods)
    if container == 'float32':
        return np.array(periods, dtype=np.float32)
    raise ValueError(container)


def make_record(kind, n, rng):
    if kind == 'normal':
        return rng.normal(0, 1.0, n)
    if kind == 'zeros':
        return np.zeros(n)
    if kind == 'int':
        return rng.integers(-5, 6, n)
    if kind == 'list':
        return list(rng.normal(0, 1.0, n))
    if kind == 'neg_peak':
        v = rng.normal(0, 0.2, n)
        v[n // 2] = -4.0
        return v
    if kind == 'sine':
        return np.sin(0.3 * np.arange(n)) * 0.7
    raise ValueError(kind)


def run_scenarios(pkg_root):
    sys.path.insert(0, pkg_root)
    import eqsig
    assert os.path.abspath(eqsig.__file__).startswith(os.path.abspath(pkg_root)), eqsig.__file__
    import eqsig.sdof as sdof
    import eqsig.im as im

    # spy on what is handed to the response series routine
    calls = []
    real_nj = sdof.nigam_and_jennings_response

    def spy(acc, dt, periods, xi):
        calls.append([freeze(acc), freeze(dt), freeze(periods), type(periods).__name__, freeze(xi)])
        return real_nj(acc, dt, periods, xi)

    sdof.nigam_and_jennings_response = spy

    out = []
    rng = np.random.default_rng(424242)

    period_kinds = ['lead0_short', 'lead0_long', 'short_only', 'mixed', 'long', 'int_periods', 'lead0_int', 'random',
                    'random_lead0', 'unsorted', 'single', 'single_zero']
    containers = ['list', 'tuple', 'array', 'float32']
    rec_kinds = ['normal', 'zeros', 'int', 'list', 'neg_peak', 'sine']
    dts = [0.002, 0.005, 0.01, 0.02, 0.05, 0.1]
    xis = [0.0, 0.02, 0.05, 0.3, 0.7, 0.99]
    lengths = [2, 3, 5, 17, 64, 201]

    def both(rec, dt, periods, xi, use_kw=False):
        if use_kw:
            return freeze([attempt(lambda: sdof.pseudo_response_spectra(motion=rec, dt=dt, periods=periods, xi=xi)),
                           attempt(lambda: sdof.true_response_spectra(motion=rec, dt=dt, periods=periods, xi=xi))])
        return freeze([attempt(lambda: sdof.pseudo_response_spectra(rec, dt, periods, xi)),
                       attempt(lambda: sdof.true_response_spectra(rec, dt, periods, xi))])

    # 1. systematic over period kinds x containers x record kinds, random other options
    i = 0
    for pk in period_kinds:
        for cont in containers:
            for rk in rec_kinds:
                i += 1
                dt = dts[int(rng.integers(len(dts)))]
                n = lengths[int(rng.integers(len(lengths)))]
                xi = xis[i % len(xis)]
                rec = make_record(rk, n, rng)
                rec_before = freeze(rec)
                periods = containerise(make_periods(pk, dt, rng), cont)
                periods_before = freeze(periods)
                del calls[:]
                res = both(rec, dt, periods, xi, use_kw=bool(i % 2))
                out.append(('fn', pk, cont, rk, dt, n, xi, res, list(calls),
                            same(freeze(rec), rec_before) is None,  # record argument not mutated
                            same(freeze(periods), periods_before) is None,  # periods argument not mutated
                            freeze(rec), freeze(periods)))

    # 2. xi grid incl. xi=0 on periods either side of 6 dt, dt given as int / numpy scalar / float
    rec = rng.normal(0, 1, 300)
    for dt in [0.01, np.float64(0.02), np.float32(0.05), 1]:
        for pk in ['lead0_short', 'mixed', 'short_only', 'lead0_int', 'int_periods']:
            for xi in [0, 0.0, 0.01, 0.05, 0.2, 0.5, 0.9, 0.999, np.float64(0.05)]:
                periods = np.array(make_periods(pk, float(dt), rng))
                out.append(('grid', float(dt), pk, float(xi), both(rec, dt, periods, xi)))

    # 3. periods exactly at / next to the 6 dt cut
    for dt in [0.005, 0.01, 0.02, 0.1, 1. / 3]:
        cut = dt * 6
        periods = [np.nextafter(cut, 0), cut, np.nextafter(cut, 10), 6 * dt, 0.06 * (dt / 0.01), 5.999999 * dt]
        for rk in ['normal', 'neg_peak', 'int', 'zeros']:
            rec = np.asarray(make_record(rk, 120, rng))
            out.append(('cut', dt, rk, both(rec, dt, periods, 0.05), both(rec, dt, [0.0] + periods, 0.0)))

    # 4. many random records
    for rep in range(150):
        n = int(rng.integers(2, 400))
        dt = float(rng.choice(dts))
        rec = rng.normal(0, rng.uniform(0.01, 5), n)
        if rep % 5 == 0:
            rec = rec.astype(np.float32)
        np_ = int(rng.integers(1, 12))
        periods = np.sort(rng.uniform(0.5 * dt, 4.0, np_))
        if rep % 2:
            periods = np.concatenate([[0.0], periods])
        xi = float(rng.uniform(0, 0.99)) if rep % 7 else 0.0
        out.append(('random', rep, both(rec, dt, periods, xi)))

    # 5. out of domain inputs: behaviour (exceptions / nan) must still be the same
    rec = rng.normal(0, 1, 40)
    for periods, xi, dt in [([], 0.05, 0.01), (np.array([]), 0.05, 0.01), ([0.5, 1.0], 1.0, 0.01),
                            ([[0.5, 1.0]], 0.05, 0.01), ('abc', 0.05, 0.01), ([0.5, -1.0], 0.05, 0.01),
                            (0.5, 0.05, 0.01), ([0.5, 0.0, 1.0], 0.05, 0.01), ([0.5], 'x', 0.01), ([], 'x', 0.01),
                            ([0.5], 0.05, 'dt'), ([0.0, 0.0, 1.0], 0.05, 0.01), ([np.nan, 1.0], 0.05, 0.01),
                            ([0.5], 0.05, 0.0), ([0.5], None, 0.01)]:
        out.append(('odd', both(rec, dt, periods, xi)))
    out.append(('odd_rec', both(np.array([]), 0.01, [0.5], 0.05), both(np.array([1.0]), 0.01, [0.0, 0.5], 0.05),
                both(np.ones((2, 5)), 0.01, [0.5], 0.05), both(None, 0.01, [0.5], 0.05),
                both((1.0, -2.0, 0.5), 0.01, [0.5], 0.05), both(np.array([np.nan, 1.0, 2.0]), 0.01, [0.03, 0.5], 0.05)))

    # 6. callers: object api (with histories) and spectrum intensities
    for rep in range(8):
        dt = dts[rep % len(dts)]
        asig = eqsig.AccSignal(rng.normal(0, 1, 160), dt, response_times=[0.0, 3 * dt, 0.3, 1.2] if rep % 2 else None)
        hist = [sig_state(asig), freeze(attempt(lambda: asig.s_a)), freeze(attempt(lambda: asig.s_v)),
                freeze(attempt(lambda: asig.s_d)), sig_state(asig)]
        for ratio in [1, 2, 4, 8]:
            hist.append(freeze(attempt(lambda: asig.gen_response_spectrum(response_times=(0.0, 2 * dt, 7 * dt, 0.9),
                                                                          xi=0.02 * ratio, min_dt_ratio=ratio))))
            hist.append(sig_state(asig))
        asig.reset_values(rng.integers(-4, 5, 60))
        hist.append(freeze(attempt(lambda: asig.s_a)))
        hist.append(sig_state(asig))
        out.append(('asig', rep, hist))
    for rep in range(3):
        asig = eqsig.AccSignal(rng.normal(0, 1, 200), [0.005, 0.01, 0.02][rep])
        out.append(('im', freeze(attempt(lambda: im.calc_asi(asig))), freeze(attempt(lambda: im.calc_vsi(asig))),
                    freeze(attempt(lambda: im.calc_asi(asig, xi=0.0, periods=[0.0, 0.02, 0.5]))),
                    freeze(attempt(lambda: im.calc_vsi(asig, xi=0.2, periods=(0.03, 0.1, 0.5)))),
                    sig_state(asig)))
    return out


# ----------------------------------------------------------------------------------------------------------------------
# comparison
# ----------------------------------------------------------------------------------------------------------------------

def same(a, b, path='root'):
    if type(a) is not type(b):
        return '%s: type %s vs %s' % (path, type(a), type(b))
    if isinstance(a, np.ndarray):
        if a.dtype != b.dtype or a.shape != b.shape:
            return '%s: dtype/shape %s%s vs %s%s' % (path, a.dtype, a.shape, b.dtype, b.shape)
        if a.dtype.kind == 'f':
            if not np.array_equal(a, b, equal_nan=True) or not np.array_equal(np.signbit(a), np.signbit(b)):
                return '%s: values differ (max abs diff %s)' % (path, np.nanmax(abs(a - b)) if a.size else 0)
        elif not np.array_equal(a, b):
            return '%s: values differ' % path
        return None
    if isinstance(a, (list, tuple)):
        if len(a) != len(b):
            return '%s: len %i vs %i' % (path, len(a), len(b))
        for k, (x, y) in enumerate(zip(a, b)):
            r = same(x, y, '%s[%i]' % (path, k))
            if r:
                return r
        return None
    if isinstance(a, float):
        if a != b and not (a != a and b != b):
            return '%s: %r vs %r' % (path, a, b)
        return None
    if a != b:
        return '%s: %r vs %r' % (path, a, b)
    return None


def main():
    tmp = tempfile.mkdtemp(prefix='eqsig_orig_C03_3_', dir='/tmp')
    try:
        subprocess.check_call('git archive HEAD eqsig | tar -x -C %s' % tmp, shell=True, cwd=WORKTREE)
        results = []
        for root in (tmp, WORKTREE):
            ofile = os.path.join(tmp, 'res_%i.pkl' % len(results))
            subprocess.check_call([sys.executable, os.path.abspath(__file__), '--worker', root, ofile], cwd=root)
            with open(ofile, 'rb') as f:
                results.append(pickle.load(f))
        orig, new = results
        assert len(orig) == len(new), (len(orig), len(new))
        n_exc = 0
        for k, (a, b) in enumerate(zip(orig, new)):
            r = same(a, b, 'scenario[%i]' % k)
            if r:
                print('MISMATCH', a[0], r)
                sys.exit(1)
            if 'EXC' in repr(a):
                n_exc += 1
        print('equiv3: %i scenarios identical (%i involve an exception raised identically by both)' % (len(orig),
                                                                                                         n_exc))
    finally:
        shutil.rmtree(tmp, ignore_errors=True)


if __name__ == '__main__':
    if len(sys.argv) > 1 and sys.argv[1] == '--worker':
        import warnings
        warnings.simplefilter('ignore')
        np.seterr(all='ignore')
        res = run_scenarios(sys.argv[2])
        with open(sys.argv[3], 'wb') as f:
            pickle.dump(res, f)
    else:
        main()

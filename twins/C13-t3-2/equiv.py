"""
Equivalence check for twin2 (calc_n_cyc_array_w_power_law: np.vstack + np.searchsorted step lookup instead
of np.insert + scipy interp1d(kind='previous')).

Run with twin2 applied and cwd = the worktree:  /venv/bin/python out/equiv2.py
The ORIGINAL package is extracted from git HEAD into a temporary directory and exercised in a
subprocess; the EDITED package (cwd) is exercised in another subprocess; results are compared
bit-for-bit (type, dtype, shape, bytes), including exceptions and post-call state of the arguments.
"""
import os
import pickle
import shutil
import subprocess
import sys
import tempfile

import numpy as np


def build_records(data_dir):
    rng = np.random.RandomState(1302)
    recs = []

    def add(label, v):
        recs.append((label, v))

    add('doc_int', np.array([0, 2, 1, 2, 0, 1, 0, -1, 0, 1, 0]))
    add('doc_float', np.array([0, 2, 1, 2, 0.3, 1, 0.3, -1, 0.4, 1, 0]))
    add('len2', np.array([0.0, 1.0]))
    add('len2_nonzero_start', np.array([0.5, -1.0]))
    add('len2_int', np.array([3, -4]))
    add('len3', np.array([0.0, 1.0, -1.0]))
    add('len3_same_sign', np.array([1.0, 2.0, 1.5]))
    add('first_is_peak', np.array([3.0, 1.0, -2.0, -1.0, 4.0, 0.0]))
    add('last_is_peak', np.array([0.0, 1.0, -2.0, 0.5, 0.5, 3.0]))
    add('zeros_inside', np.array([0.0, 1.0, 0.0, 0.0, -1.0, 0.0, 0.0, 0.0, 2.0, 0.0]))
    add('lead_zeros', np.array([0.0, 0.0, 0.0, 1.0, -1.0, 0.5, 0.0]))
    add('plateaus', np.array([0.0, 1.0, 1.0, 1.0, -1.0, -1.0, 2.0, 2.0, 0.0]))
    add('all_positive', np.array([1.0, 3.0, 2.0, 5.0, 4.0, 4.5, 1.0]))
    add('all_negative_int', -np.array([1, 3, 2, 5, 4, 6, 1]))
    add('offset', 10.0 + np.sin(np.linspace(0, 12, 100)))
    add('tiny_peaks', np.array([0.0, 1.0, -1.0e-6, 1.0e-6, -1.0, 1.0e-3, -1.0e-3, 0.5]))
    add('sine', np.sin(np.linspace(0, 40, 500)))
    add('decaying', np.exp(-np.linspace(0, 4, 400)) * np.sin(np.linspace(0, 60, 400)))
    add('float32', np.sin(np.linspace(0, 40, 200)).astype(np.float32))
    add('int32', np.array([0, 3, -1, 4, -1, 5, -9, 2, -6, 5, -3, 5], dtype=np.int32))
    add('noncontig', np.sin(np.linspace(0, 40, 600))[::3])
    add('list_float', [0.0, 1.0, -2.0, 0.5])  # abs(list) raises in both
    add('const_zero', np.zeros(5))  # out of domain; same warnings/values expected
    add('const_one', np.ones(4))
    rec = np.loadtxt(os.path.join(data_dir, 'test_motion_dt0p01.txt'), skiprows=2)
    add('real_record', rec)
    add('real_record_short', rec[1000:1800])
    add('real_record_scaled_int', np.round(rec[500:2500] * 1000).astype(int))
    for i in range(60):
        n = int(rng.randint(2, 150))
        kind = i % 5
        if kind == 0:
            v = rng.randn(n)
        elif kind == 1:
            v = rng.randint(-6, 7, size=n)
        elif kind == 2:
            v = np.round(rng.randn(n), 0)
        elif kind == 3:
            v = np.repeat(rng.randn(n), rng.randint(1, 4, size=n))
        else:
            v = np.cumsum(rng.randn(n)) * 0.3
        add('rand%i' % i, v)
    return recs


def build_options():
    opts = []
    bs = [0.3, 1.0, 1, 0.05, 0.051, np.float64(0.34), np.float32(0.5), np.array([0.3]), np.array([0.2, 0.5, 1.0]),
          np.array([0.07, 0.34]), np.linspace(0.06, 1.0, 7), np.array([[0.3, 0.6]]), [0.3, 0.4]]
    for ib, b in enumerate(bs):
        for a_ref in (0.65, 3, np.float64(1.0e-3)):
            for cut_off in ('default', 0, 0.0, 0.01, 0.1, 0.05):
                # thin the grid a little: all cut_offs only for the first a_ref
                if a_ref != 0.65 and cut_off not in ('default', 0.1):
                    continue
                opts.append((ib, b, a_ref, cut_off))
    return opts


def describe(obj):
    """Turn a result into something picklable and exactly comparable"""
    if isinstance(obj, np.ndarray):
        return ('ndarray', type(obj).__name__, str(obj.dtype), obj.shape, np.ascontiguousarray(obj).tobytes())
    if isinstance(obj, np.generic):
        return ('npscalar', type(obj).__name__, obj.tobytes())
    if isinstance(obj, (list, tuple)):
        return (type(obj).__name__, [describe(o) for o in obj])
    return (type(obj).__name__, repr(obj))


def worker(pkg_root, out_path, data_dir):
    sys.path.insert(0, pkg_root)
    import eqsig
    assert os.path.abspath(eqsig.__file__).startswith(os.path.abspath(pkg_root) + os.sep), eqsig.__file__
    import copy
    import warnings
    from eqsig import im
    results = {}
    with warnings.catch_warnings():
        warnings.simplefilter('ignore')
        for label, v in build_records(data_dir):
            for ib, b, a_ref, cut_off in build_options():
                arg = copy.deepcopy(v)
                b_arg = copy.deepcopy(b)
                kwargs = {} if cut_off == 'default' else {'cut_off': cut_off}
                try:
                    res = im.calc_n_cyc_array_w_power_law(arg, a_ref, b_arg, **kwargs)
                    out = ('ok', describe(res))
                    if isinstance(arg, np.ndarray):
                        out += (bool(np.shares_memory(res, arg)),)
                except Exception as e:  # compare exception type and message
                    out = ('exc', type(e).__name__, str(e))
                results[(label, ib, repr(a_ref), repr(cut_off))] = (out, describe(arg), describe(b_arg))
            # positional cut_off and keyword spelling of every parameter
            if isinstance(v, np.ndarray):
                results[(label, 'kw')] = describe(im.calc_n_cyc_array_w_power_law(values=v, a_ref=0.7, b=0.4,
                                                                                  cut_off=0.02))
                results[(label, 'pos')] = describe(im.calc_n_cyc_array_w_power_law(v, 0.7, 0.4, 0.02))
    with open(out_path, 'wb') as f:
        pickle.dump(results, f)


def main():
    here = os.getcwd()
    assert os.path.isdir(os.path.join(here, 'eqsig')), 'run with cwd = the worktree'
    data_dir = os.path.join(here, 'tests', 'unit_test_data')
    tmp = tempfile.mkdtemp(prefix='c13_equiv2_', dir='/tmp')
    try:
        orig_root = os.path.join(tmp, 'orig')
        os.mkdir(orig_root)
        subprocess.check_call('git archive HEAD eqsig | tar -x -C "%s"' % orig_root, shell=True, cwd=here)
        outs = {}
        for tag, root in (('orig', orig_root), ('edit', here)):
            out_path = os.path.join(tmp, tag + '.pkl')
            env = dict(os.environ)
            env.pop('PYTHONPATH', None)
            subprocess.check_call([sys.executable, os.path.abspath(__file__), '--worker', root, out_path, data_dir],
                                  cwd=root, env=env)
            with open(out_path, 'rb') as f:
                outs[tag] = pickle.load(f)
        assert outs['orig'].keys() == outs['edit'].keys()
        n_bad = 0
        n_exc = 0
        for key in outs['orig']:
            if outs['orig'][key] != outs['edit'][key]:
                n_bad += 1
                print('MISMATCH', key)
            elif outs['orig'][key][0][0] == 'exc':
                n_exc += 1
        print('%i comparisons (%i of them matching exceptions), %i mismatches' % (len(outs['orig']), n_exc, n_bad))
        return 1 if n_bad else 0
    finally:
        shutil.rmtree(tmp, ignore_errors=True)


if __name__ == '__main__':
    if len(sys.argv) > 1 and sys.argv[1] == '--worker':
        worker(sys.argv[2], sys.argv[3], sys.argv[4])
    else:
        sys.exit(main())

"""
Equivalence check for twin1 (eqsig/single.py: remove_rolling_average, running_average,
set_zero_residual_velocity restructured).

Run with twin1 applied and cwd = the worktree.  The ORIGINAL package is taken from
`git archive HEAD eqsig` into a temp dir and imported alongside the edited one.
Exit code 0 iff original and edited behave identically on every case.
"""
import importlib
import io
import os
import subprocess
import sys
import tarfile
import tempfile

HERE = os.getcwd()
sys.path.insert(0, HERE)
import numpy as np  # noqa: E402


def _purge():
    saved = {}
    for k in list(sys.modules):
        if k == 'eqsig' or k.startswith('eqsig.'):
            saved[k] = sys.modules.pop(k)
    return saved


def _load_pair():
    _purge()
    new_pkg = importlib.import_module('eqsig')
    importlib.import_module('eqsig.multiple')
    importlib.import_module('eqsig.stockwell')
    importlib.import_module('eqsig.surface')
    assert new_pkg.__file__.startswith(HERE), new_pkg.__file__
    new_mods = _purge()
    tmp = tempfile.mkdtemp(prefix='eqsig_orig_', dir='/tmp')
    blob = subprocess.check_output(['git', 'archive', 'HEAD', 'eqsig'], cwd=HERE)
    tarfile.open(fileobj=io.BytesIO(blob)).extractall(tmp)
    sys.path.insert(0, tmp)
    old_pkg = importlib.import_module('eqsig')
    importlib.import_module('eqsig.multiple')
    importlib.import_module('eqsig.stockwell')
    importlib.import_module('eqsig.surface')
    assert old_pkg.__file__.startswith(tmp), old_pkg.__file__
    old_mods = _purge()
    sys.path.remove(tmp)
    return old_mods, new_mods


OLD, NEW = _load_pair()


def use(mods):
    _purge()
    sys.modules.update(mods)


N_CHECKS = 0


def same(a, b, where):
    """bit-for-bit equality including type/dtype/shape"""
    global N_CHECKS
    N_CHECKS += 1
    if isinstance(a, np.ndarray) or isinstance(b, np.ndarray):
        assert type(a) is type(b), (where, type(a), type(b))
        assert a.dtype == b.dtype, (where, a.dtype, b.dtype)
        assert a.shape == b.shape, (where, a.shape, b.shape)
        assert np.array_equal(a, b, equal_nan=(a.dtype.kind in 'fc')), (where, a, b)
    elif isinstance(a, (tuple, list)):
        assert type(a) is type(b) and len(a) == len(b), (where, a, b)
        for k, (x, y) in enumerate(zip(a, b)):
            same(x, y, '%s[%i]' % (where, k))
    elif isinstance(a, dict):
        assert isinstance(b, dict) and sorted(a) == sorted(b), (where, a, b)
        for k in a:
            same(a[k], b[k], '%s[%r]' % (where, k))
    elif isinstance(a, float) or isinstance(a, np.generic):
        assert type(a) is type(b), (where, type(a), type(b))
        assert a == b or (a != a and b != b), (where, a, b)
    else:
        assert type(a) is type(b) and a == b, (where, a, b)


STATE_KEYS_SKIP = ()


def state(sig):
    d = {}
    for k, v in sorted(vars(sig).items()):
        d[k] = v
    return d


def same_state(s_old, s_new, where):
    same(state(s_old), state(s_new), where + '.__dict__')
    same(s_old.values, s_new.values, where + '.values')
    same(s_old.npts, s_new.npts, where + '.npts')
    same(s_old.time, s_new.time, where + '.time')
    assert s_old.npts == len(s_old.values) and s_new.npts == len(s_new.values), where


def call(fn, *a, **k):
    try:
        return ('ok', fn(*a, **k))
    except Exception as e:  # noqa
        return ('exc', type(e).__name__)


def run_history(cls_name, record, dt, history, where):
    """Build a signal in both packages, apply the same mutator sequence, compare everything after each step.
    Also checks the caller's record and earlier-held references to .values evolve identically."""
    rec_o = record.copy() if isinstance(record, np.ndarray) else list(record)
    rec_n = record.copy() if isinstance(record, np.ndarray) else list(record)
    keep = record.copy() if isinstance(record, np.ndarray) else list(record)
    use(OLD)
    so = getattr(OLD['eqsig'], cls_name)(rec_o, dt)
    use(NEW)
    sn = getattr(NEW['eqsig'], cls_name)(rec_n, dt)
    assert so.values is not rec_o and sn.values is not rec_n
    same_state(so, sn, where + ':init')
    held_o = [so.values]
    held_n = [sn.values]
    for step, (name, args, kwargs) in enumerate(history):
        w = '%s:step%i:%s%r%r' % (where, step, name, args, kwargs)
        if name == 'touch':  # force lazily cached quantities
            for attr in args:
                use(OLD)
                ro = call(getattr, so, attr)
                use(NEW)
                rn = call(getattr, sn, attr)
                same(ro, rn, w + attr)
        elif name == 'reset_values':
            arg_o = args[0].copy() if isinstance(args[0], np.ndarray) else list(args[0])
            arg_n = args[0].copy() if isinstance(args[0], np.ndarray) else list(args[0])
            use(OLD)
            ro = call(so.reset_values, arg_o)
            use(NEW)
            rn = call(sn.reset_values, arg_n)
            same(ro, rn, w)
            same(arg_o, arg_n, w + ':arg')
            same(arg_o, args[0], w + ':arg-unchanged')
            assert so.values is not arg_o and sn.values is not arg_n
        else:
            use(OLD)
            ro = call(lambda: getattr(so, name)(*args, **kwargs))
            use(NEW)
            rn = call(lambda: getattr(sn, name)(*args, **kwargs))
            same(ro, rn, w)
        same_state(so, sn, w)
        # identity behaviour of the values array (in place vs. replaced) must match
        assert (so.values is held_o[-1]) == (sn.values is held_n[-1]), w + ': identity of values array differs'
        held_o.append(so.values)
        held_n.append(sn.values)
        for k, (ho, hn) in enumerate(zip(held_o, held_n)):
            same(ho, hn, w + ':held%i' % k)
        # caller's record never changes
        same(rec_o, keep, w + ':record(old)')
        same(rec_n, keep, w + ':record(new)')
    return so, sn


def records(rng):
    t = np.linspace(0, 6, 301)
    out = [
        ('sine', np.sin(3 * t) * np.exp(-0.2 * t) + 0.05, 0.02),
        ('rand200', rng.standard_normal(200), 0.01),
        ('rand64', rng.standard_normal(64) * 3, 0.05),
        ('rand33f32', rng.standard_normal(33).astype(np.float32), 0.1),
        ('int40', rng.integers(-50, 50, 40), 0.1),
        ('int8_25', rng.integers(-100, 100, 25).astype(np.int8), 0.2),
        ('list_f', [float(x) for x in rng.standard_normal(30)], 0.1),
        ('list_i', [int(x) for x in rng.integers(-9, 9, 21)], 0.25),
        ('zeros', np.zeros(20), 0.1),
        ('short3', np.array([1.0, -2.0, 0.5]), 0.3),
        ('short2', np.array([1.0, -2.0]), 0.5),
        ('short1', np.array([4.0]), 0.5),
        ('strided', rng.standard_normal(80)[::2], 0.04),
    ]
    return out


def main():
    rng = np.random.default_rng(20240501)
    recs = records(rng)
    widths = [1, 2, 3, 4, 5, 8, 11, 40, 1000]
    # ---- running_average on Signal and AccSignal
    for label, rec, dt in recs:
        for cls in ('Signal', 'AccSignal'):
            for w in widths:
                run_history(cls, rec, dt, [('running_average', (), {'width': w})],
                            'RA/%s/%s/w%i' % (cls, label, w))
            run_history(cls, rec, dt, [('running_average', (), {}), ('running_average', (3,), {}),
                                       ('touch', ('fa_spectrum', 'smooth_fa_spectrum'), {}),
                                       ('running_average', (6,), {})],
                        'RA-multi/%s/%s' % (cls, label))
    # ---- remove_rolling_average
    for label, rec, dt in recs:
        for fw in [0.5, 1, 2, 3, 5, 7.5, 20, 1000]:
            for mtype in ('velocity', 'acc', 'other'):
                for cls in ('Signal', 'AccSignal'):
                    hist = [('remove_rolling_average', (), {'mtype': mtype, 'freq_window': fw})]
                    run_history(cls, rec, dt, hist, 'RRA/%s/%s/%s/fw%s' % (cls, label, mtype, fw))
        run_history('AccSignal', rec, dt,
                    [('touch', ('velocity', 'pga', 'pgv'), {}),
                     ('remove_rolling_average', (), {}),
                     ('touch', ('displacement', 'pgd'), {}),
                     ('remove_rolling_average', ('acc', 2), {}),
                     ('remove_rolling_average', ('velocity',), {'freq_window': 1})],
                    'RRA-multi/%s' % label)
    # ---- set_zero_residual_velocity
    for label, rec, dt in recs:
        n = len(rec)
        tzs = [None, (0.0, None), (dt * 2, None), (0.0, dt * max(n - 1, 1)), (dt * 1, dt * max(n // 2, 2)),
               [dt * 1, None], (dt * (n // 3), dt * (n - 1)), (0.0, 0.0), (dt,)]
        for tz in tzs:
            run_history('AccSignal', rec, dt, [('set_zero_residual_velocity', (), {'timezone': tz}),
                                               ('touch', ('velocity', 'displacement', 'pga'), {})],
                        'ZRV/%s/%r' % (label, tz))
            run_history('AccSignal', rec, dt, [('touch', ('pga', 'velocity'), {}),
                                               ('set_zero_residual_velocity', (tz,), {}),
                                               ('set_zero_residual_velocity', (), {})],
                        'ZRV-cached/%s/%r' % (label, tz))
        run_history('Signal', rec, dt, [('set_zero_residual_velocity', (), {})], 'ZRV-Signal/%s' % label)
    # ---- mixed mutator histories with resets (lists and arrays, int and float)
    for label, rec, dt in recs:
        n = len(rec)
        new_f = rng.standard_normal(n + 5)
        new_i = rng.integers(-20, 20, max(n - 1, 1))
        new_l = [float(v) for v in rng.standard_normal(17)]
        hist = [('running_average', (4,), {}),
                ('reset_values', (new_f,), {}),
                ('remove_rolling_average', ('acc', 3), {}),
                ('set_zero_residual_velocity', (), {}),
                ('reset_values', (new_i,), {}),
                ('running_average', (5,), {}),
                ('remove_rolling_average', ('acc', 4), {}),
                ('set_zero_residual_velocity', ((0.0, None),), {}),
                ('reset_values', (new_l,), {}),
                ('touch', ('velocity', 'pga', 's_a'), {}),
                ('remove_rolling_average', (), {}),
                ('running_average', (2,), {}),
                ('set_zero_residual_velocity', ((dt, dt * 9),), {}),
                ('add_constant', (0.5,), {}),
                ('running_average', (7,), {})]
        run_history('AccSignal', rec, dt, hist, 'MIX/%s' % label)
    # random histories
    for trial in range(40):
        n = int(rng.integers(12, 120))
        dt = float(rng.choice([0.005, 0.01, 0.02, 0.1]))
        rec = rng.standard_normal(n) * float(rng.choice([0.1, 1, 10]))
        if trial % 4 == 1:
            rec = rng.integers(-30, 30, n)
        if trial % 4 == 2:
            rec = list(rec)
        hist = []
        for _ in range(int(rng.integers(2, 7))):
            c = int(rng.integers(0, 4))
            if c == 0:
                hist.append(('running_average', (int(rng.integers(1, 15)),), {}))
            elif c == 1:
                hist.append(('remove_rolling_average', (str(rng.choice(['velocity', 'acc'])),
                                                        float(rng.choice([1, 2, 5, 10]))), {}))
            elif c == 2:
                tz = [None, (0.0, None), (dt * 2, dt * (n - 2))][int(rng.integers(0, 3))]
                hist.append(('set_zero_residual_velocity', (tz,), {}))
            else:
                hist.append(('reset_values', (rng.standard_normal(int(rng.integers(10, 90))),), {}))
        run_history('AccSignal', rec, dt, hist, 'RANDOM/%i' % trial)
    print('equiv1: all %i comparisons identical' % N_CHECKS)


if __name__ == '__main__':
    main()

"""Equivalence check for twin2 (calc_roll_av_vals via np.pad edge mode + window-layout helper). Run with twin1 applied, cwd = worktree."""
import os
import re
import subprocess
import sys
import tempfile
import copy
import atexit
import shutil
import warnings
import importlib

import numpy as np

HERE = os.getcwd()
sys.path.insert(0, HERE)


def load_original():
    tmp = tempfile.mkdtemp(prefix='eqsig_orig_C20_', dir='/tmp')
    atexit.register(shutil.rmtree, tmp, True)
    subprocess.check_call('git archive HEAD eqsig | tar -x -C %s' % tmp, shell=True, cwd=HERE)
    os.rename(os.path.join(tmp, 'eqsig'), os.path.join(tmp, 'eqsig_orig'))
    for root, _, files in os.walk(os.path.join(tmp, 'eqsig_orig')):
        for fn in files:
            if fn.endswith('.py'):
                p = os.path.join(root, fn)
                src = open(p).read()
                src = re.sub(r'^(\s*)from eqsig\b', r'\1from eqsig_orig', src, flags=re.M)
                src = re.sub(r'^(\s*)import eqsig\s*$', r'\1import eqsig_orig as eqsig', src, flags=re.M)
                open(p, 'w').write(src)
    sys.path.insert(1, tmp)
    mod = importlib.import_module('eqsig_orig')
    assert mod.__file__.startswith(tmp), mod.__file__
    return mod, tmp


import eqsig as new_pkg
assert new_pkg.__file__.startswith(HERE), new_pkg.__file__
old_pkg, TMP = load_original()
import eqsig.fns.average as new_g
old_g = importlib.import_module('eqsig_orig.fns.average')
assert new_g.__file__.startswith(HERE) and old_g.__file__.startswith(TMP)

N_CHECKS = [0]


def same(a, b, path='res'):
    assert type(a) is type(b), (path, type(a), type(b))
    if isinstance(a, np.ndarray):
        assert a.dtype == b.dtype, (path, a.dtype, b.dtype)
        assert a.shape == b.shape, (path, a.shape, b.shape)
        assert np.array_equal(a, b, equal_nan=(a.dtype.kind in 'fc')), (path, a, b)
    elif isinstance(a, (tuple, list)):
        assert len(a) == len(b), path
        for i, (p, q) in enumerate(zip(a, b)):
            same(p, q, '%s[%d]' % (path, i))
    elif isinstance(a, (float, np.generic)):
        if isinstance(a, np.generic):
            assert a.dtype == b.dtype, (path, a.dtype, b.dtype)
        assert a == b or (a != a and b != b), (path, a, b)
    else:
        assert a == b, (path, a, b)


def call(fn, args, kwargs):
    args = copy.deepcopy(args)
    kwargs = copy.deepcopy(kwargs)
    with warnings.catch_warnings(record=True) as w:
        warnings.simplefilter('always')
        try:
            out = ('ok', fn(*args, **kwargs))
        except Exception as e:  # noqa
            out = ('exc', type(e).__name__)
    return out, args, kwargs, sorted(str(x.category.__name__) for x in w)


def compare(name, fo, fn, *args, **kwargs):
    ro, ao, ko, wo = call(fo, args, kwargs)
    rn, an, kn, wn = call(fn, args, kwargs)
    assert ro[0] == rn[0], (name, ro, rn)
    same(ro[1], rn[1], name)
    same(list(ao), list(an), name + ':args-after')     # identical argument mutation (none expected)
    same(list(ao), list(copy.deepcopy(args)), name + ':args-untouched')
    assert wo == wn, (name, wo, wn)
    N_CHECKS[0] += 1
    return ro


rng = np.random.RandomState(202)

# the public namespaces are unchanged (the new helper is private and not star-exported)
pub = lambda m: sorted(k for k in vars(m) if not k.startswith('_'))
assert pub(new_g) == pub(old_g)
assert pub(new_pkg.fns) == pub(old_pkg.fns)
assert sorted(vars(new_pkg.fns)) == sorted(vars(old_pkg.fns))

MODES = ['forward', 'backward', 'centre', 'center', 'other']


def series():
    yield [4, 4, 4, 4, 1, 1, 1, 1]
    yield [7]
    yield [7.5]
    yield [1, 2]
    yield (3., -1., 2.)
    yield np.array([4, 4, 4, 4, 1, 1, 1, 1])
    yield np.zeros(6)
    yield np.zeros(5, dtype=int)
    yield np.full(9, 3.3)                       # constants are preserved
    yield np.full(4, -2)
    yield np.array([1e308, 1e308, -1e308, 3.0])  # overflow in the running sum
    yield np.array([2 ** 53 + 1, 2 ** 60 + 7, -2 ** 62 + 3, 5], dtype=np.int64)  # ints that are not exact floats
    yield np.array([2 ** 64 - 1, 2 ** 63 + 12345, 17], dtype=np.uint64)
    yield np.array([250, 3, 255, 0, 9], dtype=np.uint8)
    yield np.array([True, False, True, True])
    yield np.array([1.5, -2.25, 3.125, 0.1], dtype=np.float32)
    yield np.array([0.1, 0.2, 0.7], dtype=np.float16)
    yield np.array([-0.0, 0.0, -0.0])
    yield np.array([1.0, np.nan, 2.0, 3.0, 4.0])
    yield np.array([1.0, np.inf, 2.0, -3.0])
    yield np.arange(10.)[::-1]                   # non-contiguous view
    yield np.arange(12.)[::3]
    for n in (1, 2, 3, 4, 5, 8, 13, 50, 301):
        yield rng.normal(size=n)
        yield rng.normal(size=n) * 10 ** rng.uniform(-8, 8, n)
        yield rng.randint(-100, 100, n)
        yield list(rng.uniform(-1, 1, n))
        yield [int(v) for v in rng.randint(0, 9, n)]


for vals in series():
    n = len(vals)
    step_opts = sorted(set([1, 2, 3, 4, 5, n - 1, n, n + 1, n + 4, 2 * n]) | set(range(1, min(n, 12) + 1)))
    for steps in step_opts:
        if steps < 1:
            continue
        for mode in MODES:
            compare('roll', old_g.calc_roll_av_vals, new_g.calc_roll_av_vals, vals, steps, mode)
            compare('roll-kw', old_g.calc_roll_av_vals, new_g.calc_roll_av_vals, vals, steps=steps, mode=mode)
        compare('roll-default', old_g.calc_roll_av_vals, new_g.calc_roll_av_vals, vals, steps)
        # other accepted spellings of the window size
        compare('roll-float-steps', old_g.calc_roll_av_vals, new_g.calc_roll_av_vals, vals, float(steps), 'centre')
        compare('roll-np-steps', old_g.calc_roll_av_vals, new_g.calc_roll_av_vals, vals, np.int64(steps), 'backward')
        compare('roll-str-steps', old_g.calc_roll_av_vals, new_g.calc_roll_av_vals, vals, str(steps), 'forward')

# result never aliases the input; input arrays are left alone (compare() checks the latter)
v = rng.normal(size=7)
for mode in MODES:
    out = new_g.calc_roll_av_vals(v, 1, mode)
    assert not np.shares_memory(out, v) and out.flags.writeable and out.flags.owndata == \
        old_g.calc_roll_av_vals(v, 1, mode).flags.owndata

# invalid window sizes fail with the same exception type
for steps in (0, -1, -3):
    for mode in MODES:
        compare('roll-bad-steps', old_g.calc_roll_av_vals, new_g.calc_roll_av_vals, [1., 2., 3.], steps, mode)
compare('roll-bad-steps', old_g.calc_roll_av_vals, new_g.calc_roll_av_vals, [1., 2., 3.], None)
compare('roll-bad-steps', old_g.calc_roll_av_vals, new_g.calc_roll_av_vals, [1., 2., 3.], 'x')

# untouched neighbours in the same module
for vals in ([4, 5, 4, 4, 1, 1, 2, 1], rng.normal(size=20), -rng.uniform(1, 2, 9)):
    for p in (1, 2):
        for d in (None, 'up', 'down'):
            compare('step-err', old_g.calc_step_fn_vals_error, new_g.calc_step_fn_vals_error, vals, p, d)
    compare('step-vals', old_g.calc_step_fn_steps_vals, new_g.calc_step_fn_steps_vals, np.asarray(vals))

print('equiv2: %d comparisons identical' % N_CHECKS[0])

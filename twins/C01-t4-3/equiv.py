"""
Equivalence check: ORIGINAL eqsig (from git HEAD) vs the EDITED eqsig in the current worktree.

Run with the twin applied and cwd = the worktree:
    cd /tmp/twin4/C01 && /venv/bin/python out/equivK.py

Exit code 0 iff every comparison matches.
"""
import contextlib
import copy
import io
import os
import subprocess
import sys
import tempfile

import numpy as np

WORKTREE = os.getcwd()
BITWISE = True  # every comparison below is bit-for-bit (elementwise operations only change memory layout, values stay bit-identical)


def _purge():
    for name in [m for m in sys.modules if m == 'eqsig' or m.startswith('eqsig.')]:
        del sys.modules[name]


def load_packages():
    tmpdir = tempfile.mkdtemp(prefix='eqsig_orig_', dir='/tmp')
    subprocess.check_call('git archive HEAD eqsig | tar -x -C %s' % tmpdir, shell=True, cwd=WORKTREE)
    sys.path[:] = [p for p in sys.path if p not in ('', WORKTREE, tmpdir)]
    # original
    _purge()
    sys.path.insert(0, tmpdir)
    import eqsig as orig
    import eqsig.sdof
    import eqsig.im
    assert orig.__file__.startswith(tmpdir), orig.__file__
    orig_mods = {'eqsig': orig, 'sdof': sys.modules['eqsig.sdof'], 'im': sys.modules['eqsig.im']}
    sys.path.remove(tmpdir)
    _purge()
    # edited
    sys.path.insert(0, WORKTREE)
    import eqsig as new
    import eqsig.sdof
    import eqsig.im
    assert new.__file__.startswith(WORKTREE), new.__file__
    new_mods = {'eqsig': new, 'sdof': sys.modules['eqsig.sdof'], 'im': sys.modules['eqsig.im']}
    assert orig_mods['sdof'] is not new_mods['sdof']
    return orig_mods, new_mods


N_CHECKS = [0]


def same(x, y, where, flags=True):
    """Strict structural + bitwise equality of two results."""
    N_CHECKS[0] += 1
    tx, ty = type(x), type(y)
    assert (tx.__module__, tx.__qualname__) == (ty.__module__, ty.__qualname__), (where, tx, ty)
    if isinstance(x, np.ndarray):
        assert x.dtype == y.dtype, (where, x.dtype, y.dtype)
        assert x.shape == y.shape, (where, x.shape, y.shape)
        if flags:
            for flag in ('C_CONTIGUOUS', 'F_CONTIGUOUS', 'OWNDATA', 'WRITEABLE'):
                assert x.flags[flag] == y.flags[flag], (where, flag, x.flags[flag], y.flags[flag])
        if x.dtype == object:
            assert x.tolist() == y.tolist(), where
        else:
            # bit-for-bit (distinguishes -0.0 / 0.0 and nan payloads)
            assert np.ascontiguousarray(x).tobytes() == np.ascontiguousarray(y).tobytes(), \
                (where, 'max abs diff', float(np.max(np.abs(x - y))) if x.size else 0.0)
    elif isinstance(x, (tuple, list)):
        assert len(x) == len(y), (where, len(x), len(y))
        for k, (xx, yy) in enumerate(zip(x, y)):
            same(xx, yy, where + '[%i]' % k, flags)
    elif isinstance(x, dict):
        assert sorted(x.keys(), key=str) == sorted(y.keys(), key=str), (where, sorted(x.keys()), sorted(y.keys()))
        for k in x:
            same(x[k], y[k], where + '[%r]' % (k,), flags)
    elif isinstance(x, (float, np.floating)):
        assert np.array(x).tobytes() == np.array(y).tobytes(), (where, x, y)
    elif hasattr(x, '__dict__') and type(x).__module__.startswith('eqsig'):
        same(vars(x), vars(y), where + '.__dict__', flags)
    else:
        assert x == y, (where, x, y)


def call(fn, *args, **kwargs):
    """Return ('ok', result, stdout) or ('exc', type name, message)."""
    buf = io.StringIO()
    try:
        with contextlib.redirect_stdout(buf), np.errstate(all='ignore'):
            res = fn(*args, **kwargs)
    except Exception as e:  # noqa
        return ('exc', type(e).__name__, str(e))
    return ('ok', res, buf.getvalue())


def compare_call(name, f_orig, f_new, args, where):
    """Call both implementations on the very same argument objects (so strides / read-only flags / container
    types are exactly those of the case); compare results, and check after each call that no argument changed."""
    snapshot = copy.deepcopy(args)
    r0 = call(f_orig, *args)
    same(args, snapshot, '%s:%s:args-after-orig' % (where, name), flags=False)
    r1 = call(f_new, *args)
    same(args, snapshot, '%s:%s:args-after-new' % (where, name), flags=False)
    assert r0[0] == r1[0], (where, name, r0[:1] + r0[1:2], r1[:1] + r1[1:2])
    if r0[0] == 'exc':
        assert r0[1] == r1[1], (where, name, r0, r1)
        N_CHECKS[0] += 1
    else:
        same(r0[1], r1[1], '%s:%s:result' % (where, name))
        assert r0[2] == r1[2], (where, name, 'stdout')
        if isinstance(r0[1], tuple):
            # the returned arrays must be independent buffers (of each other and of the inputs) in both versions
            arrs0 = [r for r in r0[1] if isinstance(r, np.ndarray)]
            arrs1 = [r for r in r1[1] if isinstance(r, np.ndarray)]
            for i in range(len(arrs0)):
                for j in range(i + 1, len(arrs0)):
                    assert np.shares_memory(arrs0[i], arrs0[j]) == np.shares_memory(arrs1[i], arrs1[j]), (where, name, i, j)
                for arg in args:
                    if isinstance(arg, np.ndarray):
                        assert np.shares_memory(arrs0[i], arg) == np.shares_memory(arrs1[i], arg), (where, name, i)
    return r0, r1


def make_records(rng):
    recs = []
    for n in (2, 3, 4, 5, 8, 17, 50, 257, 1000):
        recs.append(('randn%i' % n, rng.standard_normal(n) * 10 ** rng.uniform(-6, 4)))
    t = np.arange(800) * 0.01
    recs.append(('sine', np.sin(7.0 * t) * np.exp(-t)))
    recs.append(('zeros', np.zeros(20)))
    recs.append(('negzeros', -np.zeros(7)))
    recs.append(('ones', np.ones(33)))
    recs.append(('spike', np.r_[0., 0., 1e3, np.zeros(40)]))
    recs.append(('list', [0.1, -0.3, 0.25, 0.0, -1.5, 2.0]))
    recs.append(('tuple', (0.1, -0.3, 0.25, 0.0, -1.5, 2.0)))
    recs.append(('intlist', [1, -2, 3, 0, 5]))
    recs.append(('int64', np.array([3, -1, 0, 4, 7, -9, 2], dtype=np.int64)))
    recs.append(('int32', np.array([3, -1, 0, 4, 7, -9, 2], dtype=np.int32)))
    recs.append(('float32', rng.standard_normal(40).astype(np.float32)))
    recs.append(('strided', rng.standard_normal(120)[::3]))
    recs.append(('reversed', rng.standard_normal(30)[::-1]))
    recs.append(('huge', rng.standard_normal(25) * 1e150))
    recs.append(('tiny', rng.standard_normal(25) * 1e-150))
    ro = rng.standard_normal(15)
    ro.setflags(write=False)
    recs.append(('readonly', ro))
    return recs


def make_periods(rng, dt):
    """Period sets with 0.2 <= T/dt <= 2e4, optionally a leading 0, in several container types."""
    out = []
    out.append(np.array([0.2, 1.0, 20.0, 2e4]) * dt)
    out.append(np.array([0.0, 0.2, 1.0, 20.0, 2e4]) * dt)
    out.append(np.sort(dt * 10 ** rng.uniform(np.log10(0.2), np.log10(2e4), size=12)))
    out.append(np.r_[0.0, dt * 10 ** rng.uniform(np.log10(0.2), np.log10(2e4), size=7)])  # unsorted, leading 0
    out.append([dt * 5.0])
    out.append((dt * 3.0, dt * 400.0))
    out.append([0.0, dt * 50.0])
    out.append([0.0])
    out.append(np.array([0.0]))
    out.append(np.linspace(0.3, 5, 9) * dt * 40)
    if dt >= 0.005:
        ints = np.array([1, 2, 5, 10], dtype=np.int64)
        ints = ints[(ints / dt >= 0.2) & (ints / dt <= 2e4)]
        if len(ints):
            out.append(ints)
            out.append(np.r_[0, ints])
            out.append([int(v) for v in ints])
    out.append((dt * np.array([0.5, 2.0, 8.0, 64.0, 512.0]))[::-1])  # descending, negative stride
    out.append((dt * np.array([4.0, 25.0, 100.0])).astype(np.float32))
    return out


def check_functions(orig, new, rng):
    o_sd, n_sd = orig['sdof'], new['sdof']
    recs = make_records(rng)
    dts = [0.01, 0.005, 0.02, 1.0, 1, 1e-4, 0.0123456789, 7.5, np.float64(0.01), np.float32(0.25)]
    xis = [0.05, 0.0, 0, 0.5, 0.99, 0.999999, 1e-9, np.float64(0.2), np.float32(0.1), 0.3141592653589793]
    k = 0
    for dt in dts:
        for periods in make_periods(rng, float(dt)):
            for name, rec in recs:
                k += 1
                # thin the full product a little but keep every record/period/dt combination with >=2 dampings
                for xi in (xis[k % len(xis)], xis[(3 * k + 1) % len(xis)]):
                    where = 'dt=%r periods=%r rec=%s xi=%r' % (dt, periods, name, xi)
                    args = (rec, dt, periods, xi)
                    compare_call('nigam_and_jennings_response', o_sd.nigam_and_jennings_response,
                                 n_sd.nigam_and_jennings_response, args, where)
                    if k % 3 == 0:
                        compare_call('response_series', o_sd.response_series, n_sd.response_series, args, where)
                    if k % 5 == 0:
                        compare_call('pseudo_response_spectra', o_sd.pseudo_response_spectra,
                                     n_sd.pseudo_response_spectra, (np.asarray(rec, dtype=float), dt, periods, xi), where)
                        compare_call('true_response_spectra', o_sd.true_response_spectra,
                                     n_sd.true_response_spectra, (np.asarray(rec, dtype=float), dt, periods, xi), where)
    # fully random sweep
    for trial in range(400):
        n = int(rng.integers(2, 400))
        rec = rng.standard_normal(n) * 10 ** rng.uniform(-3, 3)
        dt = float(10 ** rng.uniform(-4, 1))
        m = int(rng.integers(1, 9))
        periods = dt * 10 ** rng.uniform(np.log10(0.2), np.log10(2e4), size=m)
        if trial % 3 == 0:
            periods = np.r_[0.0, periods]
        xi = float(rng.choice([0.0, rng.uniform(0, 1 - 1e-9), 0.05, 0.02, 0.7]))
        where = 'random trial %i' % trial
        compare_call('nigam_and_jennings_response', o_sd.nigam_and_jennings_response,
                     n_sd.nigam_and_jennings_response, (rec, dt, periods, xi), where)
        compare_call('response_series', o_sd.response_series, n_sd.response_series,
                     (rec.tolist(), dt, periods.tolist(), xi), where)
    # many periods (SIMD main loop + remainder lanes), with and without the leading zero period
    for m in (15, 16, 17, 33, 64, 257):
        for lead in (False, True):
            for n in (2, 3, 9, 120):
                dt = 0.01
                periods = dt * 10 ** rng.uniform(np.log10(0.2), np.log10(2e4), size=m)
                if lead:
                    periods = np.r_[0.0, periods]
                rec = rng.standard_normal(n)
                for xi in (0.0, 0.05, 0.8):
                    compare_call('nigam_and_jennings_response', o_sd.nigam_and_jennings_response,
                                 n_sd.nigam_and_jennings_response, (rec, dt, periods, xi), 'many periods %i %s %i' % (m, lead, n))
    # a long record / many periods (typical real use)
    rec = rng.standard_normal(6000)
    periods = np.linspace(0.0, 5, 101)
    compare_call('response_series', o_sd.response_series, n_sd.response_series, (rec, 0.01, periods, 0.05), 'long')
    compare_call('response_series', o_sd.response_series, n_sd.response_series, (rec, 0.01, periods[1:], 0.0), 'long-nozero')


def check_compute_a_and_b(orig, new, rng):
    o_sd, n_sd = orig['sdof'], new['sdof']
    ws = [6.2831853 / np.array([0.002, 0.01, 0.1, 1.0, 200.0]),
          np.array([3.0]), np.array([]), 6.2831853 / 10 ** rng.uniform(-3, 2, size=40),
          2.5, np.float64(31.4), 6.2831853 / rng.uniform(0.01, 5, size=(3, 4)),
          np.array([1, 2, 30]), np.array([0.5, 4.0], dtype=np.float32)]
    for w in ws:
        for xi in (0.0, 0, 0.05, 0.5, 0.99, np.float64(0.3), np.float32(0.1), 1e-12):
            for dt in (0.01, 1.0, 1, 1e-4, 2.5, np.float64(0.005)):
                compare_call('compute_a_and_b', o_sd.compute_a_and_b, n_sd.compute_a_and_b, (xi, w, dt),
                             'w=%r xi=%r dt=%r' % (w, xi, dt))


def check_out_of_domain_exceptions(orig, new):
    """Not in the property's domain, but the failure mode should not change either."""
    o_sd, n_sd = orig['sdof'], new['sdof']
    rec = np.array([0.1, 0.2, -0.4, 0.0])
    cases = [
        (rec, 0.01, [], 0.05),
        (rec, 0.01, 0.5, 0.05),
        ([], 0.01, [0.5, 1.0], 0.05),
        ([], 0.01, [0.0, 1.0], 0.05),
        ([0.3], 0.01, [0.0, 0.5, 1.0], 0.05),
        (rec, 0.01, [0.5, 0.0, 1.0], 0.05),   # zero period not in the lead
        (rec, 0.01, [0.5, 1.0], 1.0),         # critical damping
        (rec, 0.01, [0.5, 1.0], 1.5),
        (rec, 0.0, [0.5, 1.0], 0.05),
        (rec, 0.01, [-0.5, 1.0], 0.05),
        (rec, 0.01, [[0.5, 1.0]], 0.05),
        (np.ones((2, 3)), 0.01, [0.5, 1.0], 0.05),
        (rec, '0.01', [0.5], 0.05),
        (rec, 0.01, [0.5], None),
        (rec, 0.01, ['a'], 0.05),
        (rec, 0.01, [np.nan, 1.0], 0.05),
        (np.array([np.nan, 1.0, np.inf]), 0.01, [0.0, 1.0], 0.05),
    ]
    for i, args in enumerate(cases):
        compare_call('nigam_and_jennings_response', o_sd.nigam_and_jennings_response,
                     n_sd.nigam_and_jennings_response, args, 'ood case %i' % i)
        compare_call('response_series', o_sd.response_series, n_sd.response_series, args, 'ood case %i' % i)


def check_acc_signal(orig, new, rng):
    """Multi-step histories on AccSignal objects: same returns, same object state after every step."""
    o_eq, n_eq = orig['eqsig'], new['eqsig']
    histories = []
    for trial in range(12):
        n = int(rng.integers(2, 600))
        values = rng.standard_normal(n) * 10 ** rng.uniform(-2, 2)
        dt = float(rng.choice([0.01, 0.005, 0.02, 0.1]))
        rt1 = np.sort(dt * 10 ** rng.uniform(np.log10(4.0), np.log10(2e3), size=int(rng.integers(1, 7))))
        rt2 = np.r_[0.0, rt1 * 1.5]
        histories.append((values, dt, rt1, rt2, trial % 2))
    histories.append((np.array([1, 2, -3, 4, 0, 2]), 0.01, np.array([0.1, 1.0]), [0.0, 0.3], 1))
    histories.append(([0.5, -0.25], 0.02, (0.2, 2.0), [0.0], 0))

    for h, (values, dt, rt1, rt2, verbose) in enumerate(histories):
        so = o_eq.AccSignal(copy.deepcopy(values), dt, verbose=verbose)
        sn = n_eq.AccSignal(copy.deepcopy(values), dt, verbose=verbose)
        so2 = o_eq.AccSignal(copy.deepcopy(values), dt, response_times=copy.deepcopy(rt2), verbose=verbose)
        sn2 = n_eq.AccSignal(copy.deepcopy(values), dt, response_times=copy.deepcopy(rt2), verbose=verbose)
        same(so, sn, 'hist %i: fresh' % h)
        steps = [
            ('response_series', (), {}),
            ('response_series', (), {'response_times': rt1}),
            ('response_series', (), {'xi': 0.2}),
            ('response_series', (rt2, 0.0), {}),
            ('response_series', (), {}),
            ('gen_response_spectrum', (), {}),
            ('response_series', (), {'xi': 0.02}),
            ('gen_response_spectrum', (), {'response_times': rt1, 'xi': 0.1}),
            ('response_series', (), {}),
            ('response_series', (None, -1), {}),
            ('reset_all_motion_stats', (), {}),
            ('response_series', (rt1,), {'xi': 0.99}),
        ]
        for pair_name, (a, b) in (('default', (so, sn)), ('rt-given', (so2, sn2))):
            for k, (meth, args, kwargs) in enumerate(steps):
                where = 'hist %i (%s) step %i %s%r%r' % (h, pair_name, k, meth, args, kwargs)
                k0, k1 = copy.deepcopy(kwargs), copy.deepcopy(kwargs)
                g0, g1 = copy.deepcopy(args), copy.deepcopy(args)
                r0 = call(getattr(a, meth), *g0, **k0)
                r1 = call(getattr(b, meth), *g1, **k1)
                assert r0[0] == r1[0], (where, r0, r1)
                if r0[0] == 'ok':
                    same(r0[1], r1[1], where + ':result')
                    assert r0[2] == r1[2], (where, 'stdout', r0[2], r1[2])
                else:
                    assert r0[1:] == r1[1:], (where, r0, r1)
                same(k0, k1, where + ':kwargs')
                same(g0, g1, where + ':args')
                same(a, b, where + ':state')
                # response_times must be stored by reference exactly as before
                if meth == 'response_series' and 'response_times' in k0:
                    assert (a.response_times is k0['response_times']) == (b.response_times is k1['response_times']), where


def check_downstream(orig, new, rng):
    """Library functions built on the response series must be unaffected."""
    o_eq, n_eq = orig['eqsig'], new['eqsig']
    values = rng.standard_normal(700) * 2.0
    dt = 0.01
    periods = np.array([0.1, 0.5, 1.0, 2.5])
    for name in ('calc_resp_uke_spectrum', 'calc_input_energy_spectrum'):
        for mod in ('sdof',):
            fo = getattr(orig[mod], name, None)
            fn = getattr(new[mod], name, None)
            assert (fo is None) == (fn is None), name
            if fo is None:
                continue
            so = o_eq.AccSignal(values.copy(), dt)
            sn = n_eq.AccSignal(values.copy(), dt)
            r0 = call(fo, so, periods, 0.05)
            r1 = call(fn, sn, periods, 0.05)
            assert r0[0] == r1[0], (name, r0, r1)
            if r0[0] == 'ok':
                same(r0[1], r1[1], name)
            same(so, sn, name + ':state')
    for name in ('calc_max_velocity_period', 'max_acceleration_period', 'calc_unit_kinetic_energy'):
        fo = getattr(orig['im'], name, None)
        fn = getattr(new['im'], name, None)
        assert (fo is None) == (fn is None), name
        if fo is None:
            continue
        so = o_eq.AccSignal(values.copy(), dt)
        sn = n_eq.AccSignal(values.copy(), dt)
        r0 = call(fo, so)
        r1 = call(fn, sn)
        assert r0[0] == r1[0], (name, r0, r1)
        if r0[0] == 'ok':
            same(r0[1], r1[1], name)
        else:
            assert r0[1] == r1[1], (name, r0, r1)
        same(so, sn, name + ':state')


def check_public_api(orig, new):
    import inspect
    for mod, names in (('sdof', ['compute_a_and_b', 'nigam_and_jennings_response', 'response_series',
                                 'pseudo_response_spectra', 'true_response_spectra', 'absmax']),):
        for name in names:
            fo, fn = getattr(orig[mod], name), getattr(new[mod], name)
            assert str(inspect.signature(fo)) == str(inspect.signature(fn)), name
            assert fo.__doc__ == fn.__doc__, name
    mo = orig['eqsig'].AccSignal.response_series
    mn = new['eqsig'].AccSignal.response_series
    assert str(inspect.signature(mo)) == str(inspect.signature(mn))
    assert mo.__doc__ == mn.__doc__


def main():
    orig, new = load_packages()
    rng = np.random.default_rng(20240926)
    check_public_api(orig, new)
    check_compute_a_and_b(orig, new, rng)
    check_functions(orig, new, rng)
    check_out_of_domain_exceptions(orig, new)
    check_acc_signal(orig, new, rng)
    check_downstream(orig, new, rng)
    print('OK: %i comparisons, all identical (bit-for-bit)' % N_CHECKS[0])


if __name__ == '__main__':
    main()
    sys.exit(0)

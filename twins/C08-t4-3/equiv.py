"""Equivalence check for twin3 (AccSignal lazy velocity/displacement and pga/pgv/pgd share private helpers).

Run with twin1 applied, cwd = the worktree.  Loads the ORIGINAL package from
`git archive HEAD` into a temporary directory and compares it in-process with
the edited package found in the current working directory.
"""
import os
import shutil
import subprocess
import sys
import tempfile
import warnings

import numpy as np

HERE = os.getcwd()


def _purge():
    for name in [m for m in sys.modules if m == 'eqsig' or m.startswith('eqsig.')]:
        del sys.modules[name]


def load_both():
    tmp = tempfile.mkdtemp(prefix='c08_orig_', dir='/tmp')
    arch = subprocess.Popen(['git', 'archive', 'HEAD', 'eqsig'], cwd=HERE, stdout=subprocess.PIPE)
    subprocess.check_call(['tar', '-x', '-C', tmp], stdin=arch.stdout)
    arch.wait()
    assert arch.returncode == 0
    _purge()
    sys.path.insert(0, HERE)
    import eqsig as new
    import eqsig.im, eqsig.displacements, eqsig.single  # noqa
    new_mods = {k: v for k, v in sys.modules.items() if k == 'eqsig' or k.startswith('eqsig.')}
    assert os.path.realpath(new.__file__).startswith(os.path.realpath(HERE) + os.sep), new.__file__
    _purge()
    sys.path.remove(HERE)
    sys.path.insert(0, tmp)
    import eqsig as old
    import eqsig.im, eqsig.displacements, eqsig.single  # noqa
    old_mods = {k: v for k, v in sys.modules.items() if k == 'eqsig' or k.startswith('eqsig.')}
    assert os.path.realpath(old.__file__).startswith(os.path.realpath(tmp) + os.sep), old.__file__
    sys.path.remove(tmp)
    return tmp, old_mods, new_mods


N_CHECKS = [0]


def same(a, b, ctx=''):
    """bit-for-bit equality including type, dtype and shape"""
    N_CHECKS[0] += 1
    assert type(a) is type(b), (ctx, type(a), type(b))
    if isinstance(a, np.ndarray):
        assert a.dtype == b.dtype, (ctx, a.dtype, b.dtype)
        assert a.shape == b.shape, (ctx, a.shape, b.shape)
        if a.dtype == object:
            same(a.tolist(), b.tolist(), ctx)
        else:
            assert a.tobytes() == b.tobytes(), (ctx, a, b)
    elif isinstance(a, (tuple, list)):
        assert len(a) == len(b), ctx
        for x, y in zip(a, b):
            same(x, y, ctx)
    elif isinstance(a, np.generic):
        assert a.dtype == b.dtype, (ctx, a.dtype, b.dtype)
        assert a.tobytes() == b.tobytes(), (ctx, a, b)
    elif isinstance(a, float):
        assert repr(a) == repr(b), (ctx, a, b)
    elif isinstance(a, dict):
        assert list(a.keys()) == list(b.keys()), (ctx, a, b)
        for k in a:
            same(a[k], b[k], (ctx, k))
    else:
        assert a == b, (ctx, a, b)


def run(fn, *args, **kwargs):
    """returns ('ok', value, warnings) or ('exc', type, message, warnings)"""
    with warnings.catch_warnings(record=True) as w:
        warnings.simplefilter('always')
        try:
            out = ('ok', fn(*args, **kwargs))
        except Exception as e:  # noqa
            out = ('exc', type(e).__name__, str(e))
    return out + ([(x.category.__name__, str(x.message)) for x in w],)


def snapshot(x):
    if isinstance(x, np.ndarray):
        return x.copy()
    if isinstance(x, (list, tuple)):
        return type(x)(x)
    return x


OUTCOMES = {}


def state(s):
    """complete private state of an AccSignal that the edited code reads or writes"""
    d = dict(s.__dict__)
    return {k: d[k] for k in sorted(d) if not callable(d[k])}


def both(so, sn, action, ctx):
    """applies `action(sig)` to the two objects and compares outcome and state"""
    r_old = run(action, so)
    r_new = run(action, sn)
    OUTCOMES[r_old[0]] = OUTCOMES.get(r_old[0], 0) + 1
    same(r_old, r_new, (ctx, 'result'))
    same(state(so), state(sn), (ctx, 'state'))
    assert list(so.__dict__.keys()) == list(sn.__dict__.keys()), (ctx, 'attribute order')
    return r_old


def main():
    tmp, old_mods, new_mods = load_both()
    try:
        Acc_old, Acc_new = old_mods['eqsig'].AccSignal, new_mods['eqsig'].AccSignal
        assert Acc_old is not Acc_new
        rng = np.random.RandomState(3)

        # public surface of the class is unchanged (only private helpers may be added)
        pub_old = sorted(k for k in dir(Acc_old) if not k.startswith('_'))
        pub_new = sorted(k for k in dir(Acc_new) if not k.startswith('_'))
        assert pub_old == pub_new
        for nm in ('velocity', 'displacement', 'pga', 'pgv', 'pgd'):
            po, pn = getattr(Acc_old, nm), getattr(Acc_new, nm)
            assert isinstance(po, property) and isinstance(pn, property)
            assert po.fset is None and pn.fset is None and po.fdel is None and pn.fdel is None
            assert po.__doc__ == pn.__doc__, nm

        actions = {
            'pga': lambda s: s.pga,
            'pgv': lambda s: s.pgv,
            'pgd': lambda s: s.pgd,
            'velocity': lambda s: s.velocity,
            'displacement': lambda s: s.displacement,
            'gen_trap': lambda s: s.generate_displacement_and_velocity_series(),
            'gen_trap_kw': lambda s: s.generate_displacement_and_velocity_series(trap=True),
            'gen_rect': lambda s: s.generate_displacement_and_velocity_series(trap=False),
            'gen_rect_pos': lambda s: s.generate_displacement_and_velocity_series(False),
            'clear_cache': lambda s: s.clear_cache(),
            'reset_stats': lambda s: s.reset_all_motion_stats(),
            'reset_values_scaled': lambda s: s.reset_values(s.values * -1.75),
            'reset_values_list': lambda s: s.reset_values(list(s.values + 0.25)),
            'reset_values_int': lambda s: s.reset_values(np.round(s.values).astype(int)),
            'reset_values_short': lambda s: s.reset_values(s.values[:max(2, len(s.values) // 2)]),
            'add_constant': lambda s: s.add_constant(0.125),
            'rebase_displacement': lambda s: s.rebase_displacement(),
            'zero_res_velocity': lambda s: s.set_zero_residual_velocity(),
            'zero_res_disp': lambda s: s.set_zero_residual_displacement(),
            'zero_res_both': lambda s: s.set_zero_residual_displacement_and_velocity(),
            'write_velocity': lambda s: s.velocity.__setitem__(0, 3.5),
            'write_displacement': lambda s: s.displacement.__setitem__(-1, -2.5),
            'poke_cache': lambda s: s._cached_params.__setitem__('pgv', 123.0),
            'poke_cache_other': lambda s: s._cached_params.__setitem__('other', 'x'),
            'peak_aliases': lambda s: (s.pga is s._cached_params['pga'], s.pgv is s._cached_params['pgv'],
                                       s.pgd is s._cached_params['pgd']),
            'series_aliases': lambda s: (s.velocity is s._velocity, s.displacement is s._displacement,
                                         s.velocity is s.velocity),
            'set_velocity_fails': lambda s: setattr(s, 'velocity', 1),
            'set_pga_fails': lambda s: setattr(s, 'pga', 1),
            'generate_peak_values': lambda s: s.generate_peak_values(),
            'remove_average': lambda s: s.remove_average(),
            'invalidate_flag': lambda s: setattr(s, '_cached_disp_and_velo', False),
            'break_values': lambda s: setattr(s, '_values', np.array([])),
        }
        names = sorted(k for k in actions if k != 'break_values')
        core = ['pga', 'pgv', 'pgd', 'velocity', 'displacement']

        def record_variants(n):
            v = rng.randn(n) * 10 ** rng.uniform(-3, 3)
            return [v, list(v), tuple(v.tolist()), v.astype(np.float32), np.round(v * 10).astype(int),
                    np.zeros(n), np.full(n, -9.81), np.arange(n) * 0.5 - 1, -np.abs(v), np.abs(v)]

        # 1. every ordering of first accesses on a fresh object
        import itertools
        for n in [2, 3, 7, 50]:
            for values in record_variants(n):
                dt = float(10 ** rng.uniform(-3, 0))
                for order in itertools.permutations(core, 3):
                    so, sn = Acc_old(values, dt), Acc_new(values, dt)
                    same(state(so), state(sn), 'fresh')
                    for a in order + order:
                        both(so, sn, actions[a], ('perm', n, order, a))

        # 2. long random histories
        for trial in range(400):
            n = int(rng.choice([2, 3, 4, 5, 10, 33, 200]))
            values = record_variants(n)[trial % 10]
            dt = [0.01, 0.005, 1.0, 1, 0.1, np.float64(0.02)][trial % 6]
            so, sn = Acc_old(values, dt), Acc_new(values, dt)
            same(state(so), state(sn), 'fresh')
            hist = []
            for step in range(40):
                a = names[rng.randint(len(names))] if rng.rand() < 0.5 else core[rng.randint(len(core))]
                hist.append(a)
                both(so, sn, actions[a], ('history', trial, tuple(hist)))

        # 3. sign reversal / scaling at the object level, alpha in the property's domain
        for n in [2, 5, 64, 1000]:
            for values in record_variants(n):
                for alpha in (1.0, -1.0, 2.0, -0.3, 0.0):
                    so, sn = Acc_old(np.asarray(values) * alpha, 0.01), Acc_new(np.asarray(values) * alpha, 0.01)
                    for a in ('pgd', 'pgv', 'pga', 'velocity', 'displacement', 'gen_rect', 'pgd', 'pgv',
                              'clear_cache', 'pgv', 'pgd', 'pga'):
                        both(so, sn, actions[a], ('alpha', n, alpha, a))

        # 4. a subclass that overrides the integration hook is still honoured by the lazy properties
        def make_sub(base):
            class Sub(base):
                calls = 0

                def generate_displacement_and_velocity_series(self, trap=False):
                    type(self).calls += 1
                    super(Sub, self).generate_displacement_and_velocity_series(trap=trap)
            return Sub
        Sub_old, Sub_new = make_sub(Acc_old), make_sub(Acc_new)
        v = rng.randn(30)
        so, sn = Sub_old(v, 0.02), Sub_new(v, 0.02)
        for a in ('pgv', 'pgd', 'velocity', 'displacement', 'clear_cache', 'displacement', 'pgd', 'pgv', 'pga'):
            both(so, sn, actions[a], ('subclass', a))
            assert Sub_old.calls == Sub_new.calls, a

        # 4b. failure while (re)computing leaves the same state behind
        for first in core:
            so, sn = Acc_old(v, 0.02), Acc_new(v, 0.02)
            for a in (first, 'break_values', 'pga', 'pgv', 'clear_cache', 'pga', 'pgv', 'pgd', 'velocity'):
                both(so, sn, actions[a], ('broken', first, a))

        # 5. other AccSignal-level consumers of the lazy series
        im_old, im_new = old_mods['eqsig.im'], new_mods['eqsig.im']
        for n in [10, 200]:
            v = rng.randn(n)
            so, sn = Acc_old(v, 0.01), Acc_new(v, 0.01)
            same(run(im_old.calc_cav, so), run(im_new.calc_cav, sn), 'cav')
            both(so, sn, lambda s: s.remove_rolling_average(mtype='velocity', freq_window=5), 'rolling')
            both(so, sn, actions['pgv'], 'pgv after rolling')
        print('equiv3: %d comparisons identical; action outcomes %r' % (N_CHECKS[0], OUTCOMES))
    finally:
        shutil.rmtree(tmp, ignore_errors=True)


if __name__ == '__main__':
    main()

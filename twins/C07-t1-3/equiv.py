"""
Equivalence check for twin3 (C07): eqsig/single.py, Signal smoothing-frequency setters and gen_smooth_fa_spectrum.

Run with twin3 applied, cwd = the worktree.  The ORIGINAL package is taken from git (HEAD) into a
temporary directory and imported side by side with the edited one.  Exit status 0 iff all comparisons match.
"""
import atexit
import io
import os
import shutil
import subprocess
import sys
import tarfile
import tempfile
import warnings

import numpy as np

WT = os.path.abspath(os.getcwd())


def _purge():
    for name in [m for m in sys.modules if m == 'eqsig' or m.startswith('eqsig.')]:
        del sys.modules[name]


def _load(root):
    """Import the eqsig package found under `root` and hand back its modules (removed from sys.modules again)."""
    _purge()
    sys.path.insert(0, root)
    try:
        import importlib
        pkg = importlib.import_module('eqsig')
        assert os.path.abspath(pkg.__file__).startswith(root + os.sep), (pkg.__file__, root)
        mods = {'eqsig': pkg}
        for sub in ('eqsig.fns.frequency', 'eqsig.single', 'eqsig.im'):
            mods[sub] = importlib.import_module(sub)
    finally:
        sys.path.remove(root)
        _purge()
    return mods


def load_both():
    tmp = tempfile.mkdtemp(prefix='c07_orig_', dir='/tmp')
    atexit.register(shutil.rmtree, tmp, True)
    blob = subprocess.check_output(['git', 'archive', 'HEAD', 'eqsig'], cwd=WT)
    tarfile.open(fileobj=io.BytesIO(blob)).extractall(tmp)
    new = _load(WT)
    old = _load(os.path.realpath(tmp))
    assert new['eqsig.fns.frequency'].__file__ != old['eqsig.fns.frequency'].__file__
    return old, new


N_CHECKS = [0]


def outcome(fn, *args, **kwargs):
    with warnings.catch_warnings():
        warnings.simplefilter('ignore')
        with np.errstate(all='ignore'):
            try:
                return 'ok', fn(*args, **kwargs)
            except Exception as exc:  # noqa
                return 'err', (type(exc).__name__, str(exc))


def same_value(a, b, where):
    if isinstance(a, tuple) or isinstance(b, tuple):
        assert type(a) is type(b) and len(a) == len(b), where
        for x, y in zip(a, b):
            same_value(x, y, where)
        return
    assert type(a) is type(b), (where, type(a), type(b))
    if isinstance(a, np.ndarray) or isinstance(a, np.generic):
        assert a.dtype == b.dtype, (where, a.dtype, b.dtype)
        assert np.shape(a) == np.shape(b), (where, np.shape(a), np.shape(b))
        if a.dtype.kind in 'fc':
            assert np.array_equal(a, b, equal_nan=True), (where, a, b)
        else:
            assert np.array_equal(a, b), (where, a, b)
    else:
        assert a == b, (where, a, b)


def compare(old_fn, new_fn, make_args, where):
    """make_args() -> (args, kwargs); called twice so that each side gets private copies"""
    args_o, kw_o = make_args()
    args_n, kw_n = make_args()
    keep_o, _ = make_args()
    res_o = outcome(old_fn, *args_o, **kw_o)
    res_n = outcome(new_fn, *args_n, **kw_n)
    assert res_o[0] == res_n[0], (where, res_o, res_n)
    if res_o[0] == 'err':
        assert res_o[1] == res_n[1], (where, res_o, res_n)
    else:
        same_value(res_o[1], res_n[1], where)
    # identical (non-)mutation of the arguments
    for x_o, x_n, x_k in zip(args_o, args_n, keep_o):
        if isinstance(x_k, np.ndarray):
            same_value(x_o, x_n, where + ' [arg]')
            same_value(x_o, x_k, where + ' [arg untouched]')
        elif isinstance(x_k, list):
            assert x_o == x_n == x_k, where
    N_CHECKS[0] += 1
    return res_o


STATE_ATTRS = ('_smooth_fa_spectrum', '_smooth_fa_freqs', '_cached_smooth_fa', '_cached_fa', '_fa_spectrum', '_fa_freqs',
               '_values', '_npts', '_smooth_freq_range', '_smooth_freq_points')


def same_state(so, sn, where):
    for attr in STATE_ATTRS:
        a, b = getattr(so, attr), getattr(sn, attr)
        if isinstance(a, list) or isinstance(b, list):
            assert type(a) is type(b) and a == b, (where, attr, a, b)
        else:
            same_value(a, b, where + ' ' + attr)
    assert sorted(vars(so)) == sorted(vars(sn)), (where, sorted(vars(so)), sorted(vars(sn)))


def clone(x):
    if isinstance(x, np.ndarray):
        return x.copy()
    if isinstance(x, list):
        return list(x)
    return x


def apply(s, op, arg, mods):
    """One step of a history on one object; returns (outcome, identity facts)"""
    facts = []
    arg = clone(arg)
    if op == 'get':
        r = outcome(lambda: s.smooth_fa_spectrum)
        r2 = outcome(lambda: s.smooth_fa_spectrum)
        facts.append(r[0] == 'ok' and r[1] is r2[1] and r[1] is s._smooth_fa_spectrum)  # cached object handed out
    elif op == 'get_freqs':
        r = outcome(lambda: (s.smooth_fa_freqs, s.smooth_fa_frequencies))
        facts.append(r[0] == 'ok' and r[1][0] is r[1][1] and r[1][0] is s._smooth_fa_freqs)
    elif op == 'gen':
        kw = dict(arg)
        r = outcome(s.gen_smooth_fa_spectrum, **kw)
        if kw.get('smooth_fa_freqs') is not None:
            facts.append(s._smooth_fa_freqs is kw['smooth_fa_freqs'])  # stored as given (no copy)
    elif op == 'gen_pos':
        r = outcome(s.gen_smooth_fa_spectrum, *arg)
    elif op == 'generate':
        r = outcome(s.generate_smooth_fa_spectrum, **dict(arg))
    elif op == 'set_freqs':
        r = outcome(setattr, s, 'smooth_fa_freqs', arg)
        if r[0] == 'ok':
            facts.append(s._smooth_fa_freqs is not arg and s._smooth_fa_freqs.dtype == float)
            if isinstance(arg, np.ndarray):
                facts.append(not np.shares_memory(s._smooth_fa_freqs, arg))
    elif op == 'set_frequencies':
        r = outcome(setattr, s, 'smooth_fa_frequencies', arg)
        if r[0] == 'ok':
            facts.append(s._smooth_fa_freqs is not arg and s._smooth_fa_freqs.dtype == float)
            if isinstance(arg, np.ndarray):
                facts.append(not np.shares_memory(s._smooth_fa_freqs, arg))
    elif op == 'by_range':
        r = outcome(s.set_smooth_fa_frequecies_by_range, *arg)
        if r[0] == 'ok' and isinstance(arg[0], np.ndarray):
            facts.append(not np.shares_memory(s._smooth_freq_range, arg[0]))
    elif op == 'by_range_kw':
        r = outcome(s.set_smooth_fa_frequecies_by_range, n_points=arg[1], limits=arg[0])
    elif op == 'dep_range':
        r = outcome(setattr, s, 'smooth_freq_range', arg)
    elif op == 'dep_range_get':
        r = outcome(lambda: s.smooth_freq_range)
    elif op == 'dep_points':
        r = outcome(setattr, s, 'smooth_freq_points', arg)
    elif op == 'dep_points_get':
        r = outcome(lambda: s.smooth_freq_points)
    elif op == 'reset':
        r = outcome(s.reset_values, np.asarray(s.values) * arg + 1)
    elif op == 'clear':
        r = outcome(s.clear_cache)
    elif op == 'gen_fa':
        r = outcome(s.gen_fa_spectrum, **dict(arg))
    elif op == 'bw':
        r = outcome(mods['eqsig.im'].calc_bandwidth_freqs, s, arg)
    elif op == 'sig_range':
        r = outcome(mods['eqsig.fns.frequency'].get_sig_freq_range, s, arg)
    elif op == 'mutate_result':
        # writing into the handed-out cache object behaves the same (it is the stored array)
        def f():
            a = s.smooth_fa_spectrum
            a[0] = 123.0
            return s.smooth_fa_spectrum
        r = outcome(f)
    elif op == 'butter':
        r = outcome(s.butter_pass, arg)
    else:
        raise AssertionError(op)
    return r, facts


def main():
    old, new = load_both()
    rng = np.random.default_rng(73)
    grid_like = np.arange(1, 40) * 0.390625

    history = [
        ('get_freqs', None), ('get', None), ('bw', 0.707),
        ('gen', {'band': 5}), ('get', None), ('gen', {'band': 100}), ('gen', {'band': 37.5}),
        ('gen', {'smooth_fa_freqs': np.logspace(-1, 1.3, 19)}), ('get', None), ('get_freqs', None),
        ('gen', {'smooth_fa_freqs': np.array([1, 2, 4, 8]), 'band': 20}), ('get', None),  # integer dtype kept as given
        ('gen', {'smooth_fa_freqs': grid_like}), ('get', None),  # may coincide with the Fourier grid
        ('gen_pos', (np.array([0.7, 1.4]), 60)), ('get', None),
        ('gen', {'smooth_fa_freqs': [0.5, 1.0, 2.0]}), ('get', None), ('get_freqs', None),  # list: fails alike, state alike
        ('set_freqs', [0.5, 1.0, 2.0]), ('get', None), ('get_freqs', None),
        ('set_frequencies', [0.25, 1, 3]), ('get', None), ('bw', 0.5),
        ('set_frequencies', np.array([2, 3, 5, 7, 11])), ('get', None),
        ('set_freqs', np.array([2, 3, 5, 7, 11])), ('get', None),
        ('set_frequencies', np.logspace(-1, 1, 11)), ('mutate_result', None), ('get', None),
        ('set_frequencies', (0.3, 3.0)), ('get', None),
        ('set_frequencies', 2.0), ('get', None), ('get_freqs', None),  # 0-d: fails alike downstream
        ('set_frequencies', ['a', 'b']), ('get', None), ('get_freqs', None),  # ValueError, state untouched
        ('set_freqs', ['a', 'b']), ('get_freqs', None),
        ('set_frequencies', []), ('get', None),
        ('by_range', ((0.1, 30), 50)), ('get', None), ('sig_range', 15),
        ('by_range', ([0.2, 20.0], 7)), ('get', None),
        ('by_range', (np.array([0.5, 5.0]), 1)), ('get', None),
        ('by_range', (np.array([1, 10]), 4)), ('get', None),
        ('by_range_kw', ((0.05, 45.0), 33)), ('get', None),
        ('by_range', ((0.1, 1.0, 10.0), 5)), ('get_freqs', None),  # only the first two limits are used
        ('by_range', ((0.1,), 5)), ('get_freqs', None), ('get', None),  # IndexError, state alike
        ('by_range', ((0.1, 30), -3)), ('get_freqs', None),  # ValueError, state alike
        ('by_range', ((0.1, 30), 2.5)), ('get_freqs', None),  # TypeError, state alike
        ('by_range', ((0.1, 30), 0)), ('get', None),
        ('by_range', (('x', 'y'), 5)), ('get_freqs', None),
        ('by_range', ((0.1, 30), 50)), ('get', None),
        ('dep_range', (0.2, 12.0)), ('get', None), ('dep_range_get', None),
        ('dep_points', 25), ('get', None), ('dep_points_get', None),
        ('dep_points', 12.9), ('get', None),
        ('reset', 2.0), ('get', None), ('bw', 0.707),
        ('gen_fa', {'p2_plus': 1}), ('get', None), ('clear', None), ('get', None),
        ('gen_fa', {'n': 64}), ('gen', {'band': 40}), ('get', None),
        ('generate', {}), ('generate', {'band': 15}), ('get', None),
        ('butter', (0.5, 10)), ('get', None),
        ('clear', None), ('gen', {'smooth_fa_freqs': np.array([0.9, 1.1])}), ('clear', None), ('get', None),
    ]

    def signals():
        for npts in (2, 3, 8, 100, 257, 1024):
            yield rng.standard_normal(npts), 0.01
            t = np.arange(npts) * 0.02
            yield np.sin(2 * np.pi * 1.3 * t) + 0.3 * np.sin(2 * np.pi * 7.0 * t), 0.02
            yield np.zeros(npts), 0.01
            yield rng.integers(-3, 4, npts), 0.05
            yield list(rng.standard_normal(npts)), 0.005
        yield rng.standard_normal(64), 0.04  # fa grid = k * 0.390625: grid_like hits it exactly

    init_kws = ({}, {'smooth_freq_range': (0.05, 45.0)}, {'smooth_freq_range': [1.0, 2.0]},
                {'smooth_fa_freqs': [0.5, 1.0, 2.0, 4.0, 8.0]}, {'smooth_fa_freqs': np.array([3])},
                {'smooth_fa_freqs': np.logspace(-1, 1, 9), 'smooth_freq_range': (1, 2)})

    for vals, dt in signals():
        for cls_name in ('Signal', 'AccSignal'):
            for kw in init_kws:
                so = getattr(old['eqsig.single'], cls_name)(clone(vals), dt, **{k: clone(v) for k, v in kw.items()})
                sn = getattr(new['eqsig.single'], cls_name)(clone(vals), dt, **{k: clone(v) for k, v in kw.items()})
                where = '%s npts=%d dt=%g kw=%s' % (cls_name, len(vals), dt, sorted(kw))
                same_state(so, sn, where + ' init')
                for k, (op, arg) in enumerate(history):
                    w = where + ' step %d %s' % (k, op)
                    keep = clone(arg)
                    (ro, fo_), (rn, fn_) = apply(so, op, arg, old), apply(sn, op, arg, new)
                    assert ro[0] == rn[0], (w, ro, rn)
                    if ro[0] == 'ok':
                        if ro[1] is not None:
                            same_value(ro[1], rn[1], w)
                    else:
                        assert ro[1] == rn[1], (w, ro, rn)
                    assert fo_ == fn_, (w, fo_, fn_)
                    same_state(so, sn, w)
                    if isinstance(keep, np.ndarray):
                        same_value(arg, keep, w + ' argument untouched')
                    N_CHECKS[0] += 1

    # a fresh random walk over the operations, so that orderings not listed above are exercised too
    pool = [h for h in history if h[0] not in ('butter',)]
    for trial in range(60):
        vals = rng.standard_normal(int(rng.integers(2, 400)))
        dt = float(rng.choice([0.005, 0.01, 0.02, 0.1]))
        cls_name = ('Signal', 'AccSignal')[trial % 2]
        so = getattr(old['eqsig.single'], cls_name)(vals.copy(), dt)
        sn = getattr(new['eqsig.single'], cls_name)(vals.copy(), dt)
        for k in range(40):
            op, arg = pool[int(rng.integers(0, len(pool)))]
            w = 'walk %d step %d %s' % (trial, k, op)
            (ro, fo_), (rn, fn_) = apply(so, op, arg, old), apply(sn, op, arg, new)
            assert ro[0] == rn[0], (w, ro, rn)
            if ro[0] == 'ok':
                if ro[1] is not None:
                    same_value(ro[1], rn[1], w)
            else:
                assert ro[1] == rn[1], (w, ro, rn)
            assert fo_ == fn_, (w, fo_, fn_)
            same_state(so, sn, w)
            N_CHECKS[0] += 1

    print('equiv3: %d comparisons identical' % N_CHECKS[0])
    return 0


if __name__ == '__main__':
    sys.exit(main())

"""
Equivalence check for twin3 (calc_cyc_amp_gm_arrays_w_power_law / calc_cyc_amp_combined_arrays_w_power_law:
functools.partial + map + functools.reduce(operator.mul / operator.add) and a zip loop over the two components
instead of duplicated per-component statements).

Run with twin3 applied and cwd = the worktree:  /venv/bin/python out/equiv3.py
The ORIGINAL package is extracted from git HEAD into a temporary directory and exercised in a
subprocess; the EDITED package (cwd) is exercised in another subprocess; results are compared
bit-for-bit (type, dtype, shape, bytes), including exceptions and post-call state of the arguments.
"""
import os
import pickle
import shutil
import subprocess
import sys
import tempfile

import numpy as np


def build_records(data_dir):
    rng = np.random.RandomState(1303)
    recs = []

    def add(label, v0, v1=None):
        recs.append((label, v0, v1))  # v1 None: use the same object for both components

    add('doc_int', np.array([0, 2, 1, 2, 0, 1, 0, -1, 0, 1, 0]))
    add('doc_float', np.array([0, 2, 1, 2, 0.3, 1, 0.3, -1, 0.4, 1, 0]))
    add('doc_int_vs_float', np.array([0, 2, 1, 2, 0, 1, 0, -1, 0, 1, 0]),
        np.array([0, 2, 1, 2, 0.3, 1, 0.3, -1, 0.4, 1, 0]))
    add('lists', [0.0, 1.0, -2.0, 0.5], [0.5, -1.0, 2.0, -0.5])
    add('int_lists', [0, 1, -2, 3], [1, -1, 2, 0])
    add('list_and_array', [0.0, 1.0, -2.0, 0.5], np.array([0.5, -1.0, 2.0, -0.5]))
    add('len2', np.array([0.0, 1.0]), np.array([1.0, -1.0]))
    add('len2_int', np.array([3, -4]), np.array([-1, 2]))
    add('len3', np.array([0.0, 1.0, -1.0]), np.array([1.0, 1.0, 2.0]))
    add('first_is_peak', np.array([3.0, 1.0, -2.0, -1.0, 4.0, 0.0]), np.array([0.0, 1.0, -2.0, 0.5, 0.5, 3.0]))
    add('zeros_inside', np.array([0.0, 1.0, 0.0, 0.0, -1.0, 0.0, 0.0, 0.0, 2.0, 0.0]))
    add('plateaus', np.array([0.0, 1.0, 1.0, 1.0, -1.0, -1.0, 2.0, 2.0, 0.0]))
    add('offsets', 10.0 + np.sin(np.linspace(0, 12, 100)), -3.0 + np.cos(np.linspace(0, 9, 100)))
    add('sine_cos', np.sin(np.linspace(0, 40, 500)), np.cos(np.linspace(0, 40, 500)))
    add('identical_copies', np.sin(np.linspace(0, 40, 300)), np.sin(np.linspace(0, 40, 300)))
    add('float32', np.sin(np.linspace(0, 40, 200)).astype(np.float32),
        np.cos(np.linspace(0, 40, 200)).astype(np.float32))
    add('float32_vs_64', np.sin(np.linspace(0, 40, 200)).astype(np.float32), np.cos(np.linspace(0, 40, 200)))
    add('int32', np.array([0, 3, -1, 4, -1, 5, -9, 2, -6, 5, -3, 5], dtype=np.int32),
        np.array([2, -7, 1, 8, -2, 8, -1, 8, 2, -8, 4, 5], dtype=np.int32))
    add('noncontig', np.sin(np.linspace(0, 40, 600))[::3], np.cos(np.linspace(0, 40, 600))[::-3])
    add('one_zero_component', np.sin(np.linspace(0, 40, 50)), np.zeros(50))  # degenerate
    add('unequal_lengths', np.sin(np.linspace(0, 40, 50)), np.sin(np.linspace(0, 40, 60)))  # raises in both
    rec = np.loadtxt(os.path.join(data_dir, 'test_motion_dt0p01.txt'), skiprows=2)
    add('real_record_same', rec)
    add('real_record_shifted', rec[1000:3000], rec[1100:3100])
    add('real_record_scaled_int', np.round(rec[500:2500] * 1000).astype(int), np.round(rec[700:2700] * 500).astype(int))
    for i in range(60):
        n = int(rng.randint(2, 150))
        kind = i % 5
        if kind == 0:
            v0, v1 = rng.randn(n), rng.randn(n)
        elif kind == 1:
            v0, v1 = rng.randint(-6, 7, size=n), rng.randint(-6, 7, size=n)
        elif kind == 2:
            v0, v1 = np.round(rng.randn(n), 0), rng.randint(-3, 4, size=n)
        elif kind == 3:
            reps = rng.randint(1, 4, size=n)
            v0, v1 = np.repeat(rng.randn(n), reps), np.repeat(rng.randn(n), reps)
        else:
            v0, v1 = np.cumsum(rng.randn(n)) * 0.3, None
        add('rand%i' % i, v0, v1)
    return recs


def build_options():
    opts = []
    bs = [0.3, 1.0, 1, 0.05, 0.051, np.float64(0.34), np.float32(0.5), np.array([0.3]), np.array([0.2, 0.5, 1.0]),
          np.linspace(0.06, 1.0, 7), [0.3, 0.4]]
    for ib, b in enumerate(bs):
        for n_cyc in (15, 1, 0.5, np.float64(7.3), 1.0e-3):
            opts.append((ib, b, n_cyc))
    return opts


def describe(obj):
    """Turn a result into something picklable and exactly comparable"""
    if isinstance(obj, np.ndarray):
        return ('ndarray', type(obj).__name__, str(obj.dtype), obj.shape, np.ascontiguousarray(obj).tobytes())
    if isinstance(obj, np.generic):
        return ('npscalar', type(obj).__name__, obj.tobytes())
    if isinstance(obj, (list, tuple)):
        return (type(obj).__name__, [describe(o) for o in obj])
    return (type(obj).__name__, repr(obj))


def worker(pkg_root, out_path, data_dir):
    sys.path.insert(0, pkg_root)
    import eqsig
    assert os.path.abspath(eqsig.__file__).startswith(os.path.abspath(pkg_root) + os.sep), eqsig.__file__
    import copy
    import warnings
    from eqsig import im
    results = {}
    fnames = ['calc_cyc_amp_gm_arrays_w_power_law', 'calc_cyc_amp_combined_arrays_w_power_law']
    with warnings.catch_warnings():
        warnings.simplefilter('ignore')
        for label, v0, v1 in build_records(data_dir):
            for ib, b, n_cyc in build_options():
                for fname in fnames:
                    a0 = copy.deepcopy(v0)
                    a1 = a0 if v1 is None else copy.deepcopy(v1)
                    b_arg = copy.deepcopy(b)
                    try:
                        res = getattr(im, fname)(a0, a1, n_cyc, b_arg)
                        out = ('ok', describe(res))
                        if isinstance(a0, np.ndarray) and isinstance(a1, np.ndarray):
                            out += (bool(np.shares_memory(res, a0)), bool(np.shares_memory(res, a1)))
                    except Exception as e:  # compare exception type and message
                        out = ('exc', type(e).__name__, str(e))
                    results[(label, ib, repr(n_cyc), fname)] = (out, describe(a0), describe(a1), describe(b_arg))
            # keyword spelling of every parameter
            for fname in fnames:
                try:
                    out = ('ok', describe(getattr(im, fname)(values0=v0, values1=v0 if v1 is None else v1,
                                                             n_cyc=12, b=0.4)))
                except Exception as e:
                    out = ('exc', type(e).__name__, str(e))
                results[(label, 'kw', fname)] = (out,)
            # the single-component function that the geometric mean builds on is untouched, but check it anyway
            for b in (0.3, np.array([0.2, 0.6])):
                try:
                    out = ('ok', describe(im.calc_cyc_amp_array_w_power_law(v0, n_cyc=9, b=b)))
                except Exception as e:
                    out = ('exc', type(e).__name__, str(e))
                results[(label, 'single', repr(b))] = (out,)
    with open(out_path, 'wb') as f:
        pickle.dump(results, f)


def main():
    here = os.getcwd()
    assert os.path.isdir(os.path.join(here, 'eqsig')), 'run with cwd = the worktree'
    data_dir = os.path.join(here, 'tests', 'unit_test_data')
    tmp = tempfile.mkdtemp(prefix='c13_equiv3_', dir='/tmp')
    try:
        orig_root = os.path.join(tmp, 'orig')
        os.mkdir(orig_root)
        subprocess.check_call('git archive HEAD eqsig | tar -x -C "%s"' % orig_root, shell=True, cwd=here)
        outs = {}
        for tag, root in (('orig', orig_root), ('edit', here)):
            out_path = os.path.join(tmp, tag + '.pkl')
            env = dict(os.environ)
            env.pop('PYTHONPATH', None)
            subprocess.check_call([sys.executable, os.path.abspath(__file__), '--worker', root, out_path, data_dir],
                                  cwd=root, env=env)
            with open(out_path, 'rb') as f:
                outs[tag] = pickle.load(f)
        assert outs['orig'].keys() == outs['edit'].keys()
        n_bad = 0
        n_exc = 0
        for key in outs['orig']:
            if outs['orig'][key] != outs['edit'][key]:
                n_bad += 1
                print('MISMATCH', key)
            elif outs['orig'][key][0][0] == 'exc':
                n_exc += 1
        print('%i comparisons (%i of them matching exceptions), %i mismatches' % (len(outs['orig']), n_exc, n_bad))
        return 1 if n_bad else 0
    finally:
        shutil.rmtree(tmp, ignore_errors=True)


if __name__ == '__main__':
    if len(sys.argv) > 1 and sys.argv[1] == '--worker':
        worker(sys.argv[2], sys.argv[3], sys.argv[4])
    else:
        sys.exit(main())

"""
Equivalence check for twin1 (C17): run WITH twin1.diff applied, cwd = the worktree.

The ORIGINAL package is extracted from git (`git archive HEAD eqsig`) into a temporary directory; the same
battery of cases is executed in two subprocesses (original / edited package first on sys.path) and the pickled
outcomes are compared bit-for-bit (dtype, shape, raw bytes of arrays; object state; argument mutation; exceptions).

Focus of twin1: Signal.butter_pass (staged pipeline with a namedtuple). The other anchored operations
(remove_poly, add_*, running_average, remove_rolling_average) are exercised too, also in multi-step histories.
Exit status 0 iff everything matches.
"""
import os
import pickle
import shutil
import subprocess
import sys
import tempfile
import warnings

FOCUS = 'butter_pass'


# --------------------------------------------------------------------------------------------------------------
# worker side
# --------------------------------------------------------------------------------------------------------------

def _enc(v):
    """Encodes a value into something that pickles and compares exactly"""
    import numpy as np
    if isinstance(v, np.ndarray):
        if v.dtype == object:
            return ('objarr', v.shape, [_enc(x) for x in v.ravel().tolist()])
        return ('arr', str(v.dtype), v.shape, np.ascontiguousarray(v).tobytes())
    if isinstance(v, np.generic):
        return ('npscalar', str(v.dtype), np.asarray(v).tobytes())
    if isinstance(v, (list, tuple)):
        return (type(v).__name__, [_enc(x) for x in v])
    if isinstance(v, dict):
        return ('dict', sorted((str(k), _enc(x)) for k, x in v.items()))
    if isinstance(v, (int, float, str, bool, type(None), complex)):
        return (type(v).__name__, repr(v))
    return ('obj', type(v).__name__)


def _state(obj):
    return _enc(dict(vars(obj)))


def _call(fn, *args, **kwargs):
    try:
        with warnings.catch_warnings(record=True) as w:
            warnings.simplefilter('always')
            out = fn(*args, **kwargs)
        return ('ok', _enc(out), sorted(str(x.category.__name__) + ':' + str(x.message) for x in w))
    except Exception as e:  # the kind and text of the exception are part of the behaviour
        return ('exc', type(e).__name__, str(e))


def _records(np, rng):
    """name -> (values as given to the constructor, dt)"""
    recs = {}
    for n in (28, 30, 64, 100, 127, 128, 129, 777, 1024, 3000):
        recs['rand%i' % n] = (rng.standard_normal(n), 0.01)
    t = np.arange(4000) * 0.005
    recs['sine'] = (np.sin(2 * np.pi * 2.0 * t) + 0.3 * np.cos(2 * np.pi * 11.0 * t), 0.005)
    recs['sine_trend'] = (np.sin(2 * np.pi * 1.3 * t) + 0.2 * t - 0.01 * t ** 2 + 3.0, 0.005)
    recs['zeros'] = (np.zeros(500), 0.01)
    recs['ones'] = (np.ones(333), 0.02)
    recs['int'] = (rng.integers(-50, 50, size=600), 0.01)
    recs['int32'] = (rng.integers(-50, 50, size=260).astype(np.int32), 0.01)
    recs['float32'] = (rng.standard_normal(450).astype(np.float32), 0.01)
    recs['list'] = (list(rng.standard_normal(200)), 0.02)
    recs['intlist'] = ([int(x) for x in rng.integers(-9, 9, size=90)], 0.05)
    recs['tuple'] = (tuple(rng.standard_normal(150)), 0.01)
    recs['short5'] = (rng.standard_normal(5), 0.01)
    recs['short2'] = (np.array([1.0, -2.0]), 0.01)
    recs['short1'] = (np.array([3.5]), 0.01)
    recs['big'] = (1e6 * rng.standard_normal(2048) + 1e8, 0.01)
    recs['tiny'] = (1e-9 * rng.standard_normal(512), 0.004)
    return recs


def _make(eqsig, kind, vals, dt):
    if kind == 'acc':
        return eqsig.AccSignal(vals, dt)
    return eqsig.Signal(vals, dt)


def _given_copy(np, vals):
    return np.array(vals, copy=True) if isinstance(vals, np.ndarray) else type(vals)(vals)


def _same_given(np, before, after):
    if isinstance(before, np.ndarray):
        return before.dtype == after.dtype and before.tobytes() == after.tobytes()
    return before == after


def run_cases(eqsig):
    import numpy as np
    from eqsig.fns import generic
    from eqsig import exceptions  # noqa: F401
    out = []

    def step(label, obj, name, *args, **kwargs):
        """calls a method, records result, state afterwards and whether the values array object was replaced"""
        vid = obj._values
        res = _call(getattr(obj, name), *args, **kwargs)
        out.append((label, res, _state(obj), obj._values is vid, _enc(obj.values), obj.npts, repr(obj.dt)))

    rng = np.random.default_rng(1717)
    recs = _records(np, rng)

    # ---------------- butter_pass -----------------------------------------------------------------------------
    cut_offs = [
        ('band_tuple', (0.1, 15)), ('band_list', [0.5, 10.0]), ('band_arr', np.array([1.0, 20.0])),
        ('band_int', (1, 10)), ('band_intarr', np.array([2, 8])),
        ('low_tuple', (None, 15)), ('low_list', [None, 5.0]), ('low_objarr', np.array([None, 12.0], dtype=object)),
        ('high_tuple', (0.1, None)), ('high_list', [2.0, None]), ('high_objarr', np.array([0.8, None], dtype=object)),
    ]
    gibbs = [None, 'start', 'end', 'mid']
    for rname, (vals, dt) in recs.items():
        for cname, co in cut_offs:
            for order in (1, 2, 3, 4):
                for rg in gibbs:
                    if FOCUS != 'butter_pass' and (order in (2, 3) or rname.startswith('rand1')):
                        continue
                    given = _given_copy(np, vals)
                    co_given = _given_copy(np, co)
                    kind = 'acc' if (order + len(rname)) % 2 else 'sig'
                    s = _make(eqsig, kind, vals, dt)
                    kw = {'filter_order': order}
                    if rg is not None or order % 2:
                        kw['remove_gibbs'] = rg
                    step(('bp', rname, cname, order, rg), s, 'butter_pass', co, **kw)
                    out.append((('bp-args', rname, cname, order, rg), _same_given(np, given, vals),
                                _enc(co) == _enc(co_given)))
    # defaults and the extra options
    for rname in ('rand100', 'rand128', 'rand129', 'sine', 'int', 'list', 'zeros', 'big'):
        vals, dt = recs[rname]
        s = _make(eqsig, 'acc', vals, dt)
        step(('bp-default', rname), s, 'butter_pass')
        for rg in ('start', 'end', 'mid', 'anything-else'):
            for extra in (0, 1, 2, 3):
                for grange in (1, 10, 50, 10 ** 6):
                    s = _make(eqsig, 'sig', vals, dt)
                    step(('bp-opt', rname, rg, extra, grange), s, 'butter_pass', (0.3, 12.0), remove_gibbs=rg,
                         gibbs_extra=extra, gibbs_range=grange, ignored_option=7)
    # invalid / degenerate calls: same exception, same state afterwards
    for rname in ('rand100', 'short5', 'short2', 'short1', 'int'):
        vals, dt = recs[rname]
        for co in (5.0, None, 'ab', (0.1,), (0.1, 5, 9), [None, None], (0.1, 1000.0), (5.0, 1.0), {0: 1, 1: 2}):
            for rg in (None, 'mid'):
                s = _make(eqsig, 'sig', vals, dt)
                step(('bp-bad', rname, repr(co), rg), s, 'butter_pass', co, remove_gibbs=rg)

    # linear combination through the filter (same object filtered twice, caches warm)
    for rname in ('sine', 'rand1024', 'int'):
        vals, dt = recs[rname]
        s = _make(eqsig, 'acc', vals, dt)
        _ = s.fa_spectrum, s.smooth_fa_spectrum, s.velocity, s.s_a
        step(('bp-warm', rname, 1), s, 'butter_pass', [0.2, 9.0], filter_order=3, remove_gibbs='end')
        _ = s.fa_spectrum
        step(('bp-warm', rname, 2), s, 'butter_pass', (None, 4.0), filter_order=2)
        step(('bp-warm', rname, 3), s, 'butter_pass', (0.7, None), remove_gibbs='start', gibbs_extra=2)

    # ---------------- remove_poly (object and array level) -------------------------------------------------
    for rname, (vals, dt) in recs.items():
        for deg in (0, 1, 2, 3, 4):
            if len(vals) == 1 and deg > 0:  # LAPACK only prints noise and fails (identically) for this
                continue
            given = _given_copy(np, vals)
            s = _make(eqsig, 'acc' if deg % 2 else 'sig', vals, dt)
            step(('rp', rname, deg), s, 'remove_poly', deg)
            step(('rp-again', rname, deg), s, 'remove_poly', poly_fit=deg)
            out.append((('rp-fn', rname, deg), _call(generic.remove_poly, vals, deg),
                        _call(generic.remove_poly, vals, poly_fit=deg), _same_given(np, given, vals)))
        s = _make(eqsig, 'sig', vals, dt)
        step(('rp-default', rname), s, 'remove_poly')
        out.append((('rp-fn-default', rname), _call(generic.remove_poly, vals)))

    # many short / awkward records: every length 2..60, values with signed zeros, exact polynomials, big offsets
    for n in range(2, 61):
        base = rng.standard_normal(n)
        xx = np.linspace(-1, 2, n)
        variants = {'rand': base, 'poly': 3.0 - 2.0 * xx + 0.5 * xx ** 3, 'negzero': np.where(base > 0, -0.0, 0.0),
                    'offset': base + 1e9, 'ints': np.arange(n) ** 2, 'lst': [float(v) for v in base],
                    'f32': base.astype(np.float32)}
        for vname, vals in variants.items():
            for deg in range(0, min(5, n)):
                given = _given_copy(np, vals)
                s = _make(eqsig, 'sig' if n % 2 else 'acc', vals, 0.01)
                _ = s.fa_spectrum
                step(('rp-short', n, vname, deg), s, 'remove_poly', deg)
                out.append((('rp-short-fn', n, vname, deg), _call(generic.remove_poly, vals, deg),
                            _same_given(np, given, vals)))

    # ---------------- add_constant / add_series / add_signal -------------------------------------------------
    for rname, (vals, dt) in recs.items():
        n = len(vals)
        for c in (0, 2, -3.5, np.float32(1.5), True):
            s = _make(eqsig, 'sig', vals, dt)
            step(('ac', rname, repr(c)), s, 'add_constant', c)
        series = {'arr': rng.standard_normal(n), 'list': list(rng.standard_normal(n)),
                  'int': rng.integers(-5, 5, size=n), 'short': rng.standard_normal(max(n - 1, 0)),
                  'long': rng.standard_normal(n + 1)}
        for sname, ser in series.items():
            given = _given_copy(np, ser)
            s = _make(eqsig, 'acc', vals, dt)
            _ = s.fa_spectrum
            step(('as', rname, sname), s, 'add_series', ser)
            out.append((('as-args', rname, sname), _same_given(np, given, ser)))
        others = {'same': eqsig.Signal(rng.standard_normal(n), dt), 'acc': eqsig.AccSignal(rng.standard_normal(n), dt),
                  'dt': eqsig.Signal(rng.standard_normal(n), dt * 2), 'len': eqsig.Signal(rng.standard_normal(n + 3), dt),
                  'notsig': rng.standard_normal(n), 'none': None}
        for oname, other in others.items():
            s = _make(eqsig, 'sig', vals, dt)
            before = _state(other) if hasattr(other, '_values') else None
            step(('asig', rname, oname), s, 'add_signal', other)
            after = _state(other) if hasattr(other, '_values') else None
            out.append((('asig-other', rname, oname), before == after, after))

    # ---------------- running_average / remove_rolling_average ------------------------------------------------
    for rname, (vals, dt) in recs.items():
        if FOCUS != 'running_average' and rname in ('rand777', 'rand1024', 'rand3000', 'sine', 'sine_trend', 'big'):
            widths = (1, 2, 5, 24, 25)
        else:
            widths = range(1, 26)
        for w in widths:
            given = _given_copy(np, vals)
            s = _make(eqsig, 'acc' if w % 2 else 'sig', vals, dt)
            _ = s.fa_spectrum
            alias = s.values
            step(('ra', rname, w), s, 'running_average', w)
            out.append((('ra-alias', rname, w), alias is s.values, _enc(alias), _same_given(np, given, vals)))
        s = _make(eqsig, 'sig', vals, dt)
        step(('ra-default', rname), s, 'running_average')
        for w in (2.0, 4.5, 40, 10 ** 4):
            s = _make(eqsig, 'sig', vals, dt)
            step(('ra-odd', rname, w), s, 'running_average', width=w)
    for rname in ('rand100', 'rand129', 'sine', 'int', 'list', 'zeros', 'short5', 'float32'):
        vals, dt = recs[rname]
        for mtype in ('velocity', 'acceleration'):
            for fw in (1, 2, 5, 7.5, 20, 50, 1000):
                s = eqsig.AccSignal(vals, dt)
                step(('rra', rname, mtype, fw), s, 'remove_rolling_average', mtype=mtype, freq_window=fw)

    # ---------------- multi-step histories -----------------------------------------------------------------
    for rname in ('sine_trend', 'rand777', 'int', 'list', 'rand129'):
        vals, dt = recs[rname]
        for kind in ('sig', 'acc'):
            s = _make(eqsig, kind, vals, dt)
            n = s.npts
            _ = s.smooth_fa_spectrum
            step(('h', rname, kind, 1), s, 'remove_poly', 2)
            step(('h', rname, kind, 2), s, 'butter_pass', (0.2, 20.0), filter_order=2, remove_gibbs='mid')
            _ = s.fa_spectrum
            step(('h', rname, kind, 3), s, 'add_constant', 0.25)
            step(('h', rname, kind, 4), s, 'running_average', 7)
            step(('h', rname, kind, 5), s, 'add_series', np.linspace(-1, 1, n))
            step(('h', rname, kind, 6), s, 'add_signal', eqsig.Signal(np.cos(np.arange(n)), dt))
            step(('h', rname, kind, 7), s, 'running_average', 4)
            step(('h', rname, kind, 8), s, 'butter_pass', [None, 10.0], filter_order=1)
            step(('h', rname, kind, 9), s, 'remove_poly', 4)
            step(('h', rname, kind, 10), s, 'butter_pass', (0.5, None), filter_order=4, remove_gibbs='start')
            step(('h', rname, kind, 11), s, 'remove_poly', 0)
            out.append((('h-derived', rname, kind), _enc(s.fa_spectrum), _enc(s.smooth_fa_spectrum), _enc(s.time)))
    return out


def worker(root, dest):
    sys.path.insert(0, root)
    import eqsig
    assert os.path.abspath(eqsig.__file__).startswith(os.path.abspath(root) + os.sep), eqsig.__file__
    res = run_cases(eqsig)
    with open(dest, 'wb') as f:
        pickle.dump(res, f)


# --------------------------------------------------------------------------------------------------------------
# driver side
# --------------------------------------------------------------------------------------------------------------

def main():
    here = os.getcwd()
    assert os.path.isdir(os.path.join(here, 'eqsig')), 'run with cwd = the worktree'
    tmp = tempfile.mkdtemp(prefix='c17_equiv_', dir='/tmp')
    try:
        orig = os.path.join(tmp, 'orig')
        os.mkdir(orig)
        subprocess.check_call('git archive HEAD eqsig | tar -x -C "%s"' % orig, shell=True, cwd=here)
        paths = {}
        env = dict(os.environ, PYTHONDONTWRITEBYTECODE='1')
        env.pop('PYTHONPATH', None)
        for tag, root in (('orig', orig), ('edit', here)):
            dest = os.path.join(tmp, tag + '.pkl')
            subprocess.check_call([sys.executable, os.path.abspath(__file__), '--worker', root, dest], cwd=root, env=env)
            paths[tag] = dest
        with open(paths['orig'], 'rb') as f:
            a = pickle.load(f)
        with open(paths['edit'], 'rb') as f:
            b = pickle.load(f)
    finally:
        shutil.rmtree(tmp, ignore_errors=True)
    bad = 0
    if len(a) != len(b):
        print('different number of outcomes', len(a), len(b))
        bad += 1
    n_exc = 0
    for x, y in zip(a, b):
        if len(x) > 1 and isinstance(x[1], tuple) and x[1] and x[1][0] == 'exc':
            n_exc += 1
        if x != y:
            bad += 1
            if bad < 20:
                j = [k for k in range(min(len(x), len(y))) if x[k] != y[k]]
                j = j[0] if j else 0
                print('MISMATCH at', x[0], 'field', j, '\n   orig:', repr(x[j])[:300], '\n   edit:', repr(y[j])[:300])
    print('%i outcomes compared (%i of them exceptions), %i mismatches' % (len(a), n_exc, bad))
    return 1 if bad else 0


if __name__ == '__main__':
    if len(sys.argv) > 1 and sys.argv[1] == '--worker':
        worker(sys.argv[2], sys.argv[3])
    else:
        sys.exit(main())

"""Equivalence check for twin3 (eqsig/sdof.py: calc_resp_uke_spectrum / calc_input_energy_spectrum
tidied; eqsig/im.py: calc_asi / calc_vsi tidied and the shadowed duplicate calc_vsi removed).

Run with twin3 applied, cwd = the worktree.  Exit 0 iff original and edited agree bit-for-bit.
"""
import os
import subprocess
import sys
import types
import warnings

HERE = os.getcwd()
sys.path.insert(0, HERE)

import numpy as np  # noqa: E402

import eqsig  # noqa: E402
import eqsig.im as new_im  # noqa: E402
import eqsig.sdof as new_sdof  # noqa: E402

assert eqsig.__file__.startswith(HERE), (eqsig.__file__, HERE)


def load_original(relpath, name):
    src = subprocess.check_output(['git', 'show', 'HEAD:' + relpath], cwd=HERE).decode()
    mod = types.ModuleType(name)
    mod.__file__ = '<HEAD:%s>' % relpath
    mod.__package__ = 'eqsig'
    exec(compile(src, mod.__file__, 'exec'), mod.__dict__)
    return mod


old_sdof = load_original('eqsig/sdof.py', 'eqsig._orig_sdof')
old_im = load_original('eqsig/im.py', 'eqsig._orig_im')
old_im.sdof = old_sdof          # the original im on top of the original sdof
assert new_im.sdof is new_sdof

N_CHECKS = 0


def freeze(x):
    if isinstance(x, np.ndarray):
        return ('nd', x.dtype.str, x.shape, x.tobytes())
    if isinstance(x, np.generic):
        return ('npscalar', x.dtype.str, x.tobytes())
    if isinstance(x, float):
        return ('float', np.float64(x).tobytes())
    if isinstance(x, (list, tuple)):
        return (type(x).__name__,) + tuple(freeze(v) for v in x)
    if isinstance(x, dict):
        return ('dict',) + tuple((k, freeze(v)) for k, v in sorted(x.items()))
    if hasattr(x, '__dict__') and not isinstance(x, type):
        return (type(x).__name__, freeze(dict(x.__dict__)))
    return (type(x).__name__, repr(x))


def call(fn, args, kwargs):
    with warnings.catch_warnings(record=True) as wlist:
        warnings.simplefilter('always')
        try:
            out = ('ok', freeze(fn(*args, **kwargs)))
        except Exception as exc:
            out = ('raise', type(exc).__name__, str(exc))
    return out, sorted((w.category.__name__, str(w.message)) for w in wlist)


def compare(mods, fname, args, kwargs=None, ctx=()):
    global N_CHECKS
    kwargs = kwargs or {}
    watched = list(args) + [kwargs[k] for k in sorted(kwargs)]
    s0 = freeze(watched)
    r_old = call(getattr(mods[0], fname), args, kwargs)
    s1 = freeze(watched)
    r_new = call(getattr(mods[1], fname), args, kwargs)
    s2 = freeze(watched)
    ctx = (fname,) + tuple(ctx)
    assert s0 == s1 == s2, ('arguments / signal state changed', ctx)
    assert r_old == r_new, (ctx, r_old, r_new)
    N_CHECKS += 1
    return r_new


SD = (old_sdof, new_sdof)
IM = (old_im, new_im)
rng = np.random.RandomState(77)


class Duck(object):
    """minimal object with the attributes the energy functions read"""

    def __init__(self, values, dt, response_times):
        self.values = values
        self.dt = dt
        self.response_times = response_times


def signals():
    out = []
    for name, vals, dt in [
        ('randn250', rng.randn(250), 0.01),
        ('randn33', rng.randn(33), 0.02),
        ('short2', np.array([0.4, -1.1]), 0.1),
        ('short3', np.array([0.4, -1.1, 0.2]), 0.005),
        ('len1', np.array([0.7]), 0.01),
        ('zeros', np.zeros(40), 0.01),
        ('int', rng.randint(-5, 6, size=70), 0.01),
        ('f32', rng.randn(45).astype(np.float32), 0.01),
        ('list', list(rng.randn(20)), 0.05),
        ('sine', np.sin(np.arange(300) * 0.05), 0.02),
        ('big', 1e5 * rng.randn(60), 0.01),
        ('intdt', rng.randn(25), 1),
    ]:
        out.append((name, eqsig.AccSignal(vals, dt)))
        out.append((name + '-rt0', eqsig.AccSignal(vals, dt, response_times=[0.0, 0.03, 0.3, 2.0])))
        out.append((name + '-rt1', eqsig.AccSignal(vals, dt, response_times=(0.5,))))
        out.append((name + '-duck', Duck(np.array(vals), dt, np.array([0.04, 0.4]))))
    return out


def period_sets(dt):
    base = [
        [0.5],
        [0.0, 0.5],
        [0.0, dt, 5 * dt, 6 * dt, 7 * dt, 1.0, 4.0],
        [dt, 6 * dt, 0.3, 2.0],
        list(np.linspace(0.05, 3.0, 9)),
        [1, 2, 3],
        [0, 1, 2],
        [2.0, 0.4, 0.02],
    ]
    out = [('none', None)]
    for b in base:
        out.append(('list', list(b)))
        out.append(('tuple', tuple(b)))
        out.append(('array', np.array(b)))
    return out


# 1. energy spectra
for sname, sig in signals():
    for pname, periods in period_sets(sig.dt):
        for xi in (None, 0, 0.0, 0.05, 0.4, 0.99):
            ctx = (sname, pname, xi)
            compare(SD, 'calc_resp_uke_spectrum', (sig,), dict(periods=periods, xi=xi), ctx)
            compare(SD, 'calc_resp_uke_spectrum', (sig, periods, xi), None, ctx)
            for series in (False, True, 0, 1, None):
                compare(SD, 'calc_input_energy_spectrum', (sig,), dict(periods=periods, xi=xi, series=series), ctx)
            compare(SD, 'calc_input_energy_spectrum', (sig, periods, xi, True), None, ctx)
            compare(SD, 'calc_input_energy_spectrum', (sig, periods, xi), None, ctx)
    compare(SD, 'calc_resp_uke_spectrum', (sig,), None, (sname, 'defaults'))
    compare(SD, 'calc_input_energy_spectrum', (sig,), None, (sname, 'defaults'))

# the results still are the defining sums over the response series
sig = eqsig.AccSignal(rng.randn(180), 0.01)
per = np.array([0.0, 0.05, 0.3, 1.5])
for xi in (0.0, 0.05, 0.3):
    ru, rv, ra = old_sdof.nigam_and_jennings_response(sig.values, sig.dt, per, xi)
    ie = new_sdof.calc_input_energy_spectrum(sig, per, xi)
    ies = new_sdof.calc_input_energy_spectrum(sig, per, xi, series=True)
    uke = new_sdof.calc_resp_uke_spectrum(sig, per, xi)
    assert np.array_equal(ie, np.sum(sig.values * rv * sig.dt, axis=1))
    assert np.array_equal(ies, np.cumsum(sig.values * rv * sig.dt, axis=1))
    assert np.array_equal(uke, np.sum(np.abs(np.diff(0.5 * rv ** 2, axis=1)), axis=1))
    assert ie.shape == uke.shape == (4,) and ies.shape == (4, 180)
    N_CHECKS += 5

# 2. spectrum intensities
for sname, sig in signals():
    if sname.startswith(('randn250', 'sine')) and not sname.endswith(('-rt1', '-duck')):
        reps = [None]       # default band with ~150-250 oscillators: keep it to a few
    elif sname.endswith(('-rt0', '-rt1')):
        reps = []
    else:
        reps = [None] if len(sig.values) <= 70 else []
    for periods in reps + [np.arange(0.1, 0.6, 0.05), [0.0, 0.05, 0.5, 1.0], (0.2, 0.4), [1, 2, 3],
                           [0.5], [sig.dt, 3 * sig.dt, 8 * sig.dt]]:
        for xi in (0.05, 0.0, 0.3):
            ctx = (sname, freeze(periods), xi)
            compare(IM, 'calc_asi', (sig,), dict(xi=xi, periods=periods), ctx)
            compare(IM, 'calc_vsi', (sig,), dict(xi=xi, periods=periods), ctx)
            compare(IM, 'calc_asi', (sig, xi, periods), None, ctx)
            compare(IM, 'calc_vsi', (sig, xi, periods), None, ctx)
    compare(IM, 'calc_asi', (sig,), dict(periods=np.arange(0.1, 0.4, 0.1)), (sname, 'default xi'))
    compare(IM, 'calc_vsi', (sig,), dict(periods=np.arange(0.1, 0.4, 0.1)), (sname, 'default xi'))

# 3. same failures for inputs the functions reject
sig = eqsig.AccSignal(rng.randn(30), 0.01)
for periods in ([], 0.5, [[0.1, 0.2]], [1.0, 0.0], ['a'], [np.nan, 1.0]):
    for xi in (0.05, 1.0, 'a'):
        ctx = ('bad', repr(periods), xi)
        compare(SD, 'calc_resp_uke_spectrum', (sig, periods, xi), None, ctx)
        compare(SD, 'calc_input_energy_spectrum', (sig, periods, xi), None, ctx)
        compare(SD, 'calc_input_energy_spectrum', (sig, periods, xi, True), None, ctx)
        compare(IM, 'calc_asi', (sig, xi, periods), None, ctx)
        compare(IM, 'calc_vsi', (sig, xi, periods), None, ctx)
compare(SD, 'calc_resp_uke_spectrum', (None,), None, ('bad', 'no signal'))
compare(SD, 'calc_input_energy_spectrum', (Duck([1.0, 2.0], 0.1, [0.3]),), None, ('list-valued duck',))
compare(SD, 'calc_resp_uke_spectrum', (Duck([1.0, 2.0], 0.1, [0.3]),), None, ('list-valued duck',))

# 4. the module namespaces expose the same public names, all other functions are unchanged objects-wise
for o, n in (SD, IM):
    pub_o = sorted(k for k in vars(o) if not k.startswith('__'))
    pub_n = sorted(k for k in vars(n) if not k.startswith('__'))
    assert pub_o == pub_n, (set(pub_o) ^ set(pub_n))
    N_CHECKS += 1
import inspect  # noqa: E402
for (o, n), names in ((SD, ('calc_resp_uke_spectrum', 'calc_input_energy_spectrum')), (IM, ('calc_asi', 'calc_vsi'))):
    for nm in names:
        assert str(inspect.signature(getattr(o, nm))) == str(inspect.signature(getattr(n, nm))), nm
        assert getattr(o, nm).__doc__ == getattr(n, nm).__doc__, nm
        N_CHECKS += 1

print('equiv3: %i comparisons identical' % N_CHECKS)

"""
Equivalence check for twin3 (C14): run with the twin applied, cwd = the worktree.

The ORIGINAL package is extracted from git (HEAD) into a temporary directory under /tmp.
The same deterministic battery of calls is executed in two subprocesses (one importing the
original package, one importing the edited worktree package); every observable (returned
arrays incl. dtype/shape/bytes, type and exact value of the returned time step, exceptions,
mutation of the arguments, state of the signal objects) is recorded and compared exactly.
Exit code 0 iff everything matches.
"""
import os
import pickle
import shutil
import subprocess
import sys
import tempfile

WORKER = r'''
import sys, os, pickle
root, out_path = sys.argv[1], sys.argv[2]
sys.path.insert(0, root)
import numpy as np
import eqsig
assert os.path.realpath(eqsig.__file__).startswith(os.path.realpath(root) + os.sep), (eqsig.__file__, root)
from eqsig.fns import time_step as ts
import eqsig.fns
assert eqsig.fns.interp_to_approx_dt is ts.interp_to_approx_dt
import eqsig.single
assert eqsig.single.interp_array_to_approx_dt is ts.interp_array_to_approx_dt


def enc(x):
    """Exact, picklable encoding of a result (type + dtype + shape + bytes)."""
    if isinstance(x, np.ndarray):
        return ('nd', str(x.dtype), x.shape, x.tobytes())
    if isinstance(x, np.generic):
        return ('npscalar', type(x).__name__, str(x.dtype), x.tobytes())
    if isinstance(x, bool):
        return ('bool', x)
    if isinstance(x, float):
        return ('float', x.hex())
    if isinstance(x, int):
        return ('int', x)
    if isinstance(x, (list, tuple)):
        return (type(x).__name__, tuple(enc(v) for v in x))
    if x is None:
        return ('none',)
    if isinstance(x, str):
        return ('str', x)
    if isinstance(x, dict):
        return ('dict', tuple((k, enc(v)) for k, v in sorted(x.items())))
    return ('repr', type(x).__name__, repr(x))


STATE_KEYS = ['_dt', '_values', '_npts', 'label', '_cached_fa', '_cached_smooth_fa', '_fa_spectrum', '_fa_freqs',
              '_cached_response_spectra', '_cached_disp_and_velo', '_cached_xi', '_s_a', '_s_v', '_s_d',
              '_velocity', '_displacement', '_response_times', '_cached_params', '_smooth_fa_spectrum',
              '_smooth_fa_freqs', 'verbose', 'ccbox']


def sig_state(s):
    d = [('cls', type(s).__module__ + '.' + type(s).__name__)]
    keys = sorted(s.__dict__.keys())
    d.append(('keys', tuple(keys)))
    for k in keys:
        d.append((k, enc(s.__dict__[k])))
    return tuple(d)


def call(fn, *a, **k):
    try:
        return ('ok', fn(*a, **k))
    except Exception as e:  # recorded and compared
        return ('exc', type(e).__name__, str(e))


results = []


def rec(tag, val):
    results.append((tag, val))


rng = np.random.RandomState(1234)

# ------------------------------------------------------------------ (dt, target) pairs
pairs = []
for tgt in [0.01, 0.005, 0.1, 0.03, 0.007, 1.0, 0.25, 1e-3]:
    for k in list(range(1, 13)) + [20, 37]:
        pairs.append((k * tgt, tgt))           # refinement, quotient next to an integer
        pairs.append((tgt, k * tgt))           # decimation, quotient next to 1/integer
        pairs.append((tgt * k, tgt * 1.0000001))
        pairs.append((tgt, tgt * k * 0.9999999))
for a in [0.1, 0.3, 0.7, 0.07, 0.021, 0.0049]:
    for b in [0.1, 0.3, 0.7, 0.07, 0.021, 0.0049]:
        pairs.append((a, b))
for _ in range(150):
    pairs.append((float(10 ** rng.uniform(-3, 0)), float(10 ** rng.uniform(-3, 0))))
# numpy scalars, ints, mixed types
pairs += [(np.float64(0.02), 0.01), (0.02, np.float64(0.01)), (np.float64(0.01), np.float64(0.02)),
          (np.float64(0.01), np.float64(0.01)), (np.float32(0.02), 0.01), (np.float32(0.01), np.float32(0.04)),
          (1, 1), (2, 1), (1, 2), (1, 3), (3, 2), (2, 3), (np.int64(2), 1), (1, np.int64(4)), (5, 0.5), (0.5, 5),
          (np.float64(0.3), 0.1), (0.1, np.float64(0.3)), (0.1 + 0.2, 0.1), (0.1, 0.1 + 0.2)]


def make_values(kind, n):
    if kind == 'rand':
        return rng.standard_normal(n)
    if kind == 'list':
        return list(rng.standard_normal(n))
    if kind == 'tuple':
        return tuple(float(v) for v in rng.standard_normal(n))
    if kind == 'int':
        return rng.randint(-50, 50, size=n)
    if kind == 'intlist':
        return [int(v) for v in rng.randint(-50, 50, size=n)]
    if kind == 'zeros':
        return np.zeros(n)
    if kind == 'f32':
        return rng.standard_normal(n).astype(np.float32)
    if kind == 'const':
        return np.full(n, 3.5)
    if kind == 'ramp':
        return np.arange(n) * 0.5 - 3
    if kind == 'noncontig':
        return rng.standard_normal(2 * n)[::2]
    if kind == 'bool':
        return rng.randint(0, 2, size=n).astype(bool)
    raise ValueError(kind)


kinds = ['rand', 'list', 'tuple', 'int', 'intlist', 'zeros', 'f32', 'const', 'ramp', 'noncontig', 'bool']


def snapshot(v):
    if isinstance(v, np.ndarray):
        return v.copy()
    return type(v)(v)


def npts_for(dt, tgt, extra):
    # duration >= 2 * max(dt, target)  (plus some out-of-domain very short ones through `extra` < 0)
    base = int(np.ceil(2 * max(float(dt), float(tgt)) / float(dt))) + 1
    return max(base + extra, 1)


# ------------------------------------------------------------------ array level
ci = 0
for (dt, tgt) in pairs:
    for even in (True, False):
        for extra in (0, 1, 2, 7, 40, 41, -1):
            kind = kinds[ci % len(kinds)]
            ci += 1
            n = npts_for(dt, tgt, extra)
            if n > 4000:
                continue
            v = make_values(kind, n)
            before = snapshot(v)
            r = call(ts.interp_array_to_approx_dt, v, dt, tgt, even)
            rec(('arr', ci, kind, n, repr(dt), repr(tgt), even), enc(r))
            rec(('arr-mut', ci), (type(v).__name__, enc(v), enc(before)))
            if isinstance(v, np.ndarray):
                assert np.array_equal(v, before) and v.dtype == before.dtype
            else:
                assert v == before

# call conventions / defaults
v = rng.standard_normal(57)
rec('arr-default', enc(call(ts.interp_array_to_approx_dt, v, 0.02)))
rec('arr-default-dt-eq', enc(call(ts.interp_array_to_approx_dt, v, 0.01)))
rec('arr-kw', enc(call(ts.interp_array_to_approx_dt, values=v, dt=0.025, target_dt=0.01, even=False)))
rec('arr-kw2', enc(call(ts.interp_array_to_approx_dt, v, 0.005, even=False)))
rec('arr-evenint', enc(call(ts.interp_array_to_approx_dt, v, 0.03, 0.01, 1)))
rec('arr-evenint0', enc(call(ts.interp_array_to_approx_dt, v, 0.03, 0.07, 0)))
rec('arr-evennone', enc(call(ts.interp_array_to_approx_dt, v, 0.03, 0.07, None)))
rec('arr-2pts', enc(call(ts.interp_array_to_approx_dt, [1.0, 2.0], 0.5, 0.1, False)))
rec('arr-3pts', enc(call(ts.interp_array_to_approx_dt, [1, 2, 4], 0.5, 0.1)))
rec('arr-empty', enc(call(ts.interp_array_to_approx_dt, [], 0.5, 0.1)))
rec('arr-1pt', enc(call(ts.interp_array_to_approx_dt, [2.0], 0.5, 0.1)))
rec('arr-nan', enc(call(ts.interp_array_to_approx_dt, np.array([1.0, np.nan, 2.0, 3.0]), 0.5, 0.1)))
rec('arr-inf', enc(call(ts.interp_array_to_approx_dt, np.array([1.0, np.inf, 2.0, 3.0]), 0.1, 0.2)))
rec('arr-complex', enc(call(ts.interp_array_to_approx_dt, np.array([1.0 + 1j, 2.0, 3.0 - 2j, 0.0]), 0.1, 0.05)))
rec('arr-2d', enc(call(ts.interp_array_to_approx_dt, np.ones((4, 3)), 0.1, 0.05)))

# ------------------------------------------------------------------ object level
oi = 0
obj_pairs = pairs[::7] + pairs[-20:]
for (dt, tgt) in obj_pairs:
    for even in (True, False):
        for extra in (0, 3, 30, 31):
            oi += 1
            n = npts_for(dt, tgt, extra)
            if n > 3000:
                continue
            kind = kinds[oi % len(kinds)]
            if kind == 'bool':
                kind = 'rand'
            v = make_values(kind, n)
            asig = eqsig.AccSignal(v, dt, label='rec%i' % oi)
            if oi % 3 == 0:
                asig.gen_fa_spectrum()     # some cached state on the input object
            st0 = sig_state(asig)
            for name in ('interp_to_approx_dt', 'resample_to_approx_dt'):
                fn = getattr(ts, name)
                r = call(fn, asig, tgt, even)
                if r[0] == 'ok':
                    out = r[1]
                    rec((name, oi, kind, n, repr(dt), repr(tgt), even),
                        ('ok', sig_state(out), enc(out.values), enc(out.dt), enc(out.npts), enc(out.time)))
                else:
                    rec((name, oi, kind, n, repr(dt), repr(tgt), even), r)
                st1 = sig_state(asig)
                assert st0 == st1, 'input signal state modified'
                rec((name + '-instate', oi), st1)

# defaults, keywords and plain Signal objects
base = eqsig.AccSignal(np.sin(np.arange(400) * 0.05) + 0.1 * rng.standard_normal(400), 0.02)
plain = eqsig.Signal(rng.standard_normal(101), 0.005)
for name in ('interp_to_approx_dt', 'resample_to_approx_dt'):
    fn = getattr(ts, name)
    for tag, a, k in [('default', (base,), {}), ('kw', (), dict(asig=base, target_dt=0.05, even=False)),
                      ('kw-even', (base,), dict(even=False)), ('plain', (plain, 0.01), {}),
                      ('plain-odd', (plain, 0.02, False), {}), ('same', (base, 0.02), {}),
                      ('same-odd', (plain, 0.005, False), {})]:
        r = call(fn, *a, **k)
        if r[0] == 'ok':
            rec((name, tag), ('ok', sig_state(r[1])))
        else:
            rec((name, tag), r)
    rec((name, 'base-state'), sig_state(base))
    rec((name, 'plain-state'), sig_state(plain))

# band-limited periodic signal, exact under Fourier resampling
n = 120
t = np.arange(n) * 0.02
bl = 1.5 * np.sin(2 * np.pi * 3 * t / (n * 0.02)) + 0.3 * np.cos(2 * np.pi * 5 * t / (n * 0.02)) + 0.2
for tgt in (0.01, 0.004, 0.04, 0.05, 0.02, 0.013):
    for even in (True, False):
        out = ts.resample_to_approx_dt(eqsig.AccSignal(bl, 0.02), tgt, even)
        rec(('bandlimited', tgt, even), sig_state(out))

# multi-step histories on objects
hist = eqsig.AccSignal(rng.standard_normal(333), 0.013, label='hist')
h1 = ts.interp_to_approx_dt(hist, 0.005)
h2 = ts.resample_to_approx_dt(h1, 0.02, even=False)
h3 = ts.interp_to_approx_dt(h2, 0.02, even=False)
h4 = ts.resample_to_approx_dt(h3, 0.003)
h5 = ts.interp_to_approx_dt(h4, 0.05, True)
for i, h in enumerate((hist, h1, h2, h3, h4, h5)):
    rec(('hist', i), sig_state(h))
hist.reset_values(rng.standard_normal(78))
rec('hist-reset-interp', sig_state(ts.interp_to_approx_dt(hist, 0.004, even=False)))
rec('hist-reset-resample', sig_state(ts.resample_to_approx_dt(hist, 0.004, even=False)))
hist.reset_values([((7 * i) % 11) - 5 for i in range(125)])
rec('hist-reset2-interp', sig_state(ts.interp_to_approx_dt(hist, 0.03)))
rec('hist-reset2-resample', sig_state(ts.resample_to_approx_dt(hist, 0.03)))
hist.butter_pass([0.5, 10])
hist.remove_poly(1)
rec('hist-filtered-interp', sig_state(ts.interp_to_approx_dt(hist, 0.006, even=False)))
rec('hist-filtered-resample', sig_state(ts.resample_to_approx_dt(hist, 0.006, even=True)))
rec('hist-final', sig_state(hist))

# ------------------------------------------------------------------ consumer: gen_response_spectrum(even=False)
for j, (dt, rts, ratio) in enumerate([(0.02, [0.05, 0.1, 0.5, 1.0], 4), (0.01, [0.0, 0.04, 0.3], 4),
                                      (0.05, [0.1, 0.33, 2.0], 7), (0.02, [0.5, 1.0], 4), (0.013, [0.1, 0.2], 3.3),
                                      (0.02, np.array([0.2, 0.4]), 4), (0.03, [0.2, 1.0], 2.5)]):
    a = eqsig.AccSignal(rng.standard_normal(150 + j), dt)
    a.gen_response_spectrum(response_times=rts, min_dt_ratio=ratio)
    rec(('rs', j), sig_state(a))
    rec(('rs-sa', j), (enc(a.s_a), enc(a.s_v), enc(a.s_d)))
a = eqsig.AccSignal(rng.standard_normal(200), 0.02, response_times=(0.1, 2.0))
rec('rs-lazy', (enc(a.s_a), sig_state(a)))

with open(out_path, 'wb') as f:
    pickle.dump(results, f, protocol=4)
print('worker', root, 'recorded', len(results))
'''


def main():
    here = os.getcwd()
    if not os.path.isdir(os.path.join(here, 'eqsig')) or not os.path.isdir(os.path.join(here, '.git')) \
            and not os.path.isfile(os.path.join(here, '.git')):
        print('run with cwd = the worktree')
        return 2
    tmp = tempfile.mkdtemp(prefix='c14_equiv_', dir='/tmp')
    try:
        orig_root = os.path.join(tmp, 'orig')
        os.makedirs(orig_root)
        arch = subprocess.Popen(['git', 'archive', 'HEAD', 'eqsig'], cwd=here, stdout=subprocess.PIPE)
        subprocess.check_call(['tar', '-x', '-C', orig_root], stdin=arch.stdout)
        arch.stdout.close()
        assert arch.wait() == 0
        worker_path = os.path.join(tmp, 'worker.py')
        with open(worker_path, 'w') as f:
            f.write(WORKER)
        outs = {}
        env = dict(os.environ)
        env.pop('PYTHONPATH', None)
        env['PYTHONDONTWRITEBYTECODE'] = '1'
        for tag, root in (('orig', orig_root), ('edit', here)):
            out_path = os.path.join(tmp, tag + '.pkl')
            subprocess.check_call([sys.executable, worker_path, root, out_path], cwd=root, env=env)
            with open(out_path, 'rb') as f:
                outs[tag] = pickle.load(f)
        a, b = outs['orig'], outs['edit']
        n_bad = 0
        if len(a) != len(b):
            print('different number of records', len(a), len(b))
            n_bad += 1
        for (ta, va), (tb, vb) in zip(a, b):
            if ta != tb or va != vb:
                n_bad += 1
                if n_bad < 15:
                    print('MISMATCH at', ta, tb)
        n_ok_calls = sum(1 for t, v in a if isinstance(v, tuple) and len(v) and v[0] in ('ok', 'tuple'))
        print('records compared: %i, mismatches: %i' % (len(a), n_bad))
        return 0 if n_bad == 0 else 1
    finally:
        shutil.rmtree(tmp, ignore_errors=True)


if __name__ == '__main__':
    sys.exit(main())

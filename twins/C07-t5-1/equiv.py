"""
Equivalence program for twin 1 of property C07 (Konno-Ohmachi smoothing).

Run with the edit applied and cwd = the worktree:
    cd <worktree> && PYTHONPATH=<worktree> python out/equiv1.py

The ORIGINAL package is extracted from git (`git archive HEAD eqsig`) into a temporary directory.
The original and the edited package are exercised by the same deterministic driver in two separate
subprocesses; every outcome (returned value bit-for-bit incl. dtype/shape/flags, exception type,
warnings emitted, mutation of arguments, aliasing of the result with arguments, object state after
each public operation) is encoded and compared in the parent.  Exit status 0 iff everything matches.
"""
import os
import pickle
import subprocess
import sys
import tempfile
import shutil

TWIN = 1
COMPARE_EXC_MESSAGE = True   # twin 1 does not introduce any new raise: messages must be identical too
FOCUS = "optimisation"


# ----------------------------------------------------------------------------------------------
# worker (runs inside a subprocess with sys.path[0] = root of the package version to exercise)
# ----------------------------------------------------------------------------------------------

def worker(root, out_path):
    sys.path.insert(0, root)
    import warnings
    import hashlib
    import numpy as np
    import eqsig
    from eqsig.fns import frequency as fq
    from eqsig import im

    assert os.path.realpath(eqsig.__file__).startswith(os.path.realpath(root) + os.sep), \
        (eqsig.__file__, root)

    records = []

    # ---------- encoding helpers -------------------------------------------------------------
    def enc(x, depth=0):
        if isinstance(x, np.ndarray):
            if x.dtype == object:
                return ('nd-obj', x.shape, tuple(enc(v, depth + 1) for v in x.ravel().tolist()))
            raw = x.tobytes()
            if len(raw) > 64:   # keep the pickles small: digest of the exact bytes + a readable preview
                raw = (hashlib.sha1(raw).hexdigest(), repr(x.ravel()[:3].tolist()))
            return ('nd', x.dtype.str, x.shape, raw, bool(x.flags['C_CONTIGUOUS']),
                    bool(x.flags['WRITEABLE']))
        if isinstance(x, np.generic):
            return ('sc', x.dtype.str, x.tobytes())
        if isinstance(x, (bool, int, str, type(None))):
            return ('py', type(x).__name__, repr(x))
        if isinstance(x, float):
            return ('py', 'float', x.hex())
        if isinstance(x, complex):
            return ('py', 'complex', x.real.hex(), x.imag.hex())
        if isinstance(x, (tuple, list)):
            return (type(x).__name__,) + tuple(enc(v, depth + 1) for v in x)
        if isinstance(x, dict):
            return ('dict',) + tuple((k, enc(v, depth + 1)) for k, v in sorted(x.items()))
        return ('obj', type(x).__name__)

    def wenc(wlist):
        return tuple((w.category.__name__, str(w.message)) for w in wlist)

    def aliases(res, args):
        out = []
        if isinstance(res, np.ndarray):
            for a in args:
                out.append(isinstance(a, np.ndarray) and bool(np.shares_memory(res, a)))
        return tuple(out)

    def call(tag, fn, args=(), kwargs=None, mode='record'):
        """Run fn(*args, **kwargs), record outcome, warnings, argument mutation and aliasing."""
        kwargs = kwargs or {}
        all_args = list(args) + [kwargs[k] for k in sorted(kwargs)]
        res = None
        with warnings.catch_warnings(record=True) as wl:
            if mode == 'record':
                warnings.simplefilter('always')
                ctx = np.errstate()
            elif mode == 'fperr':
                warnings.simplefilter('always')
                ctx = np.errstate(all='raise')
            else:  # 'werr': warnings are errors
                warnings.simplefilter('error')
                ctx = np.errstate()
            try:
                with ctx:
                    res = fn(*args, **kwargs)
                out = ('ok', enc(res))
            except Exception as e:  # noqa
                out = ('exc', type(e).__name__, str(e))
            ws = wenc(wl)
        rec = (tag, mode, out, ws, enc(all_args), aliases(res, all_args))
        records.append(rec)
        return res

    # ---------- input generators -------------------------------------------------------------
    rng = np.random.RandomState(20260928 + TWIN)

    def make_freqs(n, kind):
        df = [0.01, 0.05, 0.1, 0.5, 1.0, 0.0244140625][rng.randint(6)]
        if kind == 'grid0':       # Fourier grid including the zero-frequency bin
            return np.arange(n) * df
        if kind == 'grid':        # Fourier grid without the zero bin
            return np.arange(1, n + 1) * df
        if kind == 'int0':        # integer typed, with zero
            return np.arange(n)
        if kind == 'int':
            return np.arange(1, n + 1)
        if kind == 'rand':        # non uniform, sorted
            return np.sort(rng.uniform(0.01, 50, n))
        if kind == 'unsorted':
            return rng.uniform(0.01, 50, n)
        if kind == 'f32':
            return (np.arange(1, n + 1) * df).astype(np.float32)
        if kind == 'f32_0':
            return (np.arange(n) * df).astype(np.float32)
        if kind == 'log':
            return np.logspace(-2, 2, n)
        if kind == 'dup':         # duplicated frequencies
            f = np.arange(1, n + 1) * df
            f[n // 2:] = f[:n - n // 2]
            return f
        if kind == 'negfirst':    # not a Fourier grid: first frequency negative (or minus zero)
            f = np.arange(n) * df
            f[0] = [-df, -0.0][rng.randint(2)]
            return f
        raise ValueError(kind)

    FKINDS = ['negfirst', 'grid0', 'grid', 'int0', 'int', 'rand', 'unsorted', 'f32', 'f32_0', 'log', 'dup']

    def make_spec(n, kind):
        if kind == 'complex':
            return rng.normal(size=n) + 1j * rng.normal(size=n)
        if kind == 'pos':
            return rng.uniform(0.1, 10, n)
        if kind == 'signed':
            return rng.normal(size=n)
        if kind == 'int':
            return rng.randint(-5, 20, n)
        if kind == 'zeros':
            return np.zeros(n)
        if kind == 'const':
            return np.full(n, 3.25)
        if kind == 'c64':
            return (rng.normal(size=n) + 1j * rng.normal(size=n)).astype(np.complex64)
        if kind == 'f32':
            return rng.uniform(0.1, 10, n).astype(np.float32)
        if kind == 'nan':
            s = rng.uniform(0.1, 10, n)
            s[rng.randint(n)] = np.nan
            return s
        if kind == 'inf':
            s = rng.uniform(0.1, 10, n)
            s[rng.randint(n)] = np.inf
            return s
        if kind == 'spike':
            s = np.zeros(n)
            s[rng.randint(n)] = 1.0
            return s
        raise ValueError(kind)

    SKINDS = ['complex', 'pos', 'signed', 'int', 'zeros', 'const', 'c64', 'f32', 'nan', 'inf', 'spike']

    def make_targets(f, kind):
        fpos = f[f > 0] if np.any(f > 0) else np.array([1.0])
        m = [1, 2, 3, 7, 20, 61][rng.randint(6)]
        lo, hi = float(fpos.min()), float(fpos.max())
        if kind == 'none':
            return None
        if kind == 'inside':
            return np.sort(rng.uniform(lo, hi, m)) if hi > lo else np.full(m, lo)
        if kind == 'outside':
            return np.concatenate([rng.uniform(lo / 100, lo / 2, m // 2 + 1), rng.uniform(hi * 2, hi * 100, m // 2 + 1)])
        if kind == 'ongrid':      # exactly on the Fourier grid
            return fpos[rng.randint(0, len(fpos), m)].astype(float)
        if kind == 'ongrid_sorted':
            return np.unique(fpos[rng.randint(0, len(fpos), m)]).astype(float)
        if kind == 'mixed':
            a = fpos[rng.randint(0, len(fpos), m)].astype(float)
            b = rng.uniform(lo / 2, hi * 2, m)
            return np.concatenate([a, b])
        if kind == 'logspace':
            return np.logspace(np.log10(0.1), np.log10(30), m)
        if kind == 'int':
            return np.arange(1, m + 1)
        if kind == 'f32':
            return np.logspace(-1, 1.3, m).astype(np.float32)
        if kind == 'same_obj':
            return f
        if kind == 'with_zero':   # a zero target frequency: division by zero -> inf -> nan weights
            t = np.logspace(-1, 1, m)
            t[0] = 0.0
            return t
        if kind == 'negative':
            t = np.logspace(-1, 1, m)
            t[-1] = -1.0
            return t
        raise ValueError(kind)

    TKINDS = ['none', 'inside', 'outside', 'ongrid', 'ongrid_sorted', 'mixed', 'logspace', 'int', 'f32',
              'same_obj', 'with_zero', 'negative']

    def make_band():
        k = rng.randint(10)
        if k == 0:
            return None   # means: use default
        if k == 1:
            return int(rng.randint(5, 101))
        if k == 2:
            return float(rng.uniform(5, 100))
        if k == 3:
            return np.float64(rng.uniform(5, 100))
        if k == 4:
            return np.int64(rng.randint(5, 101))
        if k == 5:
            return [5, 100, 40, 20][rng.randint(4)]
        if k == 6:
            return np.float32(rng.uniform(5, 100))
        if k == 7:
            return [0, -40, 1e-3, 1000][rng.randint(4)]   # outside [5, 100]: still must agree
        if k == 8:
            return 40.0
        return int(rng.randint(5, 101))

    NS = [1, 2, 3, 4, 5, 8, 16, 33, 64, 100]

    # ---------- family A/B: the function forms ----------------------------------------------------
    def family_functions(n_cases, mode):
        for i in range(n_cases):
            n = NS[rng.randint(len(NS))]
            fk = FKINDS[rng.randint(len(FKINDS))]
            sk = SKINDS[rng.randint(len(SKINDS))]
            tk = TKINDS[rng.randint(len(TKINDS))]
            f = make_freqs(n, fk)
            s = make_spec(n, sk)
            t = make_targets(f, tk)
            if tk == 'same_obj':
                t = f
            band = make_band()
            kw = {} if band is None else {'band': band}
            tag = ('fn', mode, i, n, fk, sk, tk, repr(band))
            how = rng.randint(4)
            if t is None and how == 0:
                call(tag + ('direct-omitted',), fq.calc_smooth_fa_spectrum, (f, s), kw, mode)
            elif how == 1:
                kw2 = dict(kw)
                kw2['smooth_fa_frequencies'] = t
                call(tag + ('direct-kw',), fq.calc_smooth_fa_spectrum, (f, s), kw2, mode)
            else:
                call(tag + ('direct',), fq.calc_smooth_fa_spectrum, (f, s, t), kw, mode)
            # matrix form
            w = call(tag + ('matrix',), fq.calc_smoothing_matrix_konno_1998, (f, t), kw, mode)
            if i % 3 == 0:
                call(tag + ('deprecated',), fq.generate_smooth_fa_spectrum, (t, f, s), kw, mode)
            if i % 5 == 0 and isinstance(w, np.ndarray):
                # the matrix is a fresh private array: writing into it must be possible and
                # must not affect the inputs (checked by the argument snapshot of the next call)
                def poke(w=w):
                    w[...] = 0
                    return w.flags['OWNDATA'] or (w.base is not None and w.base.flags['OWNDATA'])
                call(tag + ('poke',), poke, (), None, mode)
                call(tag + ('after-poke',), fq.calc_smooth_fa_spectrum, (f, s, t), kw, mode)

    family_functions(2600, 'record')
    family_functions(500, 'fperr')
    family_functions(500, 'werr')

    # ---------- family C: unusual forms / shapes / failing inputs ---------------------------------
    def family_forms():
        f = np.arange(8) * 0.25
        fnz = f[1:]
        s = np.arange(8) * 1.0 + 1
        t = np.array([0.5, 0.6, 1.75, 9.0])
        forms_f = [f, fnz, list(f), tuple(f), list(fnz), 2.0, 0.0, np.float64(0.0), np.array(0.0), np.array(2.0),
                   np.array([]), [], np.array([0.0]), np.array([1.0]), [0.0], [1.0], np.array([0.0, 1.0]),
                   f.reshape(2, 4), fnz.reshape(7, 1), None, 'abc', f.astype(int), f[::-1].copy(), f[::2],
                   np.array([0.0, 0.0, 1.0]), np.array([np.nan, 1.0, 2.0]), np.array([0, 1, 2, 3], dtype=object),
                   np.zeros((3, 0)), np.zeros((0, 3)), np.array([-1.0, 1.0, 2.0]), np.array([-0.0, 1.0, 2.0])]
        forms_s = [s, s[1:], list(s), tuple(s), 3.0, np.array(3.0), np.array([]), [], np.array([2.0]), [2.0],
                   s[:3], s[:7], s[:2], np.array([1.0, 2.0]), s.reshape(2, 4), None, s.astype(int), s * 1j,
                   s[::-1], np.ones(9), np.ones(6), np.ones((7, 1)), np.ones((8, 1)), np.zeros((3, 0)), np.zeros((0, 3))]
        forms_t = [None, t, list(t), tuple(t), 1.0, np.array(1.0), np.array([]), [], np.array([0.5]), [0.5],
                   t.reshape(2, 2), t.astype(int) + 1, f, fnz, np.array([0.0]), t[::-1], t[::2], 'abc', np.zeros((3, 0)),
                   np.zeros((0, 3))]
        bands = [40, 5, 100, 17.5, np.float64(40), None, 'x', np.array([40.0]), np.array([10.0, 20.0, 30.0, 40.0]),
                 [40], 0, True]
        cnt = 0
        for a, ff in enumerate(forms_f):
            for b, ss in enumerate(forms_s):
                for c, tt in enumerate(forms_t):
                    cnt += 1
                    # full product is ~11000 cases of tiny size: keep all of the default band, sample other bands
                    band = 40 if (cnt % 3) else bands[(a + 2 * b + 3 * c) % len(bands)]
                    tag = ('forms', a, b, c, repr(band))
                    call(tag + ('direct',), fq.calc_smooth_fa_spectrum, (ff, ss, tt), {'band': band})
                    if b % 4 == 0:
                        call(tag + ('matrix',), fq.calc_smoothing_matrix_konno_1998, (ff, tt), {'band': band})
        # same again for a few under errstate raise / warnings as errors
        for mode in ('fperr', 'werr'):
            for a, ff in enumerate(forms_f[:12]):
                for b, ss in enumerate(forms_s[:8]):
                    for c, tt in enumerate(forms_t[:6]):
                        call(('forms', mode, a, b, c), fq.calc_smooth_fa_spectrum, (ff, ss, tt), {'band': 40}, mode)

    family_forms()

    # ---------- family D: index range helpers on bare arrays --------------------------------------
    def family_index_range():
        arrs = [np.array([1.0, 5.0, 3.0, 0.1]), np.array([0.0, 0.0]), np.array([2.0]), np.array([]),
                np.array([np.nan, 1.0, 2.0]), np.array([1.0, np.nan, 2.0]), np.array([1.0, 2.0, np.nan]),
                np.array([-1.0, -2.0, -3.0]), np.array([1, 5, 3, 0]), [1.0, 5.0, 3.0], (1.0, 5.0),
                np.array([np.inf, 1.0]), np.array([3.0, 3.0, 3.0]), np.array([[1.0, 2.0], [3.0, 4.0]]), 3.0, None,
                np.array([1.0, 5.0, 3.0, 0.1], dtype=np.float32), np.array([0.0, 1e-300, 0.0])]
        for i in range(40):
            n = [1, 2, 3, 10, 61][rng.randint(5)]
            arrs.append(rng.uniform(0, 1, n) ** 3)
        for i, a in enumerate(arrs):
            for ratio in (15, 1, 2.0, 0.5, 1e6, 0, -1, np.inf, None):
                kw = {} if ratio is None else {'ratio': ratio}
                call(('idxrange', i, repr(ratio)), fq.get_sig_array_indexes_range, (a,), kw)

    family_index_range()

    # ---------- family E: histories of public operations on Signal / AccSignal ---------------------
    def snapshot(sig):
        """State as seen through the public API WITHOUT triggering any lazy computation,
        plus the private cache fields (none of the twins changes their layout)."""
        d = sig.__dict__
        return enc({
            'smooth_fa_freqs': sig.smooth_fa_freqs,
            'smooth_fa_frequencies_is': sig.smooth_fa_frequencies is sig.smooth_fa_freqs,
            'values': sig.values,
            'npts': sig.npts,
            'dt': sig.dt,
            '_cached_smooth_fa': d.get('_cached_smooth_fa', 'class'),
            '_cached_fa': d.get('_cached_fa', 'class'),
            '_smooth_fa_spectrum': d.get('_smooth_fa_spectrum', 'absent'),
            '_smooth_freq_range': d.get('_smooth_freq_range', 'absent'),
            '_fa_spectrum': d.get('_fa_spectrum', 'absent'),
            '_fa_freqs': d.get('_fa_freqs', 'absent'),
            'keys': sorted(k for k in d.keys()),
        })

    def make_values(kind, n):
        tt = np.arange(n) * 0.01
        if kind == 'sine':
            return np.sin(2 * np.pi * rng.uniform(0.5, 10) * tt) * np.exp(-tt)
        if kind == 'noise':
            return rng.normal(size=n)
        if kind == 'int':
            return rng.randint(-100, 100, n)
        if kind == 'zeros':
            return np.zeros(n)
        if kind == 'list':
            return list(rng.normal(size=n))
        if kind == 'const':
            return np.ones(n) * 2.5
        if kind == 'spike':
            v = np.zeros(n)
            v[n // 3] = 1.0
            return v
        if kind == 'nan':
            v = rng.normal(size=n)
            v[n // 2] = np.nan
            return v
        raise ValueError(kind)

    VK = ['sine', 'noise', 'int', 'zeros', 'list', 'const', 'spike', 'noise', 'sine', 'nan']

    BAD_LIMITS = [5.0, [1.0], [], np.array(3.0), [[1.0, 2.0], [3.0, 4.0]], 'ab', None, (0, 10), (1.0, 2.0, 3.0),
                  np.array([2.0]), (-1.0, 10.0), ((1.0, 2.0),), np.array([1, 20]), (0.5, 0.5), np.zeros((0, 2)),
                  np.zeros((2, 0)), {'a': 1}, (None, 1.0)]

    def family_histories(n_hist, mode='record'):
        for h in range(n_hist):
            n = [2, 3, 4, 5, 8, 17, 64, 100, 257, 512][rng.randint(10)]
            dt = [0.01, 0.005, 0.02, 0.1, 1][rng.randint(5)]
            vk = VK[rng.randint(len(VK))]
            vals = make_values(vk, n)
            cls = eqsig.AccSignal if rng.randint(2) else eqsig.Signal
            ck = rng.randint(7)
            ckw = {}
            if ck == 1:
                ckw = {'smooth_freq_range': (0.5, 20)}
            elif ck == 2:
                ckw = {'smooth_freq_range': [1, 10]}
            elif ck == 3:
                ckw = {'smooth_fa_freqs': [0.5, 1, 2, 4, 8]}
            elif ck == 4:
                ckw = {'smooth_fa_freqs': np.arange(1, 12)}
            elif ck == 5:
                ckw = {'smooth_freq_range': np.array([0.2, 25.0])}
            elif ck == 6:
                # targets exactly on the Fourier grid of the padded record
                npad = 2 ** int(np.ceil(np.log2(n)))
                ff = np.arange(max(npad // 2, 1)) / (npad * dt)
                ckw = {'smooth_fa_freqs': ff[1:] if len(ff) > 1 else np.array([1.0])}
            if rng.randint(12) == 0:
                ckw = {'smooth_freq_range': BAD_LIMITS[rng.randint(len(BAD_LIMITS))]}
            holder = {}

            def construct():
                holder['sig'] = cls(vals, dt, **ckw)
                return None
            call(('hist', mode, h, 'construct', cls.__name__, vk, n, dt, ck), construct, (), None, mode)
            sig = holder.get('sig')
            if sig is None:
                continue
            records.append(('hist-state', mode, h, -1, snapshot(sig)))
            n_ops = rng.randint(3, 12)
            for j in range(n_ops):
                op = rng.randint(26)
                tag = ('hist', mode, h, j, op)
                if op == 0:
                    call(tag, lambda: sig.smooth_fa_spectrum, (), None, mode)
                elif op == 1:
                    b = make_band()
                    kw = {} if b is None else {'band': b}
                    call(tag, sig.gen_smooth_fa_spectrum, (), kw, mode)
                elif op == 2:
                    b = make_band()
                    kw = {} if b is None else {'band': b}
                    call(tag, sig.generate_smooth_fa_spectrum, (), kw, mode)
                elif op == 3:
                    m = [1, 2, 5, 30][rng.randint(4)]
                    fr = np.sort(rng.uniform(0.05, 60, m))
                    call(tag, sig.gen_smooth_fa_spectrum, (), {'smooth_fa_freqs': fr, 'band': int(rng.randint(5, 101))}, mode)
                    records.append(('hist-alias', mode, h, j, sig.smooth_fa_freqs is fr))
                elif op == 4 and rng.randint(4) == 0:
                    fr = [0.5, 1.5, 2.5]      # a list is stored as is and then fails in the kernel
                    call(tag, sig.gen_smooth_fa_spectrum, (), {'smooth_fa_freqs': fr}, mode)
                    records.append(('hist-alias', mode, h, j, sig.smooth_fa_freqs is fr))
                elif op == 4 or op == 5:
                    def setf():
                        sig.smooth_fa_freqs = [0.3, 0.9, 2.7, 8.1]
                    call(tag, setf, (), None, mode)
                elif op == 6:
                    arr = np.logspace(-1, 1.5, [1, 3, 40][rng.randint(3)])

                    def setf2():
                        sig.smooth_fa_frequencies = arr
                    call(tag, setf2, (), None, mode)
                    records.append(('hist-alias', mode, h, j, sig.smooth_fa_freqs is arr))
                elif op == 7:
                    def setr():
                        sig.smooth_freq_range = (0.2, 12.0)
                    call(tag, setr, (), None, mode)
                elif op == 8:
                    call(tag, lambda: sig.smooth_freq_range, (), None, mode)
                elif op == 9:
                    def setp():
                        sig.smooth_freq_points = [1, 2, 10, 33.7][rng.randint(4)]
                    call(tag, setp, (), None, mode)
                elif op == 10:
                    call(tag, lambda: sig.smooth_freq_points, (), None, mode)
                elif op == 11:
                    lim = [(0.1, 30), [0.5, 5], np.array([1.0, 2.0]), (1, 1), (10, 1)][rng.randint(5)]
                    call(tag, sig.set_smooth_fa_frequecies_by_range, (lim, [1, 2, 25, 50][rng.randint(4)]), None, mode)
                elif op == 12:
                    nv = make_values(VK[rng.randint(len(VK))], [2, 5, 33, 128][rng.randint(4)])
                    call(tag, sig.reset_values, (nv,), None, mode)
                elif op == 13:
                    kw = [{'p2_plus': 1}, {'p2_plus': 0}, {'n': 64}, {'n': 10}, {'p2_plus': 2}, {'n': 2}][rng.randint(6)]
                    call(tag, sig.gen_fa_spectrum, (), kw, mode)
                elif op == 14:
                    call(tag, sig.clear_cache, (), None, mode)
                elif op == 15:
                    # in-place mutation of the publicly exposed frequency array (no invalidation)
                    def mut():
                        fr = sig.smooth_fa_freqs
                        fr[rng.randint(len(fr))] *= 1.5
                    # rng consumption must be the same in both versions: it is (same code path)
                    call(tag, mut, (), None, mode)
                elif op == 16:
                    r = [0.707, 0.5, 0.1, 0.999, 1.0, 1.5, 0.0, -1.0][rng.randint(8)]
                    which = rng.randint(4)
                    if which == 0:
                        call(tag + ('freqs',), im.calc_bandwidth_freqs, (sig,), {'ratio': r}, mode)
                    elif which == 1:
                        call(tag + ('fmin',), im.calc_bandwidth_f_min, (sig,), {'ratio': r}, mode)
                    elif which == 2:
                        call(tag + ('fmax',), im.calc_bandwidth_f_max, (sig,), {'ratio': r}, mode)
                    else:
                        call(tag + ('all',), lambda: (im.calc_bandwidth_freqs(sig), im.calc_bandwidth_f_min(sig),
                                                      im.calc_bandwidth_f_max(sig)), (), None, mode)
                elif op == 17:
                    r = [15, 2, 1, 1.01, 100, 0.5][rng.randint(6)]
                    call(tag, fq.get_sig_freq_range, (sig,), {'ratio': r}, mode)
                    call(tag + ('default',), fq.get_sig_freq_range, (sig,), None, mode)
                elif op == 18:
                    def mat():
                        w = fq.calc_smoothing_matrix_konno_1998(sig.fa_freqs, sig.smooth_fa_freqs, band=40)
                        via_matrix = fq.calc_smooth_fa_spectrum_w_custom_matrix(sig, w)
                        return w, via_matrix
                    call(tag, mat, (), None, mode)
                elif op == 19:
                    def mat2():
                        w = fq.calc_smoothing_matrix_konno_1998(sig.fa_freqs, band=20)
                        return fq.calc_smooth_fa_spectrum_w_custom_matrix(sig, w)
                    call(tag, mat2, (), None, mode)
                elif op == 20:
                    bad = [np.ones((3, 2)), [[1.0, 2.0]], 2.0, np.ones(len(sig.fa_spectrum) - 1 if len(sig.fa_spectrum) > 0 else 0),
                           None, np.ones((len(sig.fa_spectrum), 2)), np.ones((2, 3, 4))][rng.randint(7)]
                    call(tag, fq.calc_smooth_fa_spectrum_w_custom_matrix, (sig, bad), None, mode)
                elif op == 21:
                    call(tag, sig.add_constant, (rng.uniform(-1, 1),), None, mode)
                elif op == 22:
                    call(tag, lambda: (sig.fa_spectrum, sig.fa_frequencies), (), None, mode)
                elif op == 23:
                    # direct function on the object's own spectrum, targets = Fourier grid (all on grid)
                    call(tag, lambda: fq.calc_smooth_fa_spectrum(sig.fa_freqs, sig.fa_spectrum), (), None, mode)
                elif op == 24:
                    # frequency ranges that do not hold a lower and an upper entry (or are otherwise odd)
                    bad = BAD_LIMITS[rng.randint(len(BAD_LIMITS))]
                    if rng.randint(2):
                        call(tag + ('by_range',), sig.set_smooth_fa_frequecies_by_range, (bad, [3, 50][rng.randint(2)]), None, mode)
                    else:
                        def setr_bad():
                            sig.smooth_freq_range = bad
                        call(tag + ('range-setter',), setr_bad, (), None, mode)
                elif op == 25:
                    # length mismatches between spectrum and frequencies through the function form
                    ff = sig.fa_freqs
                    ss = sig.fa_spectrum
                    cut = [1, 2, len(ss) - 1, len(ss) // 2][rng.randint(4)]
                    which = rng.randint(4)
                    if which == 0:
                        call(tag + ('short-s',), fq.calc_smooth_fa_spectrum, (ff, ss[:cut], sig.smooth_fa_freqs), None, mode)
                    elif which == 1:
                        call(tag + ('short-f',), fq.calc_smooth_fa_spectrum, (ff[:cut], ss, sig.smooth_fa_freqs), None, mode)
                    elif which == 2:
                        call(tag + ('short-s-nozero',), fq.calc_smooth_fa_spectrum, (ff[1:], ss[:cut], sig.smooth_fa_freqs), None, mode)
                    else:
                        call(tag + ('empty',), fq.calc_smooth_fa_spectrum, (ff[:0], ss[:0], sig.smooth_fa_freqs), None, mode)
                records.append(('hist-state', mode, h, j, snapshot(sig)))
            # final public read out
            call(('hist', mode, h, 'final'), lambda: (sig.smooth_fa_spectrum, sig.smooth_fa_freqs, sig.fa_spectrum), (), None, mode)
            records.append(('hist-state', mode, h, 'final', snapshot(sig)))

    family_histories(700, 'record')
    family_histories(120, 'fperr')
    family_histories(120, 'werr')

    # ---------- family F: the real record of the test-suite ----------------------------------------
    def family_real():
        path = os.path.join(os.getcwd(), 'tests', 'unit_test_data', 'test_motion_dt0p01.txt')
        if not os.path.exists(path):
            records.append(('real', 'missing'))
            return
        vals = np.loadtxt(path, skiprows=2)
        asig = eqsig.AccSignal(vals, 0.01)
        call(('real', 'smooth'), lambda: asig.smooth_fa_spectrum, ())
        for r in (0.707, 0.5, 0.9, 0.2):
            call(('real', 'bw', r), lambda: (im.calc_bandwidth_freqs(asig, ratio=r), im.calc_bandwidth_f_min(asig, ratio=r),
                                            im.calc_bandwidth_f_max(asig, ratio=r)), ())
        for r in (15, 5, 2):
            call(('real', 'range', r), fq.get_sig_freq_range, (asig,), {'ratio': r})
        for b in (5, 20, 40, 100):
            call(('real', 'band', b), lambda: (asig.gen_smooth_fa_spectrum(band=b), asig.smooth_fa_spectrum)[1], ())
        short = eqsig.AccSignal(vals[:1024], 0.01)
        call(('real', 'ongrid'), lambda: (short.gen_smooth_fa_spectrum(smooth_fa_freqs=short.fa_freqs[1:], band=40),
                                         short.smooth_fa_spectrum)[1], ())
        call(('real', 'matrix'), lambda: fq.calc_smooth_fa_spectrum_w_custom_matrix(
            short, fq.calc_smoothing_matrix_konno_1998(short.fa_freqs, band=40)), ())
        call(('real', 'names'), lambda: sorted(k for k in dir(eqsig) if not k.startswith('_')), ())
        call(('real', 'names-fq'), lambda: sorted(k for k in dir(fq) if not k.startswith('_')), ())

    family_real()

    with open(out_path, 'wb') as fh:
        pickle.dump(records, fh, protocol=pickle.HIGHEST_PROTOCOL)


# ----------------------------------------------------------------------------------------------
# parent
# ----------------------------------------------------------------------------------------------

def main():
    cwd = os.getcwd()
    if not os.path.isdir(os.path.join(cwd, 'eqsig')):
        print('run from the root of the worktree')
        return 2
    tmp = tempfile.mkdtemp(prefix='eqsig_orig_')
    try:
        tar_path = os.path.join(tmp, 'orig.tar')
        subprocess.check_call(['git', 'archive', '-o', tar_path, 'HEAD', 'eqsig'], cwd=cwd)
        orig_root = os.path.join(tmp, 'orig')
        os.makedirs(orig_root)
        subprocess.check_call(['tar', '-xf', tar_path, '-C', orig_root])
        outs = {}
        procs = {}
        env = dict(os.environ)
        env.pop('PYTHONPATH', None)
        env['PYTHONDONTWRITEBYTECODE'] = '1'
        env['PYTHONHASHSEED'] = '0'
        for name, root in (('orig', orig_root), ('edit', cwd)):
            outs[name] = os.path.join(tmp, name + '.pkl')
            procs[name] = subprocess.Popen([sys.executable, os.path.abspath(__file__), '--worker', root, outs[name]],
                                           cwd=cwd, env=env)
        for name, p in procs.items():
            rc = p.wait()
            if rc != 0:
                print('worker %s failed with exit status %s' % (name, rc))
                return 3
        with open(outs['orig'], 'rb') as fh:
            ro = pickle.load(fh)
        with open(outs['edit'], 'rb') as fh:
            re_ = pickle.load(fh)
    finally:
        shutil.rmtree(tmp, ignore_errors=True)

    def strip(rec):
        """Drop exception messages when they are not required to match (types always are)."""
        if COMPARE_EXC_MESSAGE:
            return rec
        if len(rec) >= 3 and isinstance(rec[2], tuple) and rec[2] and rec[2][0] == 'exc':
            return rec[:2] + (rec[2][:2],) + rec[3:]
        return rec

    n_bad = 0
    if len(ro) != len(re_):
        print('different number of records: %d vs %d' % (len(ro), len(re_)))
        n_bad += 1
    n_ok_vals = 0
    n_exc = 0
    for a, b in zip(ro, re_):
        if len(a) >= 3 and isinstance(a[2], tuple) and a[2]:
            if a[2][0] == 'ok':
                n_ok_vals += 1
            elif a[2][0] == 'exc':
                n_exc += 1
        if strip(a) != strip(b):
            n_bad += 1
            if n_bad <= 15:
                print('MISMATCH at', a[0], a[1] if len(a) > 1 else '')
                for k, (x, y) in enumerate(zip(a, b)):
                    if x != y:
                        sx, sy = repr(x), repr(y)
                        print('   field %d:\n     orig: %s\n     edit: %s' % (k, sx[:400], sy[:400]))
    print('twin %d (%s): %d records compared (%d returned values, %d exceptions), %d mismatches'
          % (TWIN, FOCUS, len(ro), n_ok_vals, n_exc, n_bad))
    return 0 if n_bad == 0 else 1


if __name__ == '__main__':
    if len(sys.argv) >= 4 and sys.argv[1] == '--worker':
        worker(sys.argv[2], sys.argv[3])
        sys.exit(0)
    sys.exit(main())

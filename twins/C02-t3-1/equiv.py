"""
Equivalence check for twin1 (generator-driven recurrence in eqsig.sdof.nigam_and_jennings_response).

Run with twin1 applied, cwd = the worktree:   /venv/bin/python out/equiv1.py

The ORIGINAL package is extracted from git HEAD into a temporary directory.  The same deterministic list of
cases is executed in two subprocesses (one importing the original package, one importing the edited package);
each one records, for every case, the full result (types, dtypes, shapes, memory layout, raw bytes), the state of
the arguments after the call, aliasing between results and arguments, or the exception raised.  The two records are
then compared for exact equality.  Exit status 0 iff everything matches.
"""
import os
import pickle
import subprocess
import sys
import tempfile

import numpy as np

HERE = os.path.dirname(os.path.abspath(__file__))
WORKTREE = os.path.dirname(HERE)


# ---------------------------------------------------------------------------------------------------------------------
# canonical description of results
# ---------------------------------------------------------------------------------------------------------------------
def describe(obj):
    if isinstance(obj, np.ndarray):
        return ('ndarray', obj.dtype.str, obj.shape, bool(obj.flags['C_CONTIGUOUS']), bool(obj.flags['WRITEABLE']),
                np.ascontiguousarray(obj).tobytes())
    if isinstance(obj, np.generic):
        return ('npscalar', type(obj).__name__, obj.tobytes())
    if isinstance(obj, (tuple, list)):
        return (type(obj).__name__, [describe(o) for o in obj])
    if isinstance(obj, dict):
        return ('dict', sorted((repr(k), describe(v)) for k, v in obj.items()))
    if isinstance(obj, float):
        return ('float', obj.hex())
    if isinstance(obj, (int, bool, str, type(None))):
        return (type(obj).__name__, repr(obj))
    return ('object', type(obj).__name__)


def arrays_in(obj):
    if isinstance(obj, np.ndarray):
        return [obj]
    if isinstance(obj, (tuple, list)):
        out = []
        for o in obj:
            out += arrays_in(o)
        return out
    return []


def call(fn, *args, **kwargs):
    """Run fn and describe the result, the arguments afterwards, and the aliasing pattern"""
    try:
        res = fn(*args, **kwargs)
    except Exception as e:  # noqa
        return ('raised', type(e).__name__, str(e), describe(list(args)))
    outs = arrays_in(res)
    ins = arrays_in(list(args)) + arrays_in(list(kwargs.values()))
    alias_oo = [bool(np.shares_memory(outs[i], outs[j])) for i in range(len(outs)) for j in range(i + 1, len(outs))]
    alias_oi = [bool(np.shares_memory(o, i)) for o in outs for i in ins]
    return ('ok', describe(res), describe(list(args)), describe(kwargs), alias_oo, alias_oi)


# ---------------------------------------------------------------------------------------------------------------------
# the cases
# ---------------------------------------------------------------------------------------------------------------------
def make_records(rng):
    recs = []
    for n in [0, 1, 2, 3, 4, 7, 31, 200, 601]:
        recs.append(rng.standard_normal(n))
    recs.append(np.zeros(25))
    recs.append(np.concatenate([[0.0], rng.standard_normal(40)]))  # starts at zero
    recs.append(rng.integers(-5, 6, size=33))  # integer dtype
    recs.append(rng.standard_normal(20).astype(np.float32))
    recs.append(list(rng.standard_normal(12)))  # a list
    recs.append([0, 1, -2, 3, 0, 0, 1])  # a list of ints
    recs.append(tuple(rng.standard_normal(9)))
    recs.append(rng.standard_normal(64)[::2])  # non contiguous view
    recs.append(np.sin(0.1 * np.arange(300)) * 0.01)
    recs.append(1e-300 * rng.standard_normal(15))
    recs.append(1e150 * rng.standard_normal(15))
    return recs


def make_period_sets(rng):
    sets = [
        [1.0],
        [0.0],
        [0.0, 1.0],
        [0, 1],
        [0.3, 0.0, 2.0],  # a zero that is NOT in front
        [0.0, 0.0, 0.5],
        np.array([0.5, 0.1, 2.0, 0.02]),
        np.array([0.0, 0.5, 0.1, 2.0, 0.02]),
        np.linspace(0.0, 5.0, 23),
        np.linspace(0.01, 5.0, 17),
        np.logspace(-2, 1, 11)[::-1],
        (0.2, 0.4),
        np.array([1, 2, 3]),  # integer dtype
        rng.uniform(0.01, 6.0, 9),
        [],
    ]
    return sets


def run_cases(pkg_dir):
    import warnings
    warnings.simplefilter("ignore")
    sys.path.insert(0, pkg_dir)
    import eqsig
    assert os.path.abspath(eqsig.__file__).startswith(os.path.abspath(pkg_dir) + os.sep), eqsig.__file__
    from eqsig import sdof

    rng = np.random.default_rng(20260926)
    out = []
    recs = make_records(rng)
    psets = make_period_sets(rng)
    xis = [0.0, 0.05, 0.3, 0.7, 0.999, float(rng.uniform(0, 1))]
    dts = [0.01, 0.005, 0.1, 1, np.float64(0.02)]
    fns = [sdof.nigam_and_jennings_response, sdof.response_series, sdof.pseudo_response_spectra,
           sdof.true_response_spectra]

    # 1. full grid on a rotating choice of xi/dt
    k = 0
    for rec in recs:
        for ps in psets:
            for fn in fns:
                xi = xis[k % len(xis)]
                dt = dts[k % len(dts)]
                k += 1
                out.append((fn.__name__, 'grid', k, call(fn, rec, dt, ps, xi)))

    # 2. every xi / dt on some records
    for xi in xis + [np.float64(0.05), 0]:
        for dt in dts:
            for fn in fns:
                out.append((fn.__name__, 'xidt', repr((xi, dt)), call(fn, recs[6].copy(), dt, psets[7].copy(), xi)))

    # 3. the transformations in the property: linear combination, truncation, shift, refinement, permutation/batches
    a = rng.standard_normal(120)
    b = rng.standard_normal(120)
    a[0] = 0.0
    periods = np.array([0.0, 0.05, 0.2, 0.33, 1.0, 2.5, 4.0])
    for xi in [0.0, 0.05, 0.5, 0.95]:
        for fn in fns:
            for alpha, beta in [(1.0, 0.0), (-1.0, 0.0), (2.5, -0.75), (0.0, 0.0), (1e-8, 1e8)]:
                out.append((fn.__name__, 'lin', (alpha, beta, xi), call(fn, alpha * a + beta * b, 0.01, periods, xi)))
            for i in [1, 2, 3, 17, 60, 119, 120]:
                out.append((fn.__name__, 'cut', (i, xi), call(fn, a[:i], 0.01, periods, xi)))
            for sh in [0, 1, 2, 5, 31]:
                out.append((fn.__name__, 'shift', (sh, xi), call(fn, np.concatenate([np.zeros(sh), a]), 0.01, periods,
                                                                xi)))
            for r in range(2, 9):
                t_fine = np.arange((len(a) - 1) * r + 1) / r
                fine = np.interp(t_fine, np.arange(len(a)), a)
                out.append((fn.__name__, 'refine', (r, xi), call(fn, fine, 0.01 / r, periods, xi)))
            for trial in range(4):
                perm = rng.permutation(len(periods))
                out.append((fn.__name__, 'perm', (trial, xi), call(fn, a, 0.01, periods[perm], xi)))
                cut = int(rng.integers(1, len(periods)))
                out.append((fn.__name__, 'batch0', (trial, xi), call(fn, a, 0.01, periods[:cut], xi)))
                out.append((fn.__name__, 'batch1', (trial, xi), call(fn, a, 0.01, periods[cut:], xi)))
            for p in periods:
                out.append((fn.__name__, 'single', (float(p), xi), call(fn, a, 0.01, [p], xi)))

    # 4. random cases
    for trial in range(150):
        n = int(rng.integers(1, 400))
        rec = rng.standard_normal(n) * 10 ** rng.uniform(-3, 3)
        npd = int(rng.integers(1, 12))
        ps = np.sort(rng.uniform(0.01, 8.0, npd))
        if rng.random() < 0.4:
            ps[0] = 0.0
        if rng.random() < 0.3:
            ps = rng.permutation(ps)
        xi = float(rng.uniform(0, 1))
        dt = float(10 ** rng.uniform(-3, -0.5))
        for fn in fns:
            out.append((fn.__name__, 'rand', trial, call(fn, rec, dt, ps, xi)))

    # 5. through the objects that use the response operator (multi-step histories)
    for trial in range(6):
        rec = rng.standard_normal(150)
        asig = eqsig.AccSignal(rec, 0.01 * (trial + 1))
        hist = []
        hist.append(describe((asig.s_a, asig.s_v, asig.s_d)))
        asig.gen_response_spectrum(response_times=np.array([0.0, 0.1, 0.5, 1.0]), xi=0.02 * trial)
        hist.append(describe((asig.s_a, asig.s_v, asig.s_d, asig.response_times)))
        asig.gen_response_spectrum(response_times=np.array([0.04, 0.1, 0.5, 1.0]), min_dt_ratio=8)
        hist.append(describe((asig.s_a, asig.s_v, asig.s_d, asig.response_times)))
        hist.append(describe(asig.response_series(response_times=[0.3, 0.0, 1.2], xi=0.1)))
        hist.append(describe(eqsig.sdof.calc_resp_uke_spectrum(asig, periods=[0.2, 1.0])))
        hist.append(describe(eqsig.sdof.calc_input_energy_spectrum(asig, periods=np.array([0.2, 1.0]), series=True)))
        hist.append(describe(asig.values))
        out.append(('AccSignal', 'hist', trial, hist))
    return out


# ---------------------------------------------------------------------------------------------------------------------
def main():
    if len(sys.argv) == 4 and sys.argv[1] == '--worker':
        res = run_cases(sys.argv[2])
        with open(sys.argv[3], 'wb') as f:
            pickle.dump(res, f)
        return 0

    tmp = tempfile.mkdtemp(prefix='twin3_C02_equiv1_', dir='/tmp')
    orig_dir = os.path.join(tmp, 'orig')
    os.makedirs(orig_dir)
    subprocess.check_call('git archive HEAD eqsig | tar -x -C "%s"' % orig_dir, shell=True, cwd=WORKTREE)
    results = {}
    for name, pkg_dir in [('orig', orig_dir), ('edit', WORKTREE)]:
        outfile = os.path.join(tmp, name + '.pkl')
        env = dict(os.environ)
        env.pop('PYTHONPATH', None)
        subprocess.check_call([sys.executable, os.path.abspath(__file__), '--worker', pkg_dir, outfile], cwd=pkg_dir,
                              env=env)
        with open(outfile, 'rb') as f:
            results[name] = pickle.load(f)
    orig, edit = results['orig'], results['edit']
    bad = 0
    if len(orig) != len(edit):
        print('different number of cases', len(orig), len(edit))
        bad += 1
    n_raised = 0
    for co, ce in zip(orig, edit):
        if co[3][0] == 'raised':
            n_raised += 1
        if co != ce:
            bad += 1
            if bad < 10:
                print('MISMATCH in case', co[:3], co[3][:3] if co[3][0] == 'raised' else '', ce[3][:3] if
                      ce[3][0] == 'raised' else '')
    print('%i cases compared (%i of them raise identically), %i mismatches' % (len(orig), n_raised, bad))
    return 1 if bad else 0


if __name__ == '__main__':
    sys.exit(main())

"""Equivalence check for twin1 (eqsig/fns/time_shift.py).

Run with twin1 applied and cwd = the worktree. Compares the ORIGINAL (git HEAD) versions of
put_array_in_2d_array / join_values_w_shifts / join_sig_w_time_shift with the edited ones.
Exit status 0 iff everything matches.
"""
import copy
import itertools
import os
import subprocess
import sys
import types

sys.path.insert(0, os.getcwd())

import numpy as np

import eqsig
import eqsig.fns.time_shift as new_mod

assert os.path.abspath(eqsig.__file__).startswith(os.getcwd()), eqsig.__file__


def load_original(relpath, modname, package):
    src = subprocess.check_output(['git', 'show', 'HEAD:' + relpath]).decode()
    mod = types.ModuleType(modname)
    mod.__package__ = package
    mod.__file__ = '<git HEAD:%s>' % relpath
    exec(compile(src, mod.__file__, 'exec'), mod.__dict__)
    return mod


old_mod = load_original('eqsig/fns/time_shift.py', 'eqsig.fns._orig_time_shift', 'eqsig.fns')

N_CHECKS = 0
N_OK = 0
np.seterr(all='ignore')


def snapshot(obj):
    """A comparable picture of an argument (used to detect mutation)."""
    if isinstance(obj, np.ndarray):
        return ('nd', obj.dtype.str, obj.shape, obj.tobytes())
    if isinstance(obj, (list, tuple)):
        return (type(obj).__name__, tuple(snapshot(o) for o in obj))
    if hasattr(obj, '__dict__') and not isinstance(obj, type):
        return ('obj', type(obj).__name__, tuple(sorted((k, snapshot(v)) for k, v in vars(obj).items())))
    return ('val', repr(obj))


def same_array(a, b, ctx):
    assert type(a) is type(b), (ctx, type(a), type(b))
    if a is None:
        return
    assert isinstance(a, np.ndarray), (ctx, type(a))
    assert a.dtype == b.dtype, (ctx, a.dtype, b.dtype)
    assert a.shape == b.shape, (ctx, a.shape, b.shape)
    assert np.array_equal(a, b, equal_nan=True), (ctx, a, b)
    # bit-for-bit (also catches signed zeros)
    assert a.tobytes() == b.tobytes(), (ctx, 'bytes differ')
    # same memory character: a view stays a view, an owner stays an owner
    assert (a.base is None) == (b.base is None), (ctx, 'view/owner differs')
    assert a.flags['C_CONTIGUOUS'] == b.flags['C_CONTIGUOUS'], ctx
    assert a.flags['WRITEABLE'] == b.flags['WRITEABLE'], ctx
    assert a.strides == b.strides, (ctx, a.strides, b.strides)


def run(fn, args, kwargs):
    try:
        return ('ok', fn(*args, **kwargs))
    except Exception as exc:  # noqa
        return ('exc', type(exc))


def compare(name, args, kwargs=None):
    global N_CHECKS, N_OK
    kwargs = kwargs or {}
    a_old, k_old = copy.deepcopy(args), copy.deepcopy(kwargs)
    a_new, k_new = copy.deepcopy(args), copy.deepcopy(kwargs)
    before = snapshot(list(args)), snapshot(sorted(kwargs.items()))
    r_old = run(getattr(old_mod, name), a_old, k_old)
    r_new = run(getattr(new_mod, name), a_new, k_new)
    ctx = (name, args, kwargs)
    assert r_old[0] == r_new[0], (ctx, r_old, r_new)
    if r_old[0] == 'exc':
        assert r_old[1] is r_new[1], (ctx, r_old, r_new)
    else:
        same_array(r_old[1], r_new[1], ctx)
    # identical effects on the arguments (there should be none, in either version)
    after_old = snapshot(list(a_old)), snapshot(sorted(k_old.items()))
    after_new = snapshot(list(a_new)), snapshot(sorted(k_new.items()))
    assert after_old == after_new, (ctx, 'argument effects differ')
    assert after_old == before, (ctx, 'arguments were modified')
    N_CHECKS += 1
    N_OK += r_old[0] == 'ok'
    return r_old


CLIPS = ['none', 'start', 'end', 'both', None, 'other']
rng = np.random.RandomState(1905)

# ---------------------------------------------------------------- put_array_in_2d_array
value_sets = [
    np.arange(1, 5),                       # integer dtype (test-suite case)
    np.arange(4, 6),
    np.array([1.5]),                       # single sample
    np.array([]),                          # empty record
    np.zeros(6),
    np.array([0.0, -0.0, 1.0, -1.0]),
    np.array([1.0, np.nan, np.inf, -np.inf, 2.0]),
    [1.0, 2.0, 3.0],                       # list of floats
    [1, 2, 3, 4, 5],                       # list of ints
    (0.5, 0.25),                           # tuple
    np.arange(7, dtype=np.int32),
    np.arange(3, dtype=np.float32) + 0.1,
    np.array([True, False, True]),
    rng.randn(40),
]
shift_sets = [
    np.array([1, 2, 3]),
    np.array([-1, 2]),
    np.array([0]),
    np.array([0, 0, 0]),
    np.array([-3, -2, -1]),                # all negative
    np.array([-4]),
    np.array([5]),
    np.array([-2, 0, 2]),
    np.array([3, -3, 0, 7, -1, 3]),        # unordered, repeated
    [1, 2, 3],                             # plain lists
    [-1, 0, 4],
    (2, -2),
    np.array([1, 2], dtype=np.int32),
    np.array([-1, 0, 1], dtype=np.int8),
    np.array([10, 25]),                    # shifts beyond the record length
    np.array([-30, 30]),
]
for vals, sfs, clip in itertools.product(value_sets, shift_sets, CLIPS):
    compare('put_array_in_2d_array', [vals, sfs], {'clip': clip})
    compare('put_array_in_2d_array', [vals, sfs, clip])
for vals, sfs in itertools.product(value_sets, shift_sets):
    compare('put_array_in_2d_array', [vals, sfs])  # default clip

for _ in range(600):
    n = rng.randint(0, 30)
    kind = rng.randint(4)
    if kind == 0:
        vals = rng.randn(n)
    elif kind == 1:
        vals = rng.randint(-50, 50, size=n)
    elif kind == 2:
        vals = list(rng.randn(n))
    else:
        vals = rng.randn(n) * (rng.rand(n) > 0.5)  # many zeros
    m = rng.randint(1, 7)
    lo, hi = [(-8, 9), (0, 9), (-8, 1), (0, 1)][rng.randint(4)]
    sfs = rng.randint(lo, hi, size=m)
    if rng.rand() < 0.3:
        sfs = [int(s) for s in sfs]
    compare('put_array_in_2d_array', [vals, sfs], {'clip': CLIPS[rng.randint(len(CLIPS))]})

# placement really is at the requested offsets (sanity of the comparison itself)
chk = new_mod.put_array_in_2d_array(np.array([4., 5.]), np.array([-1, 2]))
assert np.array_equal(chk, np.array([[4, 5, 0, 0, 0], [0, 0, 0, 4, 5]]))

# invalid calls fail the same way
compare('put_array_in_2d_array', [np.arange(3.), np.array([], dtype=int)])
compare('put_array_in_2d_array', [np.arange(3.), []])
compare('put_array_in_2d_array', [np.arange(3.), 2])
compare('put_array_in_2d_array', [3.0, np.array([1, 2])])

# ---------------------------------------------------------------- join_values_w_shifts
JTYPES = ['add', 'sub', 'mul', None]
for vals, sfs, jt in itertools.product(value_sets, shift_sets, JTYPES):
    compare('join_values_w_shifts', [vals, sfs], {'jtype': jt})
for vals, sfs in itertools.product(value_sets, shift_sets):
    compare('join_values_w_shifts', [vals, sfs])
    compare('join_values_w_shifts', [vals, sfs, 'sub'])
for _ in range(400):
    n = rng.randint(0, 30)
    vals = rng.randn(n) if rng.rand() < 0.6 else rng.randint(-9, 9, size=n)
    sfs = rng.randint(0, 12, size=rng.randint(1, 6))
    if rng.rand() < 0.25:
        sfs = rng.randint(-4, 6, size=rng.randint(1, 6))  # may fail - must fail alike
    compare('join_values_w_shifts', [vals, sfs], {'jtype': JTYPES[rng.randint(2)]})

# ---------------------------------------------------------------- join_sig_w_time_shift
for _ in range(200):
    n = rng.randint(1, 40)
    dt = [0.01, 0.005, 0.1, 0.5, 1.0][rng.randint(5)]
    vals = rng.randn(n) if rng.rand() < 0.7 else rng.randint(-5, 5, size=n)
    k = rng.randint(1, 5)
    tshifts = rng.randint(0, 10, size=k) * dt * [1.0, 0.5, 1.3][rng.randint(3)]
    if rng.rand() < 0.2:
        tshifts = tshifts * 0.0
    for cls in (eqsig.Signal, eqsig.AccSignal):
        for jt in ('add', 'sub'):
            sig = cls(np.array(vals), dt)
            if rng.rand() < 0.5:  # object with some history (cached state) before the call
                _ = sig.fa_spectrum
                _ = sig.smooth_fa_frequencies
            compare('join_sig_w_time_shift', [sig, tshifts], {'jtype': jt})
            compare('join_sig_w_time_shift', [sig, tshifts, jt])
# a list of time shifts is not a valid input in either version (list / float)
compare('join_sig_w_time_shift', [eqsig.Signal(np.arange(5.), 0.1), [0.1, 0.2]])

assert N_OK > 0.7 * N_CHECKS, (N_OK, N_CHECKS)
print('equiv1: %d comparisons (%d returning normally), all identical' % (N_CHECKS, N_OK))
sys.exit(0)

"""
Equivalence check for twin1 (C17): the centred-window averaging loop of
Signal.running_average and AccSignal.remove_rolling_average moved into
eqsig.fns.average._centred_window_means.

Run with twin1 applied and cwd = the worktree.  The ORIGINAL package is taken
from `git archive HEAD eqsig`; original and edited package are each driven by
the same worker in their own subprocess and the pickled observations are
compared bit-for-bit (dtype, shape, raw bytes, object state, aliasing).
"""
import os
import pickle
import subprocess
import sys
import tempfile

WORKER = r'''
import sys, pickle, warnings
root, out_path = sys.argv[1], sys.argv[2]
sys.path.insert(0, root)
import numpy as np
import eqsig
assert eqsig.__file__.startswith(root), (eqsig.__file__, root)
from eqsig.single import Signal, AccSignal
warnings.simplefilter("ignore")


def enc(v):
    if isinstance(v, np.ndarray):
        return ('nd', v.dtype.str, v.shape, v.tobytes())
    if isinstance(v, np.generic):
        return ('sc', type(v).__name__, v.tobytes())
    if isinstance(v, dict):
        return ('dict', tuple((repr(k), enc(v[k])) for k in sorted(v, key=repr)))
    if isinstance(v, (list, tuple)):
        return (type(v).__name__, tuple(enc(i) for i in v))
    if isinstance(v, float):
        return ('float', np.float64(v).tobytes())
    return ('py', type(v).__name__, repr(v))


def state(obj):
    return tuple((k, enc(val)) for k, val in sorted(vars(obj).items()))


def attempt(fn):
    try:
        return ('ok', enc(fn()))
    except Exception as e:  # noqa
        return ('exc', type(e).__name__, str(e))


rng = np.random.RandomState(1234)
obs = []


def make_values(kind, n):
    if kind == 'randn':
        return rng.randn(n)
    if kind == 'list':
        return list(rng.randn(n))
    if kind == 'int':
        return rng.randint(-50, 50, size=n)
    if kind == 'intlist':
        return [int(i) for i in rng.randint(-50, 50, size=n)]
    if kind == 'zeros':
        return np.zeros(n)
    if kind == 'negzeros':
        return -np.zeros(n)
    if kind == 'f32':
        return rng.randn(n).astype(np.float32)
    if kind == 'big':
        return 1e12 * rng.randn(n) + 1e15
    if kind == 'ramp':
        return np.arange(n) * 0.5 - 3
    if kind == 'nan':
        v = rng.randn(n)
        v[n // 2] = np.nan
        return v
    raise ValueError(kind)


kinds = ['randn', 'list', 'int', 'intlist', 'zeros', 'negzeros', 'f32', 'big', 'ramp', 'nan']
lengths = [1, 2, 3, 4, 5, 7, 8, 9, 16, 17, 31, 64, 100]
widths = list(range(0, 27)) + [30, 51, 99, 100, 101, 250, 2.0, 3.0, 4.5, 7.9]

# ---- Signal.running_average and AccSignal.running_average -------------------------
for cls in (Signal, AccSignal):
    for kind in kinds:
        for n in lengths:
            src = make_values(kind, n)
            src_before = enc(src)
            for width in widths:
                sig = cls(src, 0.01)
                # fill the caches so that clearing them is observable
                _ = sig.fa_spectrum
                if cls is AccSignal and n > 1:
                    _ = sig.velocity
                held = sig.values           # outside reference to the value array
                inner = sig._values
                res = attempt(lambda: sig.running_average(width=width))
                obs.append(('ra', cls.__name__, kind, n, width, res, state(sig),
                            sig._values is inner, sig.values is held, enc(held),
                            enc(src) == src_before))
            # default width and positional form, multi-step history
            sig = cls(src, 0.02)
            r1 = attempt(lambda: sig.running_average())
            s1 = state(sig)
            r2 = attempt(lambda: sig.running_average(5))
            s2 = state(sig)
            _ = sig.fa_spectrum
            r3 = attempt(lambda: sig.running_average(3))
            s3 = state(sig)
            sig.add_constant(1.5)
            r4 = attempt(lambda: sig.running_average(4))
            obs.append(('ra-hist', cls.__name__, kind, n, r1, s1, r2, s2, r3, s3, r4, state(sig)))

# ---- AccSignal.remove_rolling_average -----------------------------------------------
for kind in kinds:
    for n in [2, 3, 5, 8, 17, 40, 100, 257]:
        src = make_values(kind, n)
        src_before = enc(src)
        for dt in (0.01, 0.005, 0.1):
            for mtype in ('velocity', 'acceleration'):
                for fw in (1, 2, 5, 7.5, 20, 100, 1000):
                    asig = AccSignal(src, dt)
                    _ = asig.fa_spectrum
                    _ = asig.velocity
                    inner = asig._values
                    held = asig.values
                    res = attempt(lambda: asig.remove_rolling_average(mtype=mtype, freq_window=fw))
                    obs.append(('rra', kind, n, dt, mtype, fw, res, state(asig),
                                asig._values is inner, enc(held), enc(src) == src_before,
                                attempt(lambda: asig.velocity), attempt(lambda: asig.displacement)))
        # defaults + history: rolling average removal followed by running average
        asig = AccSignal(src, 0.01)
        r1 = attempt(lambda: asig.remove_rolling_average())
        s1 = state(asig)
        r2 = attempt(lambda: asig.running_average(7))
        s2 = state(asig)
        r3 = attempt(lambda: asig.remove_rolling_average("acc", 3))
        obs.append(('rra-hist', kind, n, r1, s1, r2, s2, r3, state(asig)))

with open(out_path, 'wb') as f:
    pickle.dump(obs, f)
'''


def main():
    here = os.getcwd()
    assert os.path.isdir(os.path.join(here, 'eqsig')), "run with cwd = the worktree"
    tmp = tempfile.mkdtemp(prefix='c17_equiv1_', dir='/tmp')
    orig = os.path.join(tmp, 'orig')
    os.makedirs(orig)
    subprocess.check_call('git archive HEAD eqsig | tar -x -C "%s"' % orig, shell=True, cwd=here)
    worker = os.path.join(tmp, 'worker.py')
    with open(worker, 'w') as f:
        f.write(WORKER)
    results = {}
    for name, root in (('orig', orig), ('new', here)):
        out_path = os.path.join(tmp, name + '.pkl')
        env = dict(os.environ)
        env.pop('PYTHONPATH', None)
        subprocess.check_call([sys.executable, worker, root, out_path], cwd=root, env=env)
        with open(out_path, 'rb') as f:
            results[name] = pickle.load(f)
    a, b = results['orig'], results['new']
    assert len(a) == len(b) and len(a) > 1000, (len(a), len(b))
    bad = [(x[:6], ) for x, y in zip(a, b) if x != y]
    if bad:
        print("MISMATCHES: %i of %i" % (len(bad), len(a)))
        for item in bad[:20]:
            print(item)
        sys.exit(1)
    n_exc = sum(1 for x in a for part in x if isinstance(part, tuple) and part[:1] == ('exc',))
    print("equiv1: %i observations identical (%i of them exceptions)" % (len(a), n_exc))
    sys.exit(0)


if __name__ == '__main__':
    main()

"""Equivalence check for twin3 (c_h_factor: single-float handling moved into a private decorator, enumerate loop).

Run with twin3 applied, cwd = the worktree.  Exit status 0 iff original and edited agree.
"""
import os
import subprocess
import sys
import tempfile
import itertools

import numpy as np

HERE = os.getcwd()


def load_pair():
    """returns (original package, edited package)"""
    sys.path.insert(0, HERE)
    import eqsig as new
    assert new.__file__.startswith(HERE), new.__file__
    saved = {k: v for k, v in sys.modules.items() if k == 'eqsig' or k.startswith('eqsig.')}
    for k in saved:
        del sys.modules[k]
    tmp = tempfile.mkdtemp(prefix='c20_orig_', dir='/tmp')
    subprocess.check_call('git archive HEAD eqsig | tar -x -C %s' % tmp, shell=True, cwd=HERE)
    sys.path.insert(0, tmp)
    import eqsig as old
    assert old.__file__.startswith(tmp), old.__file__
    sys.path.remove(tmp)
    for k in [k for k in sys.modules if k == 'eqsig' or k.startswith('eqsig.')]:
        del sys.modules[k]
    sys.modules.update(saved)
    return old, new


old, new = load_pair()
n_checked = 0


def same(a, b):
    if isinstance(a, tuple):
        return isinstance(b, tuple) and len(a) == len(b) and all(same(p, q) for p, q in zip(a, b))
    if type(a) is not type(b):
        return False
    if isinstance(a, np.ndarray):
        return a.dtype == b.dtype and a.shape == b.shape and np.array_equal(a, b, equal_nan=True) \
            and np.array_equal(np.signbit(a), np.signbit(b))
    if isinstance(a, (float, np.floating)):
        return (a == b or (a != a and b != b))
    return a == b


def call(fn, args, kwargs):
    import io
    import contextlib
    buf = io.StringIO()
    try:
        with contextlib.redirect_stdout(buf):
            r = fn(*args, **kwargs)
        return 'ok', (r, buf.getvalue())
    except Exception as e:  # compare exception classes, messages and printed text as well
        return 'exc', (type(e), str(e), buf.getvalue())


def check(name, fo, fn_, args, kwargs=None, copier=None):
    """calls both versions on separate copies of the arguments, compares results and argument mutation"""
    global n_checked
    kwargs = kwargs or {}
    import copy
    a_o = copy.deepcopy(args)
    a_n = copy.deepcopy(args)
    ro = call(fo, a_o, kwargs)
    rn = call(fn_, a_n, kwargs)
    assert ro[0] == rn[0], (name, args, kwargs, ro, rn)
    if ro[0] == 'exc':
        assert ro[1] == rn[1], (name, args, kwargs, ro, rn)
    else:
        assert same(ro[1], rn[1]), (name, args, kwargs, ro, rn)
    # arguments must be left in the same state by both (and here: untouched)
    for x, y, z in zip(a_o, a_n, args):
        if isinstance(z, np.ndarray):
            assert same(x, y) and same(x, z), (name, 'argument mutated')
        elif isinstance(z, (list, tuple)):
            assert type(x) is type(y) is type(z) and len(x) == len(y) == len(z), (name, 'argument mutated')
            assert all(same(p, q) and same(p, r) for p, q, r in zip(x, y, z)), (name, 'argument mutated')
        else:
            assert same(x, y) and same(x, z), (name, 'argument mutated', x, y, z)
    n_checked += 1



ods, nds = old.design_spectra, new.design_spectra
assert ods is not nds
pub = lambda m: sorted(k for k in vars(m) if not k.startswith('_'))
assert pub(ods) == pub(nds), set(pub(ods)) ^ set(pub(nds))
assert pub(old) == pub(new)
import inspect
for name in ['c_h_factor', 'sd_nzs', 't_eff']:
    a, b = getattr(ods, name), getattr(nds, name)
    assert a is not b
    assert a.__name__ == b.__name__ and a.__doc__ == b.__doc__ and a.__module__ == b.__module__ \
        and a.__qualname__ == b.__qualname__
    assert str(inspect.signature(a)) == str(inspect.signature(b)), name
for name in ['sd_nzs', 't_eff']:
    assert inspect.getsource(getattr(ods, name)) == inspect.getsource(getattr(nds, name))

rng = np.random.default_rng(1170)
classes = ['C', 'D', 'E']
bounds = [0.0, 0.1, 0.3, 0.56, 1.0, 1.5, 3.0]
edge_T = sorted(set(
    bounds
    + [float(np.nextafter(b, np.inf)) for b in bounds]
    + [float(np.nextafter(b, -np.inf)) for b in bounds[1:]]
    + [-0.0, 1e-300, 5e-324, 1e-12, 0.05, 0.2, 0.4, 0.7, 1.2, 2.0, 2.999999, 3.000001, 4.5, 10.0, 1e6, 1e308]))


def ch(args, kwargs=None):
    check('c_h_factor', ods.c_h_factor, nds.c_h_factor, args, kwargs)


with np.errstate(all='ignore'):
    for sc in classes:
        # single python floats and numpy float64 scalars (both are `float` instances)
        for T in edge_T:
            ch((T, sc))
            ch((np.float64(T), sc))
            ch((T,), {'site_class': sc})
            ch((), {'period': T, 'site_class': sc})
            ch(([T], sc))
            ch((np.array([T]), sc))
        for T in rng.uniform(0, 6, size=400):
            ch((float(T), sc))
        # sequences: arrays, lists, tuples, integer arrays, views, empty
        ch((np.array(edge_T), sc))
        ch((list(edge_T), sc))
        ch((tuple(edge_T), sc))
        ch((np.array(edge_T)[::-1], sc))
        ch((np.array(edge_T)[::3], sc))
        ch((np.arange(0, 8), sc))
        ch((list(range(0, 8)), sc))
        ch((range(0, 8), sc))
        ch(([0, 0.05, 1, 2.5, 3, 7], sc))
        ch((np.array(edge_T, dtype=np.float32), sc))
        ch((np.array([]), sc))
        ch(([], sc))
        ch((np.linspace(0, 5, 501), sc))
        ch((np.logspace(-3, 1, 200), sc))
        for _ in range(60):
            n = int(rng.integers(1, 40))
            T = rng.choice([rng.uniform(0, 5, size=n), rng.exponential(1.0, size=n)])
            ch((T, sc))
            ch((list(T), sc))
            ch(([float(t) for t in T], sc))
        # negative periods: same ValueError and same printed line, also when met part-way
        ch((-0.1, sc))
        ch((-1e-300, sc))
        ch((np.array([0.5, 1.0, -0.2, 2.0]), sc))
        ch(([-1.0, 0.5], sc))
        ch((np.nan, sc))
        ch((np.array([0.5, np.nan, np.inf]), sc))
        ch((np.inf, sc))
        # scalars that are not floats, 0-d and 2-d arrays: same failure
        ch((1, sc))
        ch((np.float32(0.5), sc))
        ch((np.array(0.5), sc))
        ch((np.array([[0.5], [1.0]]), sc))
        ch((np.array([[0.5, 0.6], [1.0, 2.0]]), sc))
        ch((None, sc))
        ch(('abc', sc))
    # default site class
    for T in edge_T:
        ch((T,))
    ch((np.array(edge_T),))
    ch(())
    ch((0.5, 'C', 1))
    ch((0.5,), {'soil': 'C'})
    # bad site classes: ValueError with print for non-empty input, nothing for empty input
    for sc in ['F', 'c', '', None, 3, 'CD']:
        ch((0.5, sc))
        ch((np.array([0.5, 1.0]), sc))
        ch(([], sc))
        ch((-0.5, sc))
        ch(([0.5, -0.5], sc))

    # results are fresh objects of the same kind: arrays are writeable and not shared between calls
    for mod in (ods, nds):
        r1 = mod.c_h_factor(np.array([0.5, 1.0]), 'D')
        r2 = mod.c_h_factor(np.array([0.5, 1.0]), 'D')
        assert r1 is not r2 and r1.flags.writeable and r1.flags.owndata
        assert type(mod.c_h_factor(0.5, 'D')) is np.float64

    # the relation S_d = C_h(T) T^2 Z N R of the property, evaluated with both packages, and the others
    for sc in classes:
        for T in edge_T + [float(t) for t in rng.uniform(0, 6, size=200)]:
            z, r, n = (float(v) for v in rng.uniform(0.1, 2.0, size=3))
            check('sd_nzs', ods.sd_nzs, nds.sd_nzs, (T, sc, z, r, n))
            check('sd_nzs-arr1', ods.sd_nzs, nds.sd_nzs, (np.array([T]), sc, z, r, n))
            if 0 <= T < 1e150:  # python floats raise OverflowError on 1e308 ** 2 (identically in both, see above)
                a = ods.c_h_factor(T, sc) * T ** 2 * z * n * r
                b = nds.c_h_factor(T, sc) * T ** 2 * z * n * r
                assert same(a, b)
        for d in list(rng.uniform(0, 3, size=200)) + [0.0, 1e-9]:
            z, r, n = (float(v) for v in rng.uniform(0.1, 2.0, size=3))
            check('t_eff', ods.t_eff, nds.t_eff, (float(d), sc, z, r, n))
    check('sd_nzs-neg', ods.sd_nzs, nds.sd_nzs, (-1.0, 'C', 1, 1, 1))
    check('sd_nzs-bad', ods.sd_nzs, nds.sd_nzs, (1.0, 'F', 1, 1, 1))
    check('t_eff-bad', ods.t_eff, nds.t_eff, (1.0, 'F', 1, 1, 1))
    check('t_eff-big', ods.t_eff, nds.t_eff, (1e9, 'C', 1, 1, 1))

print('equiv3: %d comparisons identical' % n_checked)
sys.exit(0)

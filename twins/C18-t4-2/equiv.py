"""
Equivalence check for twin2 (Cluster.time_match: the two lag-search loops merged into one parameterised loop).

Run with twin2 applied, cwd = the worktree:
    /venv/bin/python out/equiv2.py

The ORIGINAL package is extracted from git (HEAD) into a temporary directory; the same
scenario script is then executed in two subprocesses (original vs. edited package), each of
which records a normalised trace of every result / exception / object state / stdout.
The two traces must be identical (bit-for-bit for arrays, incl. dtype and shape).
"""
import io
import os
import pickle
import shutil
import subprocess
import sys
import tempfile

WORKTREE = os.path.dirname(os.path.dirname(os.path.abspath(__file__)))


# --------------------------------------------------------------------------------------
# child side
# --------------------------------------------------------------------------------------

def norm(obj, depth=0):
    """Normalises a python object into something picklable and exactly comparable"""
    import numpy as np
    if depth > 6:
        return ('deep', repr(type(obj)))
    if isinstance(obj, np.ndarray):
        if obj.dtype == object:
            return ('ndarray-object', obj.shape, [norm(o, depth + 1) for o in obj.ravel().tolist()])
        return ('ndarray', str(obj.dtype), obj.shape, np.ascontiguousarray(obj).tobytes())
    if isinstance(obj, np.generic):
        return ('npscalar', type(obj).__name__, np.asarray(obj).tobytes())
    if isinstance(obj, (bool, int, float, complex, str, bytes, type(None))):
        return (type(obj).__name__, repr(obj))
    if isinstance(obj, (list, tuple)):
        return (type(obj).__name__, [norm(o, depth + 1) for o in obj])
    if isinstance(obj, dict):
        return (type(obj).__name__, [(norm(k, depth + 1), norm(v, depth + 1)) for k, v in obj.items()])
    if isinstance(obj, BaseException):
        return ('exception', type(obj).__name__, str(obj))
    if hasattr(obj, '__dict__'):
        return ('object', type(obj).__name__, [(k, norm(v, depth + 1)) for k, v in sorted(vars(obj).items())])
    return ('other', type(obj).__name__, repr(obj))


def child(pkg_root, out_file):
    sys.path.insert(0, pkg_root)
    os.chdir(pkg_root)
    import contextlib
    import warnings
    import numpy as np
    import eqsig
    import eqsig.multiple
    assert os.path.abspath(eqsig.__file__).startswith(os.path.abspath(pkg_root) + os.sep), (eqsig.__file__, pkg_root)
    assert os.path.abspath(eqsig.multiple.__file__).startswith(os.path.abspath(pkg_root) + os.sep)
    warnings.simplefilter('ignore')

    trace = []

    def record(label, fn):
        """Runs fn, records its (normalised) result or exception plus whatever it printed"""
        buf = io.StringIO()
        try:
            with contextlib.redirect_stdout(buf):
                res = fn()
            trace.append((label, 'ok', norm(res), buf.getvalue()))
        except Exception as e:  # noqa
            trace.append((label, 'exc', norm(e), buf.getvalue()))

    rng = np.random.RandomState(1802)
    DT = 0.01

    def base_series(kind, n):
        t = np.arange(n) * DT
        if kind == 'walk':
            return np.cumsum(rng.randn(n))
        if kind == 'sine':
            return np.sin(7.3 * t) + 0.3 * np.sin(23.1 * t + 0.4)
        if kind == 'noise':
            return rng.randn(n)
        if kind == 'int':
            return rng.randint(-20, 20, n)
        if kind == 'intwalk':
            return np.cumsum(rng.randint(-3, 4, n))
        if kind == 'zeros':
            return np.zeros(n)
        if kind == 'const':
            return np.ones(n) * 2.5
        if kind == 'ramp':
            return np.arange(n, dtype=float) * 0.1
        if kind == 'plateaus':
            return np.repeat(rng.randn(n // 4 + 1), 4)[:n]
        if kind == 'periodic':
            return np.tile(np.array([0., 1., 0., -1.]), n // 4 + 1)[:n]
        if kind == 'float32':
            return np.cumsum(rng.randn(n)).astype(np.float32)
        if kind == 'big':
            return np.cumsum(rng.randn(n)) * 1e12 + 1e15
        raise ValueError(kind)

    kinds = ['walk', 'sine', 'noise', 'int', 'intwalk', 'zeros', 'const', 'ramp', 'plateaus', 'periodic',
             'float32', 'big']

    def lagged_set(kind, n, lags, noise=0.0, as_list=False):
        """Windows of one long series, window k starting lags[k] samples later"""
        pad = max(abs(l) for l in lags) + 1
        x = base_series(kind, n + 2 * pad)
        out = []
        for l in lags:
            v = x[pad + l: pad + l + n]
            if noise:
                v = v + noise * rng.randn(n)
            else:
                v = v.copy()
            out.append(list(v) if as_list else v)
        return out

    def run_tm(values, master=0, stypes='custom', pre=None, calls=({},), names=None, tweak_master=None):
        c = eqsig.Cluster(values, DT, names=names, master_index=master, stypes=stypes)
        if pre is not None:
            pre(c)
        if tweak_master is not None:
            c.master_index = tweak_master
        outs = []
        for kw in calls:
            if kw == 'same_start':
                c.same_start()
                outs.append('same_start')
            else:
                try:
                    r = c.time_match(**kw)
                    outs.append(('ret', type(r).__name__, r))
                except Exception as e:  # noqa
                    outs.append(e)
            outs.append(norm(c))
            outs.append([(type(c.values_by_index(i)).__name__, c.signal_by_index(i).npts)
                         for i in range(c.n_signals)])
        return outs, values

    # ---- main sweep: kinds x cluster sizes x master x steps, lags in (-steps, steps) ------
    for kind in kinds:
        for n_sig in (2, 3, 4):
            for master in range(n_sig):
                for steps in (1, 2, 3, 5, 10, 20):
                    n = int(rng.choice([steps + 1, steps + 2, 2 * steps + 3, 40, 97, 150]))
                    lags = [int(l) for l in rng.randint(-steps + 1, steps, n_sig)]
                    lags[master] = 0
                    values = lagged_set(kind, n, lags)
                    kw = {} if steps == 10 else {'steps': steps}
                    record('sweep/%s/%i/%i/%i/%i/%r' % (kind, n_sig, master, steps, n, lags),
                           lambda values=values, master=master, kw=kw: run_tm(values, master, calls=(kw,)))

    # ---- every lag in (-steps, steps) for two signals, either master ----------------------
    for kind in ('walk', 'sine', 'intwalk', 'plateaus'):
        for steps in (4, 10):
            for lag in range(-steps + 1, steps):
                for master in (0, 1):
                    lags = [lag, lag]
                    lags[master] = 0
                    values = lagged_set(kind, 120, lags)
                    record('alllags/%s/%i/%i/%i' % (kind, steps, lag, master),
                           lambda values=values, master=master, steps=steps:
                           run_tm(values, master, calls=({'steps': steps},)))

    # ---- noisy copies (no exact match), lists, acc signals ---------------------------------
    for rep in range(40):
        n_sig = int(rng.randint(2, 5))
        master = int(rng.randint(0, n_sig))
        steps = int(rng.choice([3, 10, 15]))
        lags = [int(l) for l in rng.randint(-steps + 1, steps, n_sig)]
        lags[master] = 0
        kind = ['walk', 'sine', 'noise', 'intwalk'][rep % 4]
        values = lagged_set(kind, 200, lags, noise=[0.0, 1e-9, 0.05, 0.5][rep % 4 if kind != 'intwalk' else 0],
                            as_list=(rep % 3 == 0))
        stypes = ['custom', 'acc', ['acc', 'custom', 'acc', 'custom'][:n_sig]][rep % 3]
        record('noisy/%i' % rep, lambda values=values, master=master, steps=steps, stypes=stypes:
               run_tm(values, master, stypes=stypes, calls=({'steps': steps},)))

    # ---- short arrays ---------------------------------------------------------------------
    for steps in (1, 3, 10):
        for n in sorted(set([1, 2, 3, max(steps - 1, 1), steps, steps + 1, steps + 2])):
            for kind in ('walk', 'int', 'zeros'):
                for master in (0, 1, 2):
                    values = [base_series(kind, n) for _ in range(3)]
                    record('short/%i/%i/%s/%i' % (steps, n, kind, master),
                           lambda values=values, master=master, steps=steps:
                           run_tm(values, master, calls=({'steps': steps},)))
                values = [list(base_series(kind, n)) for _ in range(2)]
                record('shortlist/%i/%i/%s' % (steps, n, kind),
                       lambda values=values, steps=steps: run_tm(values, 1, calls=({'steps': steps},)))

    # ---- unequal lengths -------------------------------------------------------------------
    for li, lengths in enumerate([(100, 97), (97, 100), (100, 100, 130), (100, 100, 80), (100, 90, 95),
                                  (90, 100, 100, 120), (120, 100, 90, 95), (100, 100, 100, 15)]):
        for master in range(len(lengths)):
            x = base_series('walk', 160)
            values = [x[5 + 2 * k: 5 + 2 * k + ln].copy() for k, ln in enumerate(lengths)]
            record('unequal/%i/%i' % (li, master),
                   lambda values=values, master=master: run_tm(values, master, calls=({}, {'steps': 4})))

    # ---- option combinations ---------------------------------------------------------------
    values3 = lagged_set('walk', 80, [0, 3, -4])
    for oi, kw in enumerate([{'verbose': 1}, {'verbose': 2, 'steps': 5}, {'verbose': True, 'steps': 1},
                             {'set_step': False}, {'set_step': 5}, {'set_step': 0}, {'set_step': True},
                             {'set_step': None}, {'trim': False}, {'trim': True, 'steps': 6}, {'unknown': 3},
                             {'steps': 0}, {'steps': -3}, {'steps': 2.5}, {'steps': np.int64(6)}, {'steps': 200},
                             {'steps': 79}, {'steps': 80}, {'steps': 81}, {'steps': None}, {'steps': '3'},
                             {'steps': True}]):
        for master in (0, 1, 2):
            record('opts/%i/%i' % (oi, master),
                   lambda kw=kw, master=master: run_tm([v.copy() for v in values3], master, calls=(kw,)))
    record('opts/positional', lambda: eqsig.Cluster(values3, DT).time_match(5))

    # ---- multi-step histories and cached state --------------------------------------------
    def warm(c):
        for i in range(c.n_signals):
            s = c.signal_by_index(i)
            _ = s.fa_spectrum
            _ = s.smooth_fa_spectrum
            if isinstance(s, eqsig.AccSignal):
                s.generate_displacement_and_velocity_series()
                _ = s.pga
                s.generate_response_spectrum(response_times=np.array([0.2, 0.5, 1.0]))

    for hi, calls in enumerate([({}, {}), ({'steps': 3}, {'steps': 12}), ({'steps': 12}, {'steps': 3}, {}),
                                ('same_start', {}), ({}, 'same_start', {'steps': 5}),
                                ({'verbose': 1}, {'verbose': 1}), ({'steps': 2}, {'steps': 2}, {'steps': 2})]):
        for stypes in ('custom', 'acc'):
            for master in (0, 2):
                values = lagged_set('sine', 150, [0, 7, -2, 4])
                values[1] = values[1] + 0.3
                values[0] = values[0] - 0.1
                record('hist/%i/%s/%i' % (hi, stypes, master),
                       lambda values=values, calls=calls, stypes=stypes, master=master:
                       run_tm(values, master, stypes=stypes, pre=warm, calls=calls,
                              names=['a', 'b']))

    # ---- unusual clusters -----------------------------------------------------------------
    record('one-signal', lambda: run_tm([base_series('walk', 50)], 0))
    record('five-signals', lambda: run_tm(lagged_set('walk', 90, [0, 1, -1, 5, -7]), 3))
    record('tweak-master/-1', lambda: run_tm(lagged_set('walk', 90, [0, 2, -3]), 0, tweak_master=-1))
    record('tweak-master/7', lambda: run_tm(lagged_set('walk', 90, [0, 2, -3]), 0, tweak_master=7))
    record('tweak-master/1.0', lambda: run_tm(lagged_set('walk', 90, [0, 2, -3]), 0, tweak_master=1.0))
    v = lagged_set('walk', 90, [0, 2, -3])
    v[1][10] = np.nan
    record('nan', lambda: run_tm(v, 0))
    v = lagged_set('walk', 90, [0, 2, -3])
    v[0][5] = np.inf
    record('inf', lambda: run_tm(v, 2))
    record('2d-array-input', lambda: run_tm(np.array(lagged_set('sine', 64, [0, 3, -3])), 1))
    record('tuple-input', lambda: run_tm(tuple(tuple(x) for x in lagged_set('sine', 64, [0, 3, -3])), 1))
    record('complex', lambda: run_tm([x * (1 + 0.5j) for x in lagged_set('walk', 64, [0, 3])], 0))
    record('bool', lambda: run_tm([x > 0 for x in lagged_set('noise', 64, [0, 3])], 0))

    with open(out_file, 'wb') as f:
        pickle.dump(trace, f)


# --------------------------------------------------------------------------------------
# parent side
# --------------------------------------------------------------------------------------

def main():
    tmp = tempfile.mkdtemp(prefix='c18_equiv2_', dir='/tmp')
    try:
        orig_root = os.path.join(tmp, 'orig')
        os.makedirs(orig_root)
        subprocess.check_call('git archive HEAD eqsig | tar -x -C "%s"' % orig_root, shell=True, cwd=WORKTREE)
        traces = []
        for root in (orig_root, WORKTREE):
            out_file = os.path.join(tmp, 'trace_%i.pkl' % len(traces))
            env = dict(os.environ)
            env.pop('PYTHONPATH', None)
            subprocess.check_call([sys.executable, os.path.abspath(__file__), '--child', root, out_file],
                                  cwd=root, env=env)
            with open(out_file, 'rb') as f:
                traces.append(pickle.load(f))
        t_orig, t_new = traces
        assert len(t_orig) == len(t_new), (len(t_orig), len(t_new))
        bad = 0
        n_exc = 0
        for a, b in zip(t_orig, t_new):
            assert a[0] == b[0]
            if a[1] == 'exc':
                n_exc += 1
            if a != b:
                bad += 1
                if bad < 10:
                    print('MISMATCH in scenario', a[0])
                    print('   original:', repr(a[1:])[:600])
                    print('   edited  :', repr(b[1:])[:600])
        print('%i scenarios compared (%i raising in the original), %i mismatches' % (len(t_orig), n_exc, bad))
        return 1 if bad else 0
    finally:
        shutil.rmtree(tmp, ignore_errors=True)


if __name__ == '__main__':
    if len(sys.argv) == 4 and sys.argv[1] == '--child':
        child(sys.argv[2], sys.argv[3])
    else:
        sys.exit(main())

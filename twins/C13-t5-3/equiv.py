"""
Equivalence program for twin 3 (restructuring: the two sibling peak-only series functions and their two
*_4_cleaned_data siblings are merged into shared private helpers taking the differing step as a function;
the three copies of "absolute values at switched peaks scattered into a zero series" in eqsig.im are merged
into private helpers; the four np.insert bookkeeping calls of calc_n_cyc_array_w_power_law become two
concatenations).

Run with the edit applied and cwd = worktree:
    PYTHONPATH=$PWD python out/equiv3.py

The ORIGINAL package is obtained with `git archive HEAD eqsig` into a temporary directory.  The same
deterministic list of cases is evaluated in two subprocesses (original / edited), results are pickled
and compared here.  Exit status 0 iff every case matches (same type, dtype, shape, values bit-for-bit
or to 1e-12 relative, same exception type, same state of the arguments after the call).  Besides the
whole-domain sweep shared by the three programs, this one adds: pairings of failing / unusual first and
second components (order of evaluation changed from interleaved to sequential), replacement of the public
helpers in the module namespace between calls (the merged code must still look them up at call time),
interleaved histories of calls on the same arrays, and the public namespace of eqsig.fns.
"""
import io
import os
import pickle
import subprocess
import sys
import tarfile
import tempfile
import warnings

import numpy as np

TWIN_FOCUS = 'restructuring'
SEED = 1303


# --------------------------------------------------------------------------------------
# case generation (does not depend on eqsig)
# --------------------------------------------------------------------------------------
def gen_series(rs, kind, n=None):
    """Return an ndarray series of the requested kind"""
    if n is None:
        n = int(rs.choice([2, 3, 4, 5, 6, 8, 11, 17, 30, 61, 120]))
    if kind == 0:
        return rs.normal(0, 1, n)
    if kind == 1:
        return np.cumsum(rs.randint(-2, 3, n)).astype(np.int64)
    if kind == 2:
        dt = [np.int32, np.int16, np.int8, np.uint8, np.uint16][rs.randint(5)]
        walk = np.cumsum(rs.randint(-2, 3, n))
        if np.dtype(dt).kind == 'u':
            walk = walk - walk.min() + rs.randint(0, 3)
        walk = np.clip(walk, np.iinfo(dt).min // 2, np.iinfo(dt).max // 2)
        return walk.astype(dt)
    if kind == 3:
        return np.round(rs.normal(0, 1, n), 1) + float(rs.choice([0., 0., 0.5, -3., 10.]))
    if kind == 4:
        steps = np.abs(rs.randint(0, 3, n)) * float(rs.choice([-1, 1]))
        return np.cumsum(steps) * float(rs.choice([1., 0.1]))
    if kind == 5:
        t = np.arange(n) * rs.uniform(0.05, 1.5)
        return np.sin(t) * rs.uniform(0.1, 3) + rs.normal(0, 0.2, n) + float(rs.choice([0., 0., 0.3]))
    if kind == 6:
        v = rs.randint(-3, 4, n).astype(float)
        v[rs.randint(0, n, max(1, n // 4))] = 0.0
        return v
    if kind == 7:
        m = int(rs.choice([2, 2, 3, 3, 4]))
        return rs.randint(-2, 3, m).astype([float, np.int64][rs.randint(2)])
    if kind == 8:
        core = rs.normal(0, 1, n)
        lead = np.full(rs.randint(0, 4), core[0])
        trail = np.full(rs.randint(0, 4), core[-1])
        return np.concatenate((lead, core, trail))
    if kind == 9:
        return rs.normal(0, 1, n).astype(np.float32)
    if kind == 10:
        return 1.0e6 + np.round(rs.normal(0, 1, n), 2)
    if kind == 11:
        v = rs.normal(0, 1, n)
        v[0] = 0.0
        return v
    raise ValueError(kind)


N_KINDS = 12


def as_form(rs, arr, forms=(0, 0, 0, 1, 2)):
    f = forms[rs.randint(len(forms))]
    if f == 1:
        return arr.tolist()
    if f == 2:
        return tuple(arr.tolist())
    return arr


def odd_inputs():
    """Inputs at or beyond the edge of the domain (exceptions, unusual shapes)"""
    return [
        [], np.array([]), [1.0], np.array([2]), [3, 3, 3], np.array([1.5, 1.5]), np.array(5.0), 4,
        np.array([[0., 1., 0.], [2., -1., 3.]]), [[0, 1], [1, 0], [2, 5]],
        np.array([0., 1., np.nan, 2., 1.]), np.array([np.nan, 1., 0., 2.]), np.array([0., np.inf, 1., -np.inf, 0.]),
        np.array([True, False, True, True]), np.array(['a', 'b']), None, 'abc',
        np.array([0, 1, 0, 255, 0], dtype=np.uint8), np.array([5, 250, 3, 200], dtype=np.uint8),
        np.array([-128, 127, -128, 0], dtype=np.int8), np.array([1 + 1j, 2, 0]),
        np.array([0., -0., 0., 1., -0., -1.]), np.array([-0., 1., 1., 0.5, 0.5, 2.]),
        [0, 2, 1, 2, 0, 1, 0, -1, 0, 1, 0], [0, 2, 1, 2, -1, 1, 1, 0.3, -1, 0.2, 1, 0.2],
        np.array([1, 1, 1, 2]), np.array([2, 1, 1, 1]), np.array([0, 0, 0, 0, -1, -1]),
        np.arange(5), -np.arange(5.), np.array([1., 2.]), np.array([2., 1.]), np.array([0, 5]), np.array([7, 7, 3]),
    ]


def extra_cases(rs):
    """Cases specific to this twin"""
    cases = []
    pk = 'eqsig.fns.peaks_and_crossings.'
    bad = [[], (), np.array([]), np.zeros((0, 3)), np.array(1.0), np.array(None), 2.5, None, 'ab', [[1, 2], [3]],
           np.array(['x', 'y', 'z']), np.array([None, 1.0], dtype=object), range(0), {1, 2, 3}, [3, 3], np.array([2.0]),
           np.array([np.nan, 1.0, 0.0]), np.array([1 + 1j, 0, 2])]
    good = [np.array([0., 1., -1., 0.]), [0, 2, -2, 1], (1., -1., 1., -1.), np.array([0, 3, -3, 0]), np.array([0., 1.]), [0, 1, -1],
            np.array([0, 1, 0, 2], dtype=np.uint8), np.array([True, False, True]), np.array([0, 1, -2], dtype=object),
            np.ma.masked_array([0., 1., -0.5, 2.]), np.array([[0., 1., -1.], [2., -2., 0.]]), range(4), np.array([0., -1., 2.], dtype=np.float32)]
    pool = bad + good
    for v in pool:
        for w in pool:
            cases.append(('r_acb', 'eqsig.im.calc_cyc_amp_combined_arrays_w_power_law', (v, w, 15, 0.3), {}))
            cases.append(('r_agm', 'eqsig.im.calc_cyc_amp_gm_arrays_w_power_law', (v, w, 15, np.array([0.3, 0.6])), {}))
        for nm in ['determine_peaks_only_delta_series', 'determine_pseudo_cyclic_peak_only_series',
                   'determine_peak_only_delta_series_4_cleaned_data', '_determine_peak_only_series_4_cleaned_data']:
            cases.append(('r_pk', pk + nm, (v,), {}))
        cases.append(('r_ncy', 'eqsig.im.calc_n_cyc_array_w_power_law', (v, 1.0, 0.3), {'cut_off': 0.05}))
        cases.append(('r_amp', 'eqsig.im.calc_cyc_amp_array_w_power_law', (v, 15, np.array([0.3, 0.5])), {}))
    # public helpers replaced in the module namespace between calls
    for i in range(150):
        v = as_form(rs, gen_series(rs, i % N_KINDS, n=int(rs.choice([3, 6, 12, 40]))))
        cases.append(('r_patch', 'PATCH', (v, i % 6), {}))
    # interleaved histories on shared arrays
    for i in range(150):
        v = gen_series(rs, [0, 1, 3, 5, 6, 9, 11][i % 7], n=int(rs.choice([4, 9, 33, 80])))
        w = gen_series(rs, [5, 0, 6][i % 3], n=len(v))[:len(v)]
        cases.append(('r_hist', 'HIST', (v, w, float(rs.uniform(0.05, 1.0)), float(rs.uniform(0.2, 30))), {}))
    cases.append(('r_names', 'NAMES', (), {}))
    return cases


def build_cases():
    rs = np.random.RandomState(SEED)
    cases = []  # (name, function path, args tuple, kwargs)
    pk = 'eqsig.fns.peaks_and_crossings.'
    # --- anchored peak functions on the whole domain
    for i in range(1500):
        v = as_form(rs, gen_series(rs, i % N_KINDS))
        cases.append(('pod', pk + 'determine_peaks_only_delta_series', (v,), {}))
        cases.append(('pcs', pk + 'determine_pseudo_cyclic_peak_only_series', (v,), {}))
    # --- shift / scale variants (large offsets, integer offsets)
    for i in range(300):
        v = gen_series(rs, i % N_KINDS)
        off = [3, -7, 1000][i % 3] if v.dtype.kind in 'iu' else [0.25, -1.0e3, 12345.678][i % 3]
        try:
            w = v + np.asarray(off).astype(v.dtype)
        except Exception:
            w = v
        cases.append(('pod_s', pk + 'determine_peaks_only_delta_series', (w,), {}))
        cases.append(('pcs_s', pk + 'determine_pseudo_cyclic_peak_only_series', (w,), {}))
    # --- helpers called directly (cleaned and not cleaned data, they are public)
    for i in range(800):
        v = as_form(rs, gen_series(rs, i % N_KINDS))
        cases.append(('c4d', pk + 'determine_peak_only_delta_series_4_cleaned_data', (v,), {}))
        cases.append(('c4p', pk + '_determine_peak_only_series_4_cleaned_data', (v,), {}))
        cases.append(('ipk', pk + 'determine_indices_of_peaks_for_cleaned_array', (v,), {}))
        cases.append(('ipd', pk + 'determine_indices_of_peaks_for_cleaned', (v,), {}))
        cases.append(('cln', pk + 'clean_out_non_changing', (v,), {}))
        cases.append(('gpa', pk + 'get_peak_array_indices', (v,), {'ptype': ['all', 'min', 'max'][i % 3]}))
        cases.append(('gsw', pk + 'get_switched_peak_array_indices', (v,), {'tol': [0.0, 0.0, 0.1][i % 3]}))
        cases.append(('gnc', pk + 'get_n_cyc_array', (v,), {'opt': ['all', 'switched'][i % 2],
                                                           'start': ['origin', 'peak'][(i // 2) % 2]}))
        cases.append(('gzp', pk + 'get_zero_and_peak_array_indices', (v,), {}))
        cases.append(('gzc', pk + 'get_zero_crossings_array_indices', (v,), {}))
    # --- odd inputs through everything
    for v in odd_inputs():
        for nm in ['determine_peaks_only_delta_series', 'determine_pseudo_cyclic_peak_only_series',
                   'determine_peak_only_delta_series_4_cleaned_data', '_determine_peak_only_series_4_cleaned_data',
                   'determine_indices_of_peaks_for_cleaned_array', 'clean_out_non_changing',
                   'get_peak_array_indices', 'get_switched_peak_array_indices', 'get_n_cyc_array']:
            cases.append(('odd', pk + nm, (v,), {}))
        cases.append(('odd_n', 'eqsig.im.calc_n_cyc_array_w_power_law', (v, 1.0, 0.3), {}))
        cases.append(('odd_a', 'eqsig.im.calc_cyc_amp_array_w_power_law', (v, 15, 0.3), {}))
        cases.append(('odd_g', 'eqsig.im.calc_cyc_amp_gm_arrays_w_power_law', (v, v, 15, 0.3), {}))
        cases.append(('odd_c', 'eqsig.im.calc_cyc_amp_combined_arrays_w_power_law', (v, v, 15, 0.3), {}))

    # --- power law measures
    def gen_b(j):
        m = j % 8
        if m == 0:
            return float(rs.uniform(0.05, 1.0))
        if m == 1:
            return np.float64(rs.uniform(0.05, 1.0))
        if m == 2:
            return rs.uniform(0.05, 1.0, rs.randint(1, 5))
        if m == 3:
            return [0.05, 0.3, 0.34, 0.5, 1.0][rs.randint(5)]
        if m == 4:
            return 1
        if m == 5:
            return np.array(rs.uniform(0.05, 1.0))  # 0-d array
        if m == 6:
            return rs.uniform(0.05, 1.0, 2).tolist()  # list: fails in 1 / b
        return np.array([0.3, 0.34, 1.0])

    for i in range(1200):
        k = i % N_KINDS
        v = gen_series(rs, k, n=int(rs.choice([2, 3, 5, 9, 20, 45, 90])))
        if i % 5 == 0:
            v = v - np.asarray(np.mean(v)).astype(v.dtype) if v.dtype.kind != 'u' else v
        vf = as_form(rs, v, forms=(0, 0, 0, 0, 0, 0, 0, 1, 2))
        b = gen_b(i)
        a_ref = [float(rs.uniform(0.01, 5)), np.float64(rs.uniform(0.01, 5)), 1, 0.65 * float(np.max(np.abs(v)) + 0.1)][i % 4]
        cut = [0.0, 0.01, 0.05, 0.1, float(rs.uniform(0, 0.1))][i % 5]
        if i % 7 == 0:
            cases.append(('ncy', 'eqsig.im.calc_n_cyc_array_w_power_law', (vf, a_ref, b), {}))
        else:
            cases.append(('ncy', 'eqsig.im.calc_n_cyc_array_w_power_law', (vf, a_ref, b), {'cut_off': cut}))
        n_cyc = [15, 15.0, float(rs.uniform(0.1, 40)), np.float64(rs.uniform(0.1, 40)), 1][i % 5]
        cases.append(('amp', 'eqsig.im.calc_cyc_amp_array_w_power_law', (vf, n_cyc, b), {}))
        w = gen_series(rs, (k + i) % N_KINDS, n=len(v))
        if len(w) != len(v):
            w = w[:len(v)] if len(w) > len(v) else np.resize(w, len(v))
        wf = as_form(rs, w, forms=(0, 0, 0, 0, 1))
        if i % 6 == 0:
            wf = vf  # two identical components
        cases.append(('agm', 'eqsig.im.calc_cyc_amp_gm_arrays_w_power_law', (vf, wf, n_cyc, b), {}))
        cases.append(('acb', 'eqsig.im.calc_cyc_amp_combined_arrays_w_power_law', (vf, wf, n_cyc, b), {}))
    # mismatched lengths of components
    for i in range(30):
        v = gen_series(rs, 0, n=10)
        w = gen_series(rs, 5, n=[1, 2, 9, 11, 20][i % 5])
        cases.append(('agm_m', 'eqsig.im.calc_cyc_amp_gm_arrays_w_power_law', (v, w, 15, 0.3), {}))
        cases.append(('acb_m', 'eqsig.im.calc_cyc_amp_combined_arrays_w_power_law', (v, w, 15, 0.3), {}))
    # --- inverse chains (history of calls: cycles for a_ref then amplitude for those cycles)
    for i in range(200):
        v = gen_series(rs, [0, 3, 5, 6, 1, 11][i % 6], n=int(rs.choice([6, 15, 40, 100])))
        b = float(rs.uniform(0.05, 1.0))
        cases.append(('chain', 'CHAIN', (v, float(rs.uniform(0.05, 3)), b, [0.0, 0.01, 0.1][i % 3]), {}))
    # --- through AccSignal objects
    for i in range(60):
        v = gen_series(rs, [0, 3, 5, 6][i % 4], n=int(rs.choice([16, 64, 200])))
        cases.append(('asig', 'ASIG', (np.asarray(v, dtype=float), 0.01 * (1 + i % 3)), {}))
    cases += extra_cases(rs)
    return cases


# --------------------------------------------------------------------------------------
# worker
# --------------------------------------------------------------------------------------
def _clone(x):
    import copy
    return copy.deepcopy(x)


def _resolve(path):
    import importlib
    parts = path.split('.')
    for k in range(len(parts), 0, -1):
        try:
            mod = importlib.import_module('.'.join(parts[:k]))
        except ImportError:
            continue
        obj = mod
        for p in parts[k:]:
            obj = getattr(obj, p)
        return obj
    raise ImportError(path)


def run_case(fpath, args, kwargs):
    import eqsig
    if fpath == 'CHAIN':
        v, a_ref, b, cut = args
        n = eqsig.im.calc_n_cyc_array_w_power_law(v, a_ref, b, cut_off=cut)
        amp = eqsig.im.calc_cyc_amp_array_w_power_law(v, n[-1][0], b)
        amp2 = eqsig.im.calc_cyc_amp_array_w_power_law(2.5 * v, n[-1][0], b)
        n2 = eqsig.im.calc_n_cyc_array_w_power_law(2.5 * v, 2.5 * a_ref, np.array([b, 0.5 * b + 0.025]), cut_off=cut)
        gm = eqsig.im.calc_cyc_amp_gm_arrays_w_power_law(v, v, n[-1][0], b)
        cb = eqsig.im.calc_cyc_amp_combined_arrays_w_power_law(v, v, n[-1][0], b)
        pod = eqsig.fns.peaks_and_crossings.determine_peaks_only_delta_series(v)
        pcs = eqsig.fns.peaks_and_crossings.determine_pseudo_cyclic_peak_only_series(v)
        return n, amp, amp2, n2, gm, cb, pod, pcs
    if fpath == 'PATCH':
        v, which = args
        pc = eqsig.fns.peaks_and_crossings
        target = ['determine_peak_only_delta_series_4_cleaned_data', '_determine_peak_only_series_4_cleaned_data',
                  'clean_out_non_changing', 'determine_indices_of_peaks_for_cleaned_array', 'get_switched_peak_array_indices',
                  'get_peak_array_indices'][which]
        original_fn = getattr(pc, target)
        calls = []

        def spy(*a, **k):
            calls.append((target, len(a), sorted(k)))
            res = original_fn(*a, **k)
            if target == 'get_switched_peak_array_indices':
                return res[:max(1, len(res) - 1)]  # a visibly different answer
            if target in ('determine_peak_only_delta_series_4_cleaned_data', '_determine_peak_only_series_4_cleaned_data'):
                return res * 2
            return res
        out = []
        setattr(pc, target, spy)
        try:
            for fn, extra in [(pc.determine_peaks_only_delta_series, ()), (pc.determine_pseudo_cyclic_peak_only_series, ()),
                              (eqsig.im.calc_n_cyc_array_w_power_law, (0.8, 0.3)), (eqsig.im.calc_cyc_amp_array_w_power_law, (12, 0.3)),
                              (eqsig.im.calc_cyc_amp_combined_arrays_w_power_law, (v, 12, 0.3)),
                              (eqsig.im.calc_cyc_amp_gm_arrays_w_power_law, (v, 12, 0.3))]:
                try:
                    out.append(('OK', fn(v, *extra)))
                except Exception as e:
                    out.append(('EXC', type(e).__name__))
        finally:
            setattr(pc, target, original_fn)
        out.append(calls)
        out.append(('after', pc.determine_peaks_only_delta_series(np.array([0., 1., 0.5, 2., 2., -1.])),
                    eqsig.im.calc_cyc_amp_array_w_power_law(np.array([0., 1., -0.5, 2., 2., -1.]), 3, 0.5)))
        return out
    if fpath == 'HIST':
        v, w, b, n_cyc = args
        pc = eqsig.fns.peaks_and_crossings
        out = []
        for step in range(3):
            out.append(pc.determine_peaks_only_delta_series(v))
            out.append(eqsig.im.calc_cyc_amp_combined_arrays_w_power_law(v, w, n_cyc, b))
            out.append(pc.determine_pseudo_cyclic_peak_only_series(w))
            out.append(eqsig.im.calc_n_cyc_array_w_power_law(w, 0.5, np.array([b, 1.0])))
            out.append(eqsig.im.calc_cyc_amp_gm_arrays_w_power_law(w, v, n_cyc, b))
            out.append(pc._determine_peak_only_series_4_cleaned_data(v))
            out.append(pc.determine_peak_only_delta_series_4_cleaned_data(w))
            out.append(eqsig.im.calc_cyc_amp_array_w_power_law(v, n_cyc, np.array([b])))
            # the caller modifies its own arrays between calls
            if v.dtype.kind == 'f':
                v[len(v) // 2] += 0.75
                w[0] -= 0.25
            else:
                v[len(v) // 2] += 1
        out.append((v.copy(), w.copy()))
        return out
    if fpath == 'NAMES':
        import eqsig.fns
        pub = lambda m: sorted(n for n in dir(m) if not n.startswith('_'))
        import inspect
        sigs = {}
        for m in (eqsig.fns.peaks_and_crossings, eqsig.im):
            for n in pub(m):
                o = getattr(m, n)
                if inspect.isfunction(o):
                    sigs[m.__name__ + '.' + n] = str(inspect.signature(o))
        return pub(eqsig.fns), pub(eqsig.fns.peaks_and_crossings), pub(eqsig.im), sigs
    if fpath == 'ASIG':
        v, dt = args
        asig = eqsig.AccSignal(v, dt)
        out = [eqsig.fns.peaks_and_crossings.get_peak_indices(asig),
               eqsig.fns.peaks_and_crossings.get_switched_peak_indices(asig),
               eqsig.fns.peaks_and_crossings.get_zero_crossings_indices(asig),
               eqsig.fns.peaks_and_crossings.determine_peaks_only_delta_series(asig.values),
               eqsig.fns.peaks_and_crossings.determine_pseudo_cyclic_peak_only_series(asig.values),
               eqsig.im.calc_n_cyc_array_w_power_law(asig.values, 0.65 * asig.pga, 0.34),
               eqsig.im.calc_cyc_amp_array_w_power_law(asig.values, 15, 0.34),
               eqsig.im.calc_cyc_amp_combined_arrays_w_power_law(asig.values, asig.velocity, 15, 0.3),
               eqsig.im.calc_cyc_amp_gm_arrays_w_power_law(asig.values, asig.velocity, 15, np.array([0.3, 0.5])),
               np.array(asig.values)]
        return out
    return _resolve(fpath)(*args, **kwargs)


def worker(pkg_root, out_file):
    sys.path.insert(0, pkg_root)
    warnings.simplefilter('ignore')
    np.seterr(all='ignore')
    import eqsig
    assert os.path.realpath(eqsig.__file__).startswith(os.path.realpath(pkg_root) + os.sep), (eqsig.__file__, pkg_root)
    results = []
    for name, fpath, args, kwargs in build_cases():
        args = _clone(args)
        kwargs = _clone(kwargs)
        try:
            res = ('OK', run_case(fpath, args, kwargs))
        except BaseException as e:  # noqa
            res = ('EXC', type(e).__name__, str(e))
        results.append((name, fpath, res, args, kwargs))
    with open(out_file, 'wb') as f:
        pickle.dump(results, f, protocol=4)


# --------------------------------------------------------------------------------------
# comparison
# --------------------------------------------------------------------------------------
STATS = {'bitwise': 0, 'approx': 0}


def same(a, b):
    if type(a) is not type(b):
        return False
    if isinstance(a, np.ndarray):
        if a.dtype != b.dtype or a.shape != b.shape:
            return False
        if a.dtype == object:
            return same(a.tolist(), b.tolist())
        if a.tobytes() == b.tobytes():
            STATS['bitwise'] += 1
            return True
        if a.dtype.kind in 'fc':
            with np.errstate(all='ignore'):
                ok = bool(np.allclose(a, b, rtol=1.0e-12, atol=0.0, equal_nan=True))
            if ok:
                STATS['approx'] += 1
            return ok
        return False
    if isinstance(a, (list, tuple)):
        return len(a) == len(b) and all(same(x, y) for x, y in zip(a, b))
    if isinstance(a, dict):
        return a.keys() == b.keys() and all(same(a[k], b[k]) for k in a)
    if isinstance(a, (float, np.floating)):
        if a != a and b != b:
            return True
        return a == b or abs(a - b) <= 1.0e-12 * max(abs(a), abs(b))
    if isinstance(a, np.generic):
        return a.dtype == b.dtype and a == b
    return a == b


def main():
    cwd = os.getcwd()
    with tempfile.TemporaryDirectory() as tmp:
        orig_root = os.path.join(tmp, 'orig')
        os.makedirs(orig_root)
        tar_bytes = subprocess.check_output(['git', 'archive', 'HEAD', 'eqsig'], cwd=cwd)
        with tarfile.open(fileobj=io.BytesIO(tar_bytes)) as tf:
            tf.extractall(orig_root)
        outs = {}
        procs = []
        for label, root in (('orig', orig_root), ('edit', cwd)):
            out_file = os.path.join(tmp, label + '.pkl')
            env = dict(os.environ)
            env['PYTHONPATH'] = root
            env['PYTHONDONTWRITEBYTECODE'] = '1'
            env['PYTHONHASHSEED'] = '0'
            p = subprocess.Popen([sys.executable, os.path.abspath(__file__), '--worker', root, out_file], cwd=tmp, env=env)
            procs.append((label, p, out_file))
        for label, p, out_file in procs:
            rc = p.wait()
            if rc != 0:
                print('worker %s failed with exit status %s' % (label, rc))
                return 2
            with open(out_file, 'rb') as f:
                outs[label] = pickle.load(f)
    ro, re_ = outs['orig'], outs['edit']
    if len(ro) != len(re_):
        print('different number of cases')
        return 1
    n_bad = 0
    n_exc = 0
    n_msg = 0
    per_name = {}
    for k, (co, ce) in enumerate(zip(ro, re_)):
        name, fpath, res_o, args_o, kw_o = co
        _, _, res_e, args_e, kw_e = ce
        ok = True
        cnt = per_name.setdefault(name, [0, 0])
        cnt[0 if res_o[0] == 'OK' else 1] += 1
        if res_o[0] != res_e[0]:
            ok = False
        elif res_o[0] == 'EXC':
            n_exc += 1
            ok = res_o[1] == res_e[1]
            if res_o[2] != res_e[2]:
                n_msg += 1
        else:
            ok = same(res_o[1], res_e[1])
        if ok and not (same(args_o, args_e) and same(kw_o, kw_e)):
            ok = False  # arguments left in a different state
        if not ok:
            n_bad += 1
            if n_bad <= 15:
                print('MISMATCH case %d %s %s' % (k, name, fpath))
                print('   args  :', repr(args_o)[:300])
                print('   orig  :', repr(res_o)[:400])
                print('   edited:', repr(res_e)[:400])
    print('per group (returning/raising): ' + ', '.join('%s %d/%d' % (k, v[0], v[1]) for k, v in sorted(per_name.items())))
    print('[%s] cases: %d, raising cases: %d (message differs in %d), arrays bitwise equal: %d, equal to 1e-12: %d, mismatches: %d'
          % (TWIN_FOCUS, len(ro), n_exc, n_msg, STATS['bitwise'], STATS['approx'], n_bad))
    return 0 if n_bad == 0 else 1


if __name__ == '__main__':
    if len(sys.argv) > 1 and sys.argv[1] == '--worker':
        worker(sys.argv[2], sys.argv[3])
        sys.exit(0)
    sys.exit(main())

"""
Equivalence check for twin 1 (property C16, eqsig/loader.py).

Run with the twin applied and cwd = the worktree:
    cd /tmp/twin1/C16 && /venv/bin/python out/equiv1.py

The ORIGINAL eqsig/loader.py is taken from git (HEAD) and exec'd into a fresh
module namespace; the EDITED one is the imported eqsig.loader of the worktree.
Every public save/load entry point is driven with the same inputs through both
and the results (file bytes, returned values, exceptions, argument mutation,
object state) are required to be identical.  Exit status 0 iff all match.
"""
import os
import sys
import copy
import types
import shutil
import tempfile
import warnings
import subprocess

warnings.simplefilter('ignore')

ROOT = os.getcwd()
sys.path.insert(0, ROOT)

import numpy as np
import eqsig
from eqsig import loader as NEW

assert os.path.abspath(eqsig.__file__).startswith(ROOT), (eqsig.__file__, ROOT)
assert os.path.abspath(NEW.__file__).startswith(ROOT), NEW.__file__

_src = subprocess.check_output(['git', 'show', 'HEAD:eqsig/loader.py'], cwd=ROOT).decode()
OLD = types.ModuleType('eqsig._orig_loader')
OLD.__package__ = 'eqsig'
OLD.__file__ = os.path.join(ROOT, 'eqsig', '_orig_loader.py')
exec(compile(_src, OLD.__file__, 'exec'), OLD.__dict__)

with open(NEW.__file__) as _f:
    EDITED_DIFFERS = (_f.read() != _src)

TMP = tempfile.mkdtemp(prefix='c16_equiv1_', dir='/tmp')
N_CHECKS = [0]
FAILS = []


def fail(msg):
    FAILS.append(msg)
    print('MISMATCH:', msg)


def same(a, b, path='x'):
    """Strict structural equality: same types, dtypes, shapes and bits."""
    N_CHECKS[0] += 1
    if type(a) is not type(b):
        return '%s: type %r != %r' % (path, type(a), type(b))
    if isinstance(a, np.ndarray):
        if a.dtype != b.dtype:
            return '%s: dtype %r != %r' % (path, a.dtype, b.dtype)
        if a.shape != b.shape:
            return '%s: shape %r != %r' % (path, a.shape, b.shape)
        if a.flags['C_CONTIGUOUS'] != b.flags['C_CONTIGUOUS']:
            return '%s: contiguity differs' % path
        if a.flags['WRITEABLE'] != b.flags['WRITEABLE']:
            return '%s: writeable flag differs' % path
        if a.dtype.kind in 'fc':
            if a.tobytes() != b.tobytes():
                return '%s: array bits differ' % path
        elif not np.array_equal(a, b):
            return '%s: array values differ' % path
        return None
    if isinstance(a, (np.floating, float)):
        if np.float64(a).tobytes() != np.float64(b).tobytes():
            return '%s: float %r != %r' % (path, a, b)
        return None
    if isinstance(a, (list, tuple)):
        if len(a) != len(b):
            return '%s: len %d != %d' % (path, len(a), len(b))
        for i, (x, y) in enumerate(zip(a, b)):
            r = same(x, y, '%s[%d]' % (path, i))
            if r:
                return r
        return None
    if isinstance(a, dict):
        if sorted(a.keys(), key=repr) != sorted(b.keys(), key=repr):
            return '%s: keys %r != %r' % (path, sorted(a), sorted(b))
        for k in a:
            r = same(a[k], b[k], '%s[%r]' % (path, k))
            if r:
                return r
        return None
    if isinstance(a, (eqsig.Signal, eqsig.AccSignal)):
        return same(a.__dict__, b.__dict__, path + '.__dict__')
    if a != b:
        return '%s: %r != %r' % (path, a, b)
    return None


def call(fn, *args, **kwargs):
    """Returns ('ok', result) or ('exc', exception type, message)."""
    try:
        return ('ok', fn(*args, **kwargs))
    except Exception as e:  # noqa
        return ('exc', type(e), str(e))


def compare_calls(tag, old_fn, new_fn, old_args, new_args, kwargs=None, replace=()):
    kwargs = kwargs or {}
    ro = call(old_fn, *old_args, **kwargs)
    rn = call(new_fn, *new_args, **kwargs)
    if ro[0] == 'exc' and rn[0] == 'exc':
        mo, mn = ro[2], rn[2]
        for a, b in replace:
            mo = mo.replace(a, '<F>')
            mn = mn.replace(b, '<F>')
        ro, rn = ('exc', ro[1], mo), ('exc', rn[1], mn)
    r = same(ro, rn, tag)
    if r:
        fail(r)
    return ro, rn


def file_state(path):
    if not os.path.exists(path):
        return None
    if os.path.isdir(path):
        return 'DIR'
    with open(path, 'rb') as f:
        return f.read()


_counter = [0]


def two_paths():
    _counter[0] += 1
    return (os.path.join(TMP, 'o_%05d.txt' % _counter[0]), os.path.join(TMP, 'n_%05d.txt' % _counter[0]))


# ---------------------------------------------------------------------------
# save_values_and_dt / load_* round trips
# ---------------------------------------------------------------------------
LOAD_SIGNAL_ASTYPES = ['sig', 'signal', 'acc_sig', 'asig', '', None]
MS = [1.0, 1, 2, -0.5, 9.81, 0, 0.0, np.float64(3.3), np.float32(0.1), np.int64(-2), 1e-3, 1e6]
LOAD_LABELS = [False, True, 0, 1, None, 'yes', '']


def check_loads(tag, fo, fn, full=True):
    """fo and fn must be byte-identical files; drive every loader through both modules."""
    rep = [(fo, fn)]
    ro, rn = compare_calls(tag + ':load_values_and_dt', OLD.load_values_and_dt, NEW.load_values_and_dt,
                           (fo,), (fn,), replace=rep)
    for astype in (LOAD_SIGNAL_ASTYPES if full else ['sig', 'acc_sig']):
        compare_calls(tag + ':load_signal[%r]' % (astype,), OLD.load_signal, NEW.load_signal,
                      (fo,), (fn,), {'astype': astype}, replace=rep)
        compare_calls(tag + ':load_signal_pos[%r]' % (astype,), OLD.load_signal, NEW.load_signal,
                      (fo, astype), (fn, astype), replace=rep)
    compare_calls(tag + ':load_signal[default]', OLD.load_signal, NEW.load_signal, (fo,), (fn,), replace=rep)
    compare_calls(tag + ':load_sig[default]', OLD.load_sig, NEW.load_sig, (fo,), (fn,), replace=rep)
    compare_calls(tag + ':load_asig[default]', OLD.load_asig, NEW.load_asig, (fo,), (fn,), replace=rep)
    for m in (MS if full else [1.0, -0.5, 2]):
        compare_calls(tag + ':load_sig[m=%r]' % (m,), OLD.load_sig, NEW.load_sig, (fo,), (fn,), {'m': m},
                      replace=rep)
        compare_calls(tag + ':load_sig_pos[m=%r]' % (m,), OLD.load_sig, NEW.load_sig, (fo, m), (fn, m),
                      replace=rep)
        for ll in (LOAD_LABELS if full else [False, True]):
            compare_calls(tag + ':load_asig[ll=%r,m=%r]' % (ll, m), OLD.load_asig, NEW.load_asig,
                          (fo,), (fn,), {'load_label': ll, 'm': m}, replace=rep)
            compare_calls(tag + ':load_asig_pos[ll=%r,m=%r]' % (ll, m), OLD.load_asig, NEW.load_asig,
                          (fo, ll, m), (fn, ll, m), replace=rep)
    for ll in LOAD_LABELS:
        compare_calls(tag + ':load_asig[ll=%r]' % (ll,), OLD.load_asig, NEW.load_asig,
                      (fo,), (fn,), {'load_label': ll}, replace=rep)
    # the files must not have been altered by loading
    if file_state(fo) != file_state(fn):
        fail(tag + ': files differ after loading')
    return ro, rn


def snapshot(v):
    try:
        return copy.deepcopy(v)
    except Exception:  # noqa
        return v


def check_save(tag, values, dt, label, full=True, kw=False):
    fo, fn = two_paths()
    v_o, v_n = snapshot(values), snapshot(values)
    before = snapshot(values)
    if kw:
        ro = call(OLD.save_values_and_dt, ffp=fo, values=v_o, dt=dt, label=label)
        rn = call(NEW.save_values_and_dt, ffp=fn, values=v_n, dt=dt, label=label)
    else:
        ro = call(OLD.save_values_and_dt, fo, v_o, dt, label)
        rn = call(NEW.save_values_and_dt, fn, v_n, dt, label)
    r = same(ro, rn, tag + ':save result')
    if r:
        fail(r)
    so, sn = file_state(fo), file_state(fn)
    N_CHECKS[0] += 1
    if so != sn:
        fail('%s: saved files differ (%r vs %r)' % (tag, None if so is None else so[:80],
                                                   None if sn is None else sn[:80]))
    # arguments must be left alone, identically
    for nm, v in (('old', v_o), ('new', v_n)):
        r = same(before, v, tag + ':values mutated by ' + nm)
        if r:
            fail(r)
    if ro[0] == 'ok' and so is not None and so == sn:
        check_loads(tag, fo, fn, full=full)
    return ro, rn


rng = np.random.RandomState(1601)

DTS = [1e-4, 0.0001, 0.00015, 0.001, 0.002, 0.005, 0.01, 0.02, 0.025, 0.1, 0.5, 0.9999, 0.99995, 1, 1.0, 1.5,
       2, 2.5, 10, 10.0, 12.3456, 99.9999, 100, 100.0, np.float64(0.01), np.float32(0.02), np.int64(3),
       np.float64(1.0), 1. / 3, 1. / 128]
LABELS = ['m1', 'a label with spaces', '  leading and trailing  ', 'Motion #3, comp. N-S (g)', '', '1 2 3',
          '0.01', 'tab\there', 'unicode-éü']


def random_record(n):
    kind = rng.randint(0, 9)
    if kind == 0:
        return rng.randn(n)
    if kind == 1:
        return rng.randn(n) * 10 ** rng.uniform(-8, 12)
    if kind == 2:
        return np.abs(rng.randn(n)) * 1e3
    if kind == 3:
        return -np.abs(rng.randn(n))
    if kind == 4:
        return rng.randint(-1000, 1000, size=n)
    if kind == 5:
        return list(rng.randn(n))
    if kind == 6:
        return [int(x) for x in rng.randint(-5, 5, size=n)]
    if kind == 7:
        return rng.randn(n).astype(np.float32)
    v = rng.randn(n)
    v[rng.rand(n) < 0.5] = 0.0
    return v


print('fixed edge-case records ...')
EDGE_RECORDS = [
    ('len1_float', np.array([0.5])),
    ('len1_list', [1.25]),
    ('len1_int', [3]),
    ('len1_zero', np.zeros(1)),
    ('len2', np.array([1.0, -2.0])),
    ('len2_list', [0.1, 0.2]),
    ('len3_tuple', (0.1, -0.2, 0.3)),
    ('len0_arr', np.array([])),
    ('len0_list', []),
    ('zeros', np.zeros(7)),
    ('negzeros', -np.zeros(5)),
    ('ones_int', np.ones(6, dtype=int)),
    ('int32', np.arange(-4, 5, dtype=np.int32)),
    ('uint8', np.arange(0, 9, dtype=np.uint8)),
    ('int_list', [1, -2, 3, 0, 5]),
    ('mixed_list', [1, -2.5, 3, 0.0, True]),
    ('bool_list', [True, False, True]),
    ('bool_arr', np.array([True, False, True, True])),
    ('float32', np.linspace(-1, 1, 11).astype(np.float32)),
    ('float16', np.linspace(-1, 1, 11).astype(np.float16)),
    ('longdouble', np.linspace(-1, 1, 5).astype(np.longdouble)),
    ('large', np.array([1e12, -1e15, 3.5e18, 1e300, -1e22])),
    ('tiny', np.array([1e-7, -1e-7, 4.9999999e-7, 5.0000001e-7, -5e-7, 1e-300])),
    ('rounding', np.array([0.0000005, 0.0000015, 0.0000025, -0.0000005, 1.9999995, 123456.7890125])),
    ('nonfinite', np.array([np.nan, np.inf, -np.inf, 1.0])),
    ('noncontig', np.arange(20.0)[::3]),
    ('reversed', np.arange(10.0)[::-1]),
    ('readonly', np.arange(5.0)),
    ('col2d_n1', np.arange(4.0).reshape(4, 1)),
    ('object_arr', np.array([1.5, 2, -3], dtype=object)),
    ('sine', np.sin(np.linspace(0, 20, 401)) * 3.0),
]
EDGE_RECORDS[[n for n, _ in EDGE_RECORDS].index('readonly')][1].setflags(write=False)

for i, (name, rec) in enumerate(EDGE_RECORDS):
    for j, dt in enumerate(DTS):
        label = LABELS[(i + j) % len(LABELS)]
        full = (j % 7 == 0)
        check_save('edge[%s,dt=%r,%r]' % (name, dt, label), rec, dt, label, full=full, kw=(j % 2 == 1))

print('random records ...')
for k in range(400):
    n = int(rng.choice([1, 2, 3, 4, 5, 8, 17, 64, 200, 1000]))
    rec = random_record(n)
    if rng.rand() < 0.5:
        dt = DTS[rng.randint(len(DTS))]
    else:
        dt = float(10 ** rng.uniform(-4, 2))
    label = LABELS[rng.randint(len(LABELS))]
    check_save('rand[%d,n=%d,dt=%r]' % (k, n, dt), rec, dt, label, full=(k % 20 == 0), kw=(k % 3 == 0))

print('invalid inputs (same exception, same file state) ...')
INVALID = [
    ('label_none', np.arange(3.0), 0.01, None),
    ('label_int', np.arange(3.0), 0.01, 5),
    ('label_bytes', np.arange(3.0), 0.01, b'm1'),
    ('dt_str', np.arange(3.0), '0.01', 'm1'),
    ('dt_none', np.arange(3.0), None, 'm1'),
    ('dt_complex', np.arange(3.0), 1j, 'm1'),
    ('values_none', None, 0.01, 'm1'),
    ('values_scalar', 3.0, 0.01, 'm1'),
    ('values_0d', np.array(3.0), 0.01, 'm1'),
    ('values_2d', np.arange(6.0).reshape(3, 2), 0.01, 'm1'),
    ('values_str_list', ['a', 'b'], 0.01, 'm1'),
    ('values_str', 'abc', 0.01, 'm1'),
    ('values_complex', np.array([1 + 2j, 3]), 0.01, 'm1'),
    ('values_nested', [[1.0], [2.0]], 0.01, 'm1'),
    ('values_dict', {0: 1.0, 1: 2.0}, 0.01, 'm1'),
    ('values_dict_bad', {'a': 1.0}, 0.01, 'm1'),
    ('values_gen', (x for x in range(3)), 0.01, 'm1'),
    ('values_range', range(4), 0.01, 'm1'),
]
for name, v, dt, label in INVALID:
    if name == 'values_gen':
        # generators cannot be deep-copied: call separately with fresh ones
        fo, fn = two_paths()
        ro = call(OLD.save_values_and_dt, fo, (x for x in range(3)), dt, label)
        rn = call(NEW.save_values_and_dt, fn, (x for x in range(3)), dt, label)
        r = same(ro, rn, 'invalid[values_gen]')
        if r:
            fail(r)
        if file_state(fo) != file_state(fn):
            fail('invalid[values_gen]: file state differs')
        continue
    check_save('invalid[%s]' % name, v, dt, label)

# existing file is overwritten identically; unwritable destination raises identically
fo, fn = two_paths()
for pth in (fo, fn):
    with open(pth, 'w') as f:
        f.write('previous content\n' * 50)
ro = call(OLD.save_values_and_dt, fo, np.arange(3.0), 0.01, 'm1')
rn = call(NEW.save_values_and_dt, fn, np.arange(3.0), 0.01, 'm1')
if same(ro, rn, 'overwrite') or file_state(fo) != file_state(fn):
    fail('overwrite differs')
for pth in (fo, fn):
    with open(pth, 'w') as f:
        f.write('previous content\n')
ro = call(OLD.save_values_and_dt, fo, np.arange(3.0), 'bad', 'm1')
rn = call(NEW.save_values_and_dt, fn, np.arange(3.0), 'bad', 'm1')
if same(ro, rn, 'overwrite_bad_dt') or file_state(fo) != file_state(fn):
    fail('overwrite with bad dt differs: %r %r' % (file_state(fo), file_state(fn)))
ro = call(OLD.save_values_and_dt, fo, np.arange(3.0), 0.01, None)
rn = call(NEW.save_values_and_dt, fn, np.arange(3.0), 0.01, None)
if same(ro, rn, 'overwrite_bad_label') or file_state(fo) != file_state(fn):
    fail('overwrite with bad label differs: %r %r' % (file_state(fo), file_state(fn)))
nodir_o = os.path.join(TMP, 'no_such_dir', 'o.txt')
compare_calls('save_to_missing_dir', OLD.save_values_and_dt, NEW.save_values_and_dt,
              (nodir_o, [1.0], 0.1, 'm'), (nodir_o, [1.0], 0.1, 'm'))
compare_calls('save_to_dir', OLD.save_values_and_dt, NEW.save_values_and_dt,
              (TMP, [1.0], 0.1, 'm'), (TMP, [1.0], 0.1, 'm'))

# pathlib paths
import pathlib
fo, fn = two_paths()
ro = call(OLD.save_values_and_dt, pathlib.Path(fo), np.arange(5.0), 0.02, 'path lib')
rn = call(NEW.save_values_and_dt, pathlib.Path(fn), np.arange(5.0), 0.02, 'path lib')
if same(ro, rn, 'pathlib save') or file_state(fo) != file_state(fn):
    fail('pathlib save differs')
compare_calls('pathlib load_values_and_dt', OLD.load_values_and_dt, NEW.load_values_and_dt,
              (pathlib.Path(fo),), (pathlib.Path(fn),))
compare_calls('pathlib load_asig', OLD.load_asig, NEW.load_asig,
              (pathlib.Path(fo),), (pathlib.Path(fn),), {'load_label': True, 'm': 2.0})
compare_calls('pathlib load_sig', OLD.load_sig, NEW.load_sig, (pathlib.Path(fo),), (pathlib.Path(fn),))
compare_calls('pathlib load_signal', OLD.load_signal, NEW.load_signal, (pathlib.Path(fo), 'acc_sig'),
              (pathlib.Path(fn), 'acc_sig'))

# ---------------------------------------------------------------------------
# hand-written files (not produced by save): loaders only
# ---------------------------------------------------------------------------
print('hand-written files ...')
HAND = {
    'trailing_newline': 'lab el\n3 0.0100\n1.000000\n-2.000000\n3.500000\n',
    'crlf': 'lab el\r\n3 0.0100\r\n1.000000\r\n-2.000000\r\n3.500000\r\n',
    'cr_only': 'lab el\r3 0.0100\r1.000000\r-2.000000\r3.500000',
    'extra_cols': 'x\n3 0.5000 extra stuff\n1.0,9.0\n-2.0,8.0\n3.5,7.0',
    'dt_ge_1': 'x\n4 2.0000\n1\n2\n3\n4',
    'dt_int': 'x\n4 2\n1\n2\n3\n4',
    'dt_exp': 'x\n4 1e-2\n1\n2\n3\n4',
    'dt_100': 'x\n2 100.0000\n1.5\n2.5',
    'blank_lines': 'x\n3 0.0100\n1.0\n\n2.0\n3.0\n\n',
    'comment': 'x\n3 0.0100\n1.0\n# a comment\n2.0\n3.0',
    'hash_label': '# label\n3 0.0100\n1.0\n2.0\n3.0',
    'empty_label': '\n3 0.0100\n1.0\n2.0\n3.0',
    'one_value': 'x\n1 0.0100\n7.0',
    'no_values': 'x\n0 0.0100',
    'no_values_nl': 'x\n0 0.0100\n',
    'bad_values': 'x\n3 0.0100\n1.0\nabc\n3.0',
    'header_one_field': 'x\n0.0100\n1.0\n2.0',
    'header_bad_dt': 'x\n3 abc\n1.0\n2.0',
    'only_label': 'x',
    'empty_file': '',
    'formfeed_label': 'a\x0cb\n3 0.0100\n1.0\n2.0\n3.0',
    'nan_inf': 'x\n3 0.0100\nnan\ninf\n-inf',
    'spaces': 'x\n  3    0.0200  \n 1.0 \n 2.0 \n 3.0 ',
    'tabs_header': 'x\n3\t0.0200\n1.0\n2.0\n3.0',
}
for name, text in HAND.items():
    fo, fn = two_paths()
    for pth in (fo, fn):
        with open(pth, 'w', newline='') as f:
            f.write(text)
    check_loads('hand[%s]' % name, fo, fn, full=True)

missing = os.path.join(TMP, 'does_not_exist.txt')
check_loads('missing', missing, missing, full=False)
check_loads('directory', TMP, TMP, full=False)

test_file = os.path.join(ROOT, 'tests', 'unit_test_data', 'test_motion_dt0p01.txt')
if os.path.exists(test_file):
    check_loads('test_motion', test_file, test_file, full=True)
else:
    fail('test data file not found: ' + test_file)

# ---------------------------------------------------------------------------
# save_signal on objects, multi-step histories
# ---------------------------------------------------------------------------
print('save_signal and multi-step histories ...')


def make_objects(k):
    n = int(rng.choice([2, 3, 5, 50, 300]))
    vals = random_record(n)
    dt = [0.01, 0.005, 1.0, 2.5, 0.0001, 100, 0.3][k % 7]
    label = LABELS[k % len(LABELS)]
    if k % 2:
        return eqsig.AccSignal(vals, dt, label=label), eqsig.AccSignal(copy.deepcopy(vals), dt, label=label)
    return eqsig.Signal(vals, dt, label=label), eqsig.Signal(copy.deepcopy(vals), dt, label=label)


for k in range(60):
    so, sn = make_objects(k)
    if k % 4 == 1:
        # warm some caches first: saving must not touch them
        for s in (so, sn):
            _ = s.fa_spectrum
            if isinstance(s, eqsig.AccSignal):
                s.generate_displacement_and_velocity_series()
    fo, fn = two_paths()
    state_o, state_n = copy.deepcopy(so.__dict__), copy.deepcopy(sn.__dict__)
    ro = call(OLD.save_signal, fo, so)
    rn = call(NEW.save_signal, fn, sn)
    r = same(ro, rn, 'save_signal[%d]' % k)
    if r:
        fail(r)
    if file_state(fo) != file_state(fn):
        fail('save_signal[%d]: files differ' % k)
    for nm, st, s in (('old', state_o, so), ('new', state_n, sn)):
        r = same(st, s.__dict__, 'save_signal[%d]: object state changed by %s' % (k, nm))
        if r:
            fail(r)
    r = same(so, sn, 'save_signal[%d]: objects' % k)
    if r:
        fail(r)
    check_loads('save_signal[%d]' % k, fo, fn, full=(k % 10 == 0))

    # history: load -> modify -> save -> load ..., through each module separately
    cur_o, cur_n = fo, fn
    for step in range(4):
        m = [1.0, -2.0, 0.37, 1e3][step]
        ao = call(OLD.load_asig, cur_o, True, m) if step % 2 == 0 else call(OLD.load_sig, cur_o, m)
        an = call(NEW.load_asig, cur_n, True, m) if step % 2 == 0 else call(NEW.load_sig, cur_n, m)
        r = same(ao, an, 'history[%d,%d]: load' % (k, step))
        if r:
            fail(r)
            break
        if ao[0] != 'ok':
            break
        obj_o, obj_n = ao[1], an[1]
        if step == 1:
            obj_o.reset_values(obj_o.values[::-1] + 0.125)
            obj_n.reset_values(obj_n.values[::-1] + 0.125)
        if step == 2:
            obj_o.label = 'step two label'
            obj_n.label = 'step two label'
        cur_o, cur_n = two_paths()
        r = same(call(OLD.save_signal, cur_o, obj_o),
                 call(NEW.save_signal, cur_n, obj_n), 'history[%d,%d]: save' % (k, step))
        if r:
            fail(r)
        if file_state(cur_o) != file_state(cur_n):
            fail('history[%d,%d]: files differ' % (k, step))
        r = same(obj_o, obj_n, 'history[%d,%d]: objects' % (k, step))
        if r:
            fail(r)

# cross use: file written by OLD loaded by NEW and vice versa give the same as OLD/OLD
for k in range(30):
    n = int(rng.choice([2, 3, 10, 100]))
    rec = random_record(n)
    dt = float(10 ** rng.uniform(-4, 2))
    fo, fn = two_paths()
    OLD.save_values_and_dt(fo, rec, dt, 'cross label %d' % k)
    NEW.save_values_and_dt(fn, rec, dt, 'cross label %d' % k)
    r = same(call(OLD.load_asig, fo, True, 2.0), call(NEW.load_asig, fo, True, 2.0), 'cross[%d] a' % k)
    if r:
        fail(r)
    r = same(call(OLD.load_asig, fn, True, 2.0), call(NEW.load_asig, fn, True, 2.0), 'cross[%d] b' % k)
    if r:
        fail(r)
    r = same(call(OLD.load_values_and_dt, fo), call(NEW.load_values_and_dt, fn), 'cross[%d] c' % k)
    if r:
        fail(r)

# the package-level names are the edited functions
for nm in ('save_signal', 'load_signal', 'save_values_and_dt', 'load_values_and_dt', 'load_asig', 'load_sig'):
    if getattr(eqsig, nm) is not getattr(NEW, nm):
        fail('eqsig.%s is not eqsig.loader.%s' % (nm, nm))

# signatures unchanged
import inspect
for nm in ('save_signal', 'load_signal', 'save_values_and_dt', 'load_values_and_dt', 'load_asig', 'load_sig',
           'load_3_comp_values_and_dt_from_v2a'):
    so_, sn_ = str(inspect.signature(getattr(OLD, nm))), str(inspect.signature(getattr(NEW, nm)))
    if so_ != sn_:
        fail('signature of %s: %s != %s' % (nm, so_, sn_))

shutil.rmtree(TMP, ignore_errors=True)

print('edited source differs from HEAD:', EDITED_DIFFERS)
print('comparisons made:', N_CHECKS[0])
if not EDITED_DIFFERS:
    print('WARNING: the worktree loader.py is identical to HEAD (twin not applied?)')
if FAILS:
    print('%d MISMATCHES' % len(FAILS))
    sys.exit(1)
print('ALL EQUIVALENT')
sys.exit(0)

"""
Equivalence check for twin1 (guard clauses in Signal.add_series / Signal.add_signal).

Run with twin1 applied and cwd = the worktree:
    /venv/bin/python out/equiv1.py

The original package is extracted from git HEAD in to a temporary directory under /tmp. The same
deterministic list of cases is run in two subprocesses (one importing the original package, one importing
the edited worktree) and the pickled outcomes are compared bit-for-bit.
"""
import os
import pickle
import shutil
import subprocess
import sys
import tempfile
import warnings

import numpy as np


# ----------------------------------------------------------------------------------------------------------------
# generic helpers (run inside the workers)
# ----------------------------------------------------------------------------------------------------------------

def arr_info(a):
    a = np.asarray(a)
    return {'dtype': str(a.dtype), 'shape': tuple(a.shape), 'bytes': a.tobytes()}


def snap(sig):
    """Full observable state of a signal"""
    d = {
        'type': type(sig).__name__,
        'values': arr_info(sig.values),
        'values_is_private': sig.values is sig._values,
        'npts': sig.npts,
        'npts_type': type(sig.npts).__name__,
        'dt': repr(sig.dt),
        'cached_fa': bool(sig._cached_fa),
        'cached_smooth_fa': bool(sig._cached_smooth_fa),
        'label': sig.label,
    }
    for name in ('_cached_response_spectra', '_cached_disp_and_velo', '_cached_xtime', '_cached_params'):
        if hasattr(sig, name):
            v = getattr(sig, name)
            d[name] = repr(v) if not isinstance(v, dict) else sorted(v)
    for name in ('_velocity', '_displacement'):
        if hasattr(sig, name):
            d[name] = arr_info(getattr(sig, name))
    return d


def attempt(fn):
    try:
        ret = fn()
        return ('ok', repr(ret))
    except Exception as e:  # noqa
        return ('exc', type(e).__name__, str(e))


def make_values(rng, n, kind):
    if kind == 'float':
        return rng.standard_normal(n)
    if kind == 'int':
        return rng.integers(-50, 50, size=n)
    if kind == 'zeros':
        return np.zeros(n)
    if kind == 'list':
        return list(rng.standard_normal(n))
    if kind == 'intlist':
        return [int(v) for v in rng.integers(-9, 9, size=n)]
    if kind == 'float32':
        return rng.standard_normal(n).astype(np.float32)
    raise ValueError(kind)


# ----------------------------------------------------------------------------------------------------------------
# the cases
# ----------------------------------------------------------------------------------------------------------------

def run_cases(eqsig):
    rng = np.random.default_rng(1701)
    out = []
    Signal, AccSignal = eqsig.Signal, eqsig.AccSignal

    class SubSignal(Signal):
        pass

    class Duck(object):  # looks like a signal but is not one
        def __init__(self, values, dt):
            self.values = np.array(values)
            self.dt = dt
            self.npts = len(values)

    lengths = [1, 2, 3, 7, 50, 257]
    kinds = ['float', 'int', 'zeros', 'list', 'intlist', 'float32']
    dts = [0.01, 0.005, 1.0, 0.1]

    for cls in (Signal, AccSignal):
        for n in lengths:
            for kind in kinds:
                dt = dts[(n + len(kind)) % len(dts)]
                vals = make_values(rng, n, kind)

                def new_sig():
                    return cls(vals, dt)

                # ---- add_constant
                for const in (0, 1, -2.5, np.float64(3.25), True, 1e300):
                    sig = new_sig()
                    held = sig.values
                    held_before = arr_info(held)
                    r = attempt(lambda: sig.add_constant(const))
                    out.append(('add_constant', cls.__name__, n, kind, repr(const), r, snap(sig),
                                arr_info(held) == held_before, sig.values is held))

                # ---- add_series: valid and invalid
                series_options = []
                for skind in kinds:
                    series_options.append(('same_' + skind, make_values(rng, n, skind)))
                series_options.append(('tuple', tuple(rng.standard_normal(n))))
                series_options.append(('shorter', rng.standard_normal(n - 1)))
                series_options.append(('longer', rng.standard_normal(n + 1)))
                series_options.append(('longer_list', list(rng.standard_normal(n + 3))))
                series_options.append(('empty', []))
                series_options.append(('empty_arr', np.array([])))
                series_options.append(('col2d', rng.standard_normal((n, 1))))
                series_options.append(('mat2d', rng.standard_normal((n, n))))
                series_options.append(('scalar', 1.5))
                series_options.append(('none', None))
                series_options.append(('string', 'a' * n))
                series_options.append(('nan', np.full(n, np.nan)))
                series_options.append(('inf', np.full(n, np.inf)))
                series_options.append(('bool', rng.integers(0, 2, size=n).astype(bool)))
                series_options.append(('complex', rng.standard_normal(n) + 1j))
                for sname, series in series_options:
                    sig = new_sig()
                    _ = sig.fa_spectrum  # fill the cache so that clearing it is observable
                    _ = sig.smooth_fa_spectrum if n > 3 else None
                    held = sig.values
                    held_before = arr_info(held)
                    if isinstance(series, np.ndarray):
                        series_before = arr_info(series)
                    else:
                        series_before = repr(series)
                    r = attempt(lambda: sig.add_series(series))
                    if isinstance(series, np.ndarray):
                        series_same = arr_info(series) == series_before
                    else:
                        series_same = repr(series) == series_before
                    out.append(('add_series', cls.__name__, n, kind, sname, r, snap(sig), series_same,
                                arr_info(held) == held_before, sig.values is held))

                # ---- add_signal
                other_opts = [
                    ('Signal_same', Signal(make_values(rng, n, 'float'), dt)),
                    ('AccSignal_same', AccSignal(make_values(rng, n, 'float'), dt)),
                    ('Sub_same', SubSignal(make_values(rng, n, 'int'), dt)),
                    ('Signal_dt_float_eq', Signal(make_values(rng, n, 'float'), float(dt) * 1.0)),
                    ('Signal_dt_np', Signal(make_values(rng, n, 'float'), np.float64(dt))),
                    ('Signal_dt_diff', Signal(make_values(rng, n, 'float'), dt * 2)),
                    ('Signal_dt_close', Signal(make_values(rng, n, 'float'), dt * (1 + 1e-15))),
                    ('Signal_dt_nan', Signal(make_values(rng, n, 'float'), float('nan'))),
                    ('Signal_short', Signal(make_values(rng, max(n - 1, 1) if n > 1 else 2, 'float'), dt)),
                    ('Signal_long', AccSignal(make_values(rng, n + 2, 'float'), dt)),
                    ('Signal_short_dt_diff', Signal(make_values(rng, n + 1, 'float'), dt * 3)),
                    ('array', make_values(rng, n, 'float')),
                    ('list', make_values(rng, n, 'list')),
                    ('none', None),
                    ('number', 3),
                    ('duck', Duck(make_values(rng, n, 'float'), dt)),
                    ('class', Signal),
                ]
                for oname, other in other_opts:
                    sig = new_sig()
                    _ = sig.fa_spectrum
                    held = sig.values
                    held_before = arr_info(held)
                    is_sig = isinstance(other, Signal)
                    other_before = snap(other) if is_sig else None
                    r = attempt(lambda: sig.add_signal(other))
                    other_same = (snap(other) == other_before) if is_sig else None
                    out.append(('add_signal', cls.__name__, n, kind, oname, r, snap(sig), other_same,
                                arr_info(held) == held_before, sig.values is held))

                # ---- add a signal to itself
                sig = new_sig()
                r = attempt(lambda: sig.add_signal(sig))
                out.append(('add_signal_self', cls.__name__, n, kind, r, snap(sig)))

    # ---- multi-step histories on one object
    for cls in (Signal, AccSignal):
        for trial in range(40):
            n = int(rng.integers(4, 80))
            dt = float(rng.choice([0.01, 0.02, 0.5]))
            sig = cls(rng.standard_normal(n), dt)
            hist = []
            for step in range(12):
                op = int(rng.integers(0, 8))
                if op == 0:
                    r = attempt(lambda: sig.add_constant(float(rng.standard_normal())))
                elif op == 1:
                    r = attempt(lambda: sig.add_series(rng.standard_normal(n)))
                elif op == 2:
                    r = attempt(lambda: sig.add_series(list(rng.standard_normal(n + int(rng.integers(-1, 2))))))
                elif op == 3:
                    r = attempt(lambda: sig.add_signal(Signal(rng.standard_normal(n), dt)))
                elif op == 4:
                    r = attempt(lambda: sig.add_signal(AccSignal(rng.standard_normal(n), dt * float(rng.choice([1, 2])))))
                elif op == 5:
                    r = attempt(lambda: sig.add_signal(rng.standard_normal(n)))
                elif op == 6:
                    r = attempt(lambda: arr_info(sig.fa_spectrum))
                else:
                    r = attempt(lambda: sig.remove_poly(int(rng.integers(0, 3))))
                hist.append((op, r, snap(sig)))
            out.append(('history', cls.__name__, trial, hist))
    return out


# ----------------------------------------------------------------------------------------------------------------
# driver
# ----------------------------------------------------------------------------------------------------------------

def worker(root, outfile):
    root = os.path.abspath(root)
    sys.path.insert(0, root)
    warnings.simplefilter('ignore')
    np.seterr(all='ignore')
    import eqsig
    assert os.path.abspath(eqsig.__file__).startswith(root + os.sep), (eqsig.__file__, root)
    results = run_cases(eqsig)
    with open(outfile, 'wb') as f:
        pickle.dump(results, f)


def first_difference(a, b, path='root'):
    if type(a) != type(b):
        return '%s: type %s != %s' % (path, type(a), type(b))
    if isinstance(a, (list, tuple)):
        if len(a) != len(b):
            return '%s: len %d != %d' % (path, len(a), len(b))
        for i, (x, y) in enumerate(zip(a, b)):
            d = first_difference(x, y, '%s[%d]' % (path, i))
            if d:
                return d
        return None
    if isinstance(a, dict):
        if sorted(a) != sorted(b):
            return '%s: keys differ' % path
        for k in a:
            d = first_difference(a[k], b[k], '%s[%r]' % (path, k))
            if d:
                return d
        return None
    if a != b:
        return '%s: %r != %r' % (path, a if not isinstance(a, bytes) else '<bytes>', b if not isinstance(b, bytes) else '<bytes>')
    return None


def count_raises(obj):
    if isinstance(obj, tuple) and len(obj) == 3 and obj[0] == 'exc':
        return 1
    if isinstance(obj, (list, tuple)):
        return sum(count_raises(x) for x in obj)
    return 0


def main():
    wt = os.getcwd()
    assert os.path.isdir(os.path.join(wt, 'eqsig')), 'run with cwd = the worktree'
    if subprocess.call(['git', 'diff', '--quiet', 'HEAD', '--', 'eqsig'], cwd=wt) == 0:
        print('WARNING: the worktree has no edit applied - comparing the original with itself')
    tmp = tempfile.mkdtemp(prefix='c17tw4_equiv1_', dir='/tmp')
    try:
        subprocess.check_call('git archive HEAD eqsig | tar -x -C "%s"' % tmp, shell=True, cwd=wt)
        outs = {}
        for tag, root in (('orig', tmp), ('edit', wt)):
            outfile = os.path.join(tmp, 'res_%s.pkl' % tag)
            env = dict(os.environ)
            env.pop('PYTHONPATH', None)
            # output is captured because LAPACK prints (harmless, identical) complaints for degenerate fits
            proc = subprocess.run([sys.executable, os.path.abspath(__file__), '--worker', root, outfile],
                                  cwd=root, env=env, stdout=subprocess.PIPE, stderr=subprocess.STDOUT)
            if proc.returncode != 0:
                sys.stderr.write(proc.stdout.decode(errors='replace')[-5000:])
                print('worker for %s failed' % tag)
                return 1
            with open(outfile, 'rb') as f:
                outs[tag] = pickle.load(f)
        d = first_difference(outs['orig'], outs['edit'])
        n = len(outs['orig'])
        n_exc = count_raises(outs['orig'])
        if d:
            print('MISMATCH:', d)
            return 1
        print('all %d cases identical (%d calls in them raise, identically)' % (n, n_exc))
        return 0
    finally:
        shutil.rmtree(tmp, ignore_errors=True)


if __name__ == '__main__':
    if len(sys.argv) > 1 and sys.argv[1] == '--worker':
        worker(sys.argv[2], sys.argv[3])
    else:
        sys.exit(main())

"""
Equivalence check for twin3 (namedtuple record + context manager in AccSignal.gen_response_spectrum, math.ceil in
eqsig.fns.time_step.interp_array_to_approx_dt).

Run with twin3 applied, cwd = the worktree:   /venv/bin/python out/equiv3.py

The ORIGINAL package is extracted from git HEAD into a temporary directory.  The same deterministic list of
cases is executed in two subprocesses (one importing the original package, one importing the edited package);
each one records, for every case, the full result (types, dtypes, shapes, memory layout, raw bytes), the state of
the arguments after the call, aliasing between results and arguments, or the exception raised.  The two records are
then compared for exact equality.  Exit status 0 iff everything matches.
"""
import os
import pickle
import subprocess
import sys
import tempfile

import numpy as np

HERE = os.path.dirname(os.path.abspath(__file__))
WORKTREE = os.path.dirname(HERE)


# ---------------------------------------------------------------------------------------------------------------------
# canonical description of results
# ---------------------------------------------------------------------------------------------------------------------
def describe(obj):
    if isinstance(obj, np.ndarray):
        return ('ndarray', obj.dtype.str, obj.shape, bool(obj.flags['C_CONTIGUOUS']), bool(obj.flags['WRITEABLE']),
                np.ascontiguousarray(obj).tobytes())
    if isinstance(obj, np.generic):
        return ('npscalar', type(obj).__name__, obj.tobytes())
    if isinstance(obj, (tuple, list)):
        return (type(obj).__name__, [describe(o) for o in obj])
    if isinstance(obj, dict):
        return ('dict', sorted((repr(k), describe(v)) for k, v in obj.items()))
    if isinstance(obj, float):
        return ('float', obj.hex())
    if isinstance(obj, (int, bool, str, type(None))):
        return (type(obj).__name__, repr(obj))
    return ('object', type(obj).__name__)


def arrays_in(obj):
    if isinstance(obj, np.ndarray):
        return [obj]
    if isinstance(obj, (tuple, list)):
        out = []
        for o in obj:
            out += arrays_in(o)
        return out
    return []


def call(fn, *args, **kwargs):
    """Run fn and describe the result, the arguments afterwards, and the aliasing pattern"""
    try:
        res = fn(*args, **kwargs)
    except Exception as e:  # noqa
        return ('raised', type(e).__name__, str(e), describe(list(args)))
    outs = arrays_in(res)
    ins = arrays_in(list(args)) + arrays_in(list(kwargs.values()))
    alias_oo = [bool(np.shares_memory(outs[i], outs[j])) for i in range(len(outs)) for j in range(i + 1, len(outs))]
    alias_oi = [bool(np.shares_memory(o, i)) for o in outs for i in ins]
    return ('ok', describe(res), describe(list(args)), describe(kwargs), alias_oo, alias_oi)


# ---------------------------------------------------------------------------------------------------------------------
# the cases
# ---------------------------------------------------------------------------------------------------------------------
STATE_ATTRS = ['_s_a', '_s_v', '_s_d', '_cached_response_spectra', '_cached_xi', '_response_times', '_values', '_dt',
               '_npts', '_cached_disp_and_velo', '_cached_fa', '_cached_smooth_fa', '_cached_params']


def state_of(asig):
    d = {}
    for name in STATE_ATTRS:
        d[name] = describe(getattr(asig, name, 'missing'))
    d['keys'] = describe(sorted(asig.__dict__.keys()))
    return describe(d)


def step(asig, what, *args, **kwargs):
    """One step of a history on an object: the outcome of the call and the object state afterwards"""
    if what == 'get':
        try:
            res = ('ok', describe(getattr(asig, args[0])))
        except Exception as e:  # noqa
            res = ('raised', type(e).__name__, str(e))
    else:
        res = call(getattr(asig, what), *args, **kwargs)
    return (what, res, state_of(asig))


def run_cases(pkg_dir):
    import warnings
    warnings.simplefilter("ignore")
    sys.path.insert(0, pkg_dir)
    import eqsig
    assert os.path.abspath(eqsig.__file__).startswith(os.path.abspath(pkg_dir) + os.sep), eqsig.__file__
    from eqsig.fns import time_step
    import eqsig.single
    import eqsig.sdof

    rng = np.random.default_rng(2609262)
    out = []

    # 1. interp_array_to_approx_dt directly: every branch of the factor, even / odd, lists, ints, short arrays
    value_sets = [rng.standard_normal(n) for n in [0, 1, 2, 3, 5, 50, 333]]
    value_sets += [np.zeros(7), rng.integers(-4, 5, 21), list(rng.standard_normal(6)), [1, 2, 3, 4],
                   rng.standard_normal(40)[::3], rng.standard_normal(9).astype(np.float32)]
    dts = [0.01, 0.005, 0.02, 0.1, 1, 2, np.float64(0.01), np.float64(0.04), np.float32(0.01), 1e-3]
    targets = [0.01, 0.005, 0.0025, 0.003, 0.00999, 0.0100001, 0.02, 0.03, 0.1, 1, 3, np.float64(0.0025), 1e-4]
    k = 0
    for vals in value_sets:
        for dt in dts:
            for tdt in targets:
                for even in (True, False):
                    k += 1
                    if len(vals) > 100 and dt / tdt > 200:
                        continue
                    out.append(('interp_array_to_approx_dt', 'grid', k,
                                call(time_step.interp_array_to_approx_dt, vals, dt, tdt, even)))
    for trial in range(300):
        n = int(rng.integers(1, 80))
        vals = rng.standard_normal(n)
        dt = float(10 ** rng.uniform(-3, 0))
        if rng.random() < 0.5:
            tdt = dt / float(rng.integers(1, 12))  # exact or nearly exact integer ratios
        else:
            tdt = float(dt * 10 ** rng.uniform(-1.5, 1.0))
        out.append(('interp_array_to_approx_dt', 'rand', trial,
                    call(time_step.interp_array_to_approx_dt, vals, dt, target_dt=tdt, even=bool(trial % 2))))
        out.append(('interp_array_to_approx_dt', 'rand-kw', trial,
                    call(time_step.interp_array_to_approx_dt, vals, np.float64(dt), target_dt=np.float64(tdt))))
    for fac in range(2, 9):  # the refinement factors of the property, exact and inexact quotients
        for dt in [0.01, 0.02, 0.005, 0.1, 0.3]:
            vals = rng.standard_normal(30)
            out.append(('interp_array_to_approx_dt', 'refine', (fac, dt),
                        call(time_step.interp_array_to_approx_dt, vals, dt, dt / fac, False)))
    a_sig = eqsig.AccSignal(rng.standard_normal(40), 0.02)
    for tdt in [0.01, 0.004, 0.02, 0.05]:
        for fn in (time_step.interp_to_approx_dt,):
            try:
                r = fn(a_sig, tdt)
                out.append((fn.__name__, 'sig', tdt, describe((r.values, r.dt, r.npts))))
            except Exception as e:  # noqa
                out.append((fn.__name__, 'sig', tdt, ('raised', type(e).__name__, str(e))))

    # 2. gen_response_spectrum: histories on AccSignal objects, state compared after every step
    rt_sets = [None,
               np.array([0.0, 0.1, 0.5, 1.0]),
               np.array([0.04, 0.1, 0.5, 1.0]),  # forces interpolation for dt >= 0.002 * ratio
               np.array([0.0, 0.02, 3.0]),
               [0.3, 1.0],  # a list
               [0.0, 0.5],
               np.array([2.0]),
               np.array([0.0]),  # no non zero period: IndexError
               np.array([0.0, 0.0, 1.0]),
               np.linspace(0.0, 5.0, 31),
               np.linspace(0.01, 5.0, 12),
               np.array([1.0, 0.05, 0.2]),  # not ascending
               (0.2, 0.4, 0.8)]
    recs = [rng.standard_normal(n) for n in [2, 3, 10, 120, 400]]
    recs += [np.zeros(30), rng.integers(-3, 4, 50), list(rng.standard_normal(25)),
             np.concatenate([[0.0], rng.standard_normal(60)])]
    k = 0
    for rec in recs:
        for dt in [0.01, 0.005, 0.05, 0.2, 1, np.float64(0.02)]:
            k += 1
            asig = eqsig.AccSignal(rec, dt)
            hist = [('init', None, state_of(asig))]
            hist.append(step(asig, 'get', 's_a'))
            for j, rts in enumerate(rt_sets):
                xi = [-1, 0.05, 0.0, 0.2, 0.9][(j + k) % 5]
                ratio = [4, 1, 8, 20, 2.5][(2 * j + k) % 5]
                if j % 3 == 0:
                    hist.append(step(asig, 'gen_response_spectrum', rts, xi, ratio))
                elif j % 3 == 1:
                    hist.append(step(asig, 'gen_response_spectrum', response_times=rts, xi=xi, min_dt_ratio=ratio))
                else:
                    hist.append(step(asig, 'generate_response_spectrum', response_times=rts, xi=xi))
                hist.append(step(asig, 'get', ['s_a', 's_v', 's_d'][j % 3]))
            # setters that invalidate, then lazy regeneration
            asig.response_times = np.array([0.0, 0.25, 0.75])
            hist.append(('set_rt', None, state_of(asig)))
            hist.append(step(asig, 'get', 's_d'))
            asig.reset_values(np.asarray(rec, dtype=float) * -2.0)
            hist.append(('reset_values', None, state_of(asig)))
            hist.append(step(asig, 'get', 's_v'))
            hist.append(step(asig, 'gen_response_spectrum', min_dt_ratio=6))
            hist.append(step(asig, 'response_series', response_times=[0.0, 0.4], xi=0.1))
            hist.append(step(asig, 'get', 's_a'))
            out.append(('AccSignal', 'hist', k, hist))

    # 3. the transformations of the property, seen through gen_response_spectrum (which interpolates the record)
    a = rng.standard_normal(200)
    b = rng.standard_normal(200)
    a[0] = 0.0
    periods = np.array([0.0, 0.03, 0.08, 0.2, 0.5, 1.0, 3.0])
    variants = [('a', a), ('neg', -a), ('lin', 2.5 * a - 0.5 * b), ('zeros', 0.0 * a), ('cut', a[:77]),
                ('shift', np.concatenate([np.zeros(13), a]))]
    for r in range(2, 9):
        variants.append(('refine%i' % r, np.interp(np.arange((len(a) - 1) * r + 1) / r, np.arange(len(a)), a)))
    for name, rec in variants:
        for dt in [0.01, 0.04]:
            for ratio in [1, 4, 7]:
                for rts in [periods, periods[1:], periods[::-1][:-1], periods[:3], periods[3:]]:
                    asig = eqsig.AccSignal(rec, dt / int(name[6:]) if name.startswith('refine') else dt)
                    st = step(asig, 'gen_response_spectrum', rts, 0.05, ratio)
                    out.append(('AccSignal', name, (dt, ratio, len(rts)), st))

    # 4. error translation: a MemoryError of the solver becomes the advisory MemoryError, other errors pass untouched,
    #    and the object state is left as it was
    real = eqsig.sdof.pseudo_response_spectra
    for exc in [MemoryError, MemoryError('boom'), ValueError('bad'), KeyError('k'), FloatingPointError, StopIteration,
                GeneratorExit, RuntimeError('generator raised StopIteration')]:
        for dt, rts in [(0.01, np.array([0.0, 0.5, 1.0])), (0.1, np.array([0.04, 1.0])), (0.1, [0.04, 1.0, 2.0])]:
            asig = eqsig.AccSignal(rng.standard_normal(50), dt)
            hist = [step(asig, 'gen_response_spectrum', rts)]
            calls = []

            def failing(values, dt_, response_times, xi, exc=exc, calls=calls):
                calls.append(describe([values, dt_, response_times, xi]))
                raise exc
            eqsig.sdof.pseudo_response_spectra = failing
            try:
                try:
                    asig.gen_response_spectrum(response_times=rts[:2], xi=0.07)
                    hist.append('no error')
                except BaseException as e:  # noqa
                    hist.append(('raised', type(e).__name__, str(e), type(e.__context__).__name__,
                                 type(e.__cause__).__name__, bool(e.__suppress_context__)))
            finally:
                eqsig.sdof.pseudo_response_spectra = real
            hist.append(calls)
            hist.append(state_of(asig))
            hist.append(step(asig, 'get', 's_a'))
            out.append(('AccSignal', 'errors', (repr(exc), dt), hist))
    return out


# ---------------------------------------------------------------------------------------------------------------------
def main():
    if len(sys.argv) == 4 and sys.argv[1] == '--worker':
        res = run_cases(sys.argv[2])
        with open(sys.argv[3], 'wb') as f:
            pickle.dump(res, f)
        return 0

    tmp = tempfile.mkdtemp(prefix='twin3_C02_equiv3_', dir='/tmp')
    orig_dir = os.path.join(tmp, 'orig')
    os.makedirs(orig_dir)
    subprocess.check_call('git archive HEAD eqsig | tar -x -C "%s"' % orig_dir, shell=True, cwd=WORKTREE)
    results = {}
    for name, pkg_dir in [('orig', orig_dir), ('edit', WORKTREE)]:
        outfile = os.path.join(tmp, name + '.pkl')
        env = dict(os.environ)
        env.pop('PYTHONPATH', None)
        subprocess.check_call([sys.executable, os.path.abspath(__file__), '--worker', pkg_dir, outfile], cwd=pkg_dir,
                              env=env)
        with open(outfile, 'rb') as f:
            results[name] = pickle.load(f)
    orig, edit = results['orig'], results['edit']
    bad = 0
    if len(orig) != len(edit):
        print('different number of cases', len(orig), len(edit))
        bad += 1
    n_raised = 0
    for co, ce in zip(orig, edit):
        if co[3][0] == 'raised':
            n_raised += 1
        if co != ce:
            bad += 1
            if bad < 10:
                print('MISMATCH in case', co[:3], co[3][:3] if co[3][0] == 'raised' else '', ce[3][:3] if
                      ce[3][0] == 'raised' else '')
    print('%i cases compared (%i of them raise identically), %i mismatches' % (len(orig), n_raised, bad))
    return 1 if bad else 0


if __name__ == '__main__':
    sys.exit(main())
